(* A meta-theorem of the interpreter of Base/CExpr.v: memory the routine cannot read cannot influence it.

   Every code-level theorem of this development runs a translated body in a memory where ONLY the caller's buffer is readable
   ([mem_at a buf]) and concludes [Returned ...] / [Fell ...].  Here, once for the whole language:

   A. [ceval_ext]  : an expression that evaluates in a memory m evaluates to the same value in every extension m' of m;
   B. [exec_ext]   : a run that ends ([Returned] / [Fell] / [Broke]: not [Stuck], not [NoFuel]) in m is the same run in m' -
                     for EVERY statement list, fuel, environment and trace, no side condition on any constructor;
   C. [exec_any_surroundings] : a run that ends with only the buffer readable gives the SAME result in every memory that
                     holds the buffer, whatever else that memory holds.

   The converse direction is false, and must be: a run that is Stuck in m because it loads outside m may well end in m'. *)
From Coq Require Import ZArith String List Bool Lia.
From LW Require Import Base.Bytes Base.CExpr Spec.CodeSpec.
Import ListNotations.
Local Open Scope Z_scope.

(* ---------------------------------------------------------------- A. expressions *)
(* m' extends m: everything readable in m is readable in m', with the same content *)
Definition mem_le (m m' : memory) : Prop := forall a v, m a = Some v -> m' a = Some v.

Lemma mem_le_refl m : mem_le m m.
Proof. intros a v H; exact H. Qed.

Lemma mem_le_trans m1 m2 m3 : mem_le m1 m2 -> mem_le m2 m3 -> mem_le m1 m3.
Proof. intros H12 H23 a v H. apply H23, H12, H. Qed.

Lemma load_le_ext m m' : mem_le m m' -> forall n a v, load_le m a n = Some v -> load_le m' a n = Some v.
Proof.
  intros Hle. induction n as [ | k IHk]; intros a v; cbn [load_le].
  - intros H; exact H.
  - destruct (m a) as [b | ] eqn:Eb; [ | discriminate ].
    destruct (load_le m (a + 1) k) as [r | ] eqn:Er; [ | discriminate ].
    rewrite (Hle _ _ Eb), (IHk _ _ Er). intros H; exact H.
Qed.

(* one sub-expression at a time: the evaluation in m is named, the one in m' rewritten by the induction hypothesis; a
   sub-expression that gives None in m is left alone (it may sit on the unevaluated side of &&, || or ?:) *)
Ltac ceval_ext_sub :=
  match goal with
  | IH : forall v, ceval ?rho ?m ?e = Some v -> ceval ?rho ?m' ?e = Some v |- context [ceval ?rho ?m ?e] =>
      let E := fresh "E" in
      destruct (ceval rho m e) eqn:E; [ rewrite (IH _ eq_refl); clear IH | clear IH ]
  end.

Ltac ceval_ext_end :=
  cbv beta iota;
  repeat match goal with |- context [if ?c then _ else _] => destruct c end;
  let H := fresh "H" in intros H; first [ exact H | discriminate H ].

Theorem ceval_ext rho m m' : mem_le m m' -> forall e v, ceval rho m e = Some v -> ceval rho m' e = Some v.
Proof.
  intros Hle. induction e as [t z | t x | t e IHe | op t e1 IHe1 e2 IHe2 | op t e IHe | t c IHc e1 IHe1 e2 IHe2 | t f args | t e IHe | ];
    intros v.
  - (* CLit *) intros H; exact H.
  - (* CVar *) intros H; exact H.
  - (* CCast *) cbn [ceval]. repeat ceval_ext_sub; ceval_ext_end.
  - (* CBin: && and || evaluate their right operand only when the left one does not decide *)
    destruct op; cbn [ceval]; repeat ceval_ext_sub; ceval_ext_end.
  - (* CUn *) destruct op; cbn [ceval]; repeat ceval_ext_sub; ceval_ext_end.
  - (* CCond: only the chosen branch is evaluated *)
    cbn [ceval]. repeat ceval_ext_sub; ceval_ext_end.
  - (* CCall: the arguments are not evaluated, the result is a name of the environment *)
    intros H; exact H.
  - (* CLoad *)
    cbn [ceval]. destruct (ceval rho m e) as [addr | ] eqn:Ea; [ | discriminate ].
    rewrite (IHe _ eq_refl).
    destruct (load_le m addr (Z.to_nat (c_bits t / 8))) as [w | ] eqn:El; [ | discriminate ].
    rewrite (load_le_ext m m' Hle _ _ _ El). intros H; exact H.
  - (* CUnknown *) discriminate.
Qed.

Lemma evals_ext rho m m' : mem_le m m' -> forall l vs, evals rho m l = Some vs -> evals rho m' l = Some vs.
Proof.
  intros Hle. induction l as [ | e r IHr]; intros vs; cbn [evals].
  - intros H; exact H.
  - destruct (ceval rho m e) as [v | ] eqn:Ee; [ | discriminate ].
    destruct (evals rho m r) as [ws | ] eqn:Er; [ | discriminate ].
    rewrite (ceval_ext rho m m' Hle _ _ Ee), (IHr _ eq_refl). intros H; exact H.
Qed.

(* ---------------------------------------------------------------- B. statements *)
(* the run ended: it returned, fell through, or left by a break *)
Definition ended (r : xresult) : Prop :=
  match r with Fell _ _ | Returned _ _ _ | Broke _ _ => True | Stuck _ | NoFuel => False end.

(* the form used by the induction: the two runs are equal as soon as the one in the smaller memory ended *)
Section Exec.
Variables m m' : memory.
Hypothesis Hle : mem_le m m'.

(* a nested run: if the whole ended, the inner run ended (every continuation passes Stuck and NoFuel through), so it is the same in m';
   then by cases on how it ended *)
Ltac inner IHf :=
  match goal with
  | |- ended (match exec ?f m ?rho ?tr ?s with _ => _ end) -> _ =>
      let Hin := fresh "Hin" in let H := fresh "H" in let E := fresh "E" in
      intros H;
      assert (Hin : ended (exec f m rho tr s)) by (revert H; destruct (exec f m rho tr s); intros H; first [ exact I | exact H ]);
      rewrite (IHf _ _ _ Hin); clear Hin;
      revert H; destruct (exec f m rho tr s) eqn:E
  end.

Ltac finish IHf :=
  let H := fresh "H" in
  intros H; first [ reflexivity | exact (IHf _ _ _ H) | contradiction H ].

Lemma exec_ext_eq : forall f rho tr s, ended (exec f m rho tr s) -> exec f m' rho tr s = exec f m rho tr s.
Proof.
  induction f as [ | f IHf]; intros rho tr s.
  - intros H; contradiction H.
  - destruct s as [ | st r]; [ reflexivity | ].
    destruct st as [k x e | k g args | k c a b | k pre c body step | k [e | ] | k e cases default | | x body | x | x | w]; cbn [exec].
    + (* SSet *)
      destruct (ceval rho m e) as [v | ] eqn:Ee; [ | intros H; contradiction H ].
      rewrite (ceval_ext rho m m' Hle _ _ Ee). finish IHf.
    + (* SCall *)
      destruct (evals rho m args) as [vs | ] eqn:Ea; [ | intros H; contradiction H ].
      rewrite (evals_ext rho m m' Hle _ _ Ea). finish IHf.
    + (* SIf *)
      destruct (ceval rho m c) as [v | ] eqn:Ec; [ | intros H; contradiction H ].
      rewrite (ceval_ext rho m m' Hle _ _ Ec).
      inner IHf; finish IHf.
    + (* SLoop *)
      cbv zeta.
      assert (Hcont : forall rho1 tr1,
        ended (match exec f m rho1 tr1 body with
               | Fell rho2 tr2 => match exec f m rho2 tr2 step with
                                  | Fell rho3 tr3 => exec f m rho3 tr3 (SLoop k true c body step :: r)
                                  | o => o end
               | Broke rho2 tr2 => exec f m rho2 tr2 r
               | o => o end) ->
        match exec f m' rho1 tr1 body with
        | Fell rho2 tr2 => match exec f m' rho2 tr2 step with
                           | Fell rho3 tr3 => exec f m' rho3 tr3 (SLoop k true c body step :: r)
                           | o => o end
        | Broke rho2 tr2 => exec f m' rho2 tr2 r
        | o => o end =
        match exec f m rho1 tr1 body with
        | Fell rho2 tr2 => match exec f m rho2 tr2 step with
                           | Fell rho3 tr3 => exec f m rho3 tr3 (SLoop k true c body step :: r)
                           | o => o end
        | Broke rho2 tr2 => exec f m rho2 tr2 r
        | o => o end).
      { intros rho1 tr1. inner IHf; try finish IHf. inner IHf; finish IHf. }
      destruct pre.
      * destruct (ceval rho m c) as [v | ] eqn:Ec; [ | intros H; contradiction H ].
        rewrite (ceval_ext rho m m' Hle _ _ Ec).
        destruct (negb (v =? 0)); [ apply Hcont | finish IHf ].
      * apply Hcont.
    + (* SRet (Some e) *)
      destruct (ceval rho m e) as [v | ] eqn:Ee; [ | intros H; contradiction H ].
      rewrite (ceval_ext rho m m' Hle _ _ Ee). reflexivity.
    + (* SRet None *) reflexivity.
    + (* SSwitch *)
      destruct (ceval rho m e) as [v | ] eqn:Ee; [ | intros H; contradiction H ].
      rewrite (ceval_ext rho m m' Hle _ _ Ee).
      inner IHf; finish IHf.
    + (* SBreak *) reflexivity.
    + (* SInline *)
      inner IHf; try finish IHf.
      destruct v; finish IHf.
    + (* SZero *) finish IHf.
    + (* SClobber *) finish IHf.
    + (* SOther *) intros H; contradiction H.
Qed.

End Exec.

(* B as stated: for every statement list, fuel, environment and trace; no constructor needs a side condition, because no construct
   of [exec] inspects the memory except through [ceval] / [evals], and those only through successful loads *)
Theorem exec_ext m m' f rho tr s r :
  mem_le m m' -> exec f m rho tr s = r -> ended r -> exec f m' rho tr s = r.
Proof. intros Hle Hr He. subst r. apply exec_ext_eq; assumption. Qed.

(* ---------------------------------------------------------------- C. corollaries *)
Lemma observe_ended r x : observe r = Some x -> ended r.
Proof. destruct r; cbn; intros H; first [ exact I | discriminate H ]. Qed.

Theorem observe_ext m m' f rho tr s x :
  mem_le m m' -> observe (exec f m rho tr s) = Some x -> observe (exec f m' rho tr s) = Some x.
Proof. intros Hle H. rewrite (exec_ext_eq m m' Hle _ _ _ _ (observe_ended _ _ H)). exact H. Qed.

(* M holds the bytes of buf at [a, a + |buf|); nothing is said about M elsewhere.
   (Named mem_agrees, not agrees: Base/Bytes.v already has [agrees rd buf] for the models' byte readers.) *)
Definition mem_agrees (M : memory) (a : Z) (buf : list byte) : Prop :=
  forall i, 0 <= i < zlen buf -> M (a + i) = Some (znth buf i).

Lemma mem_at_agrees a buf : mem_agrees (mem_at a buf) a buf.
Proof.
  intros i Hi. unfold mem_at.
  destruct (Z.leb_spec a (a + i)) as [Hlo | Hlo]; [ | lia ]. destruct (Z.ltb_spec (a + i) (a + zlen buf)) as [Hhi | Hhi]; [ | lia ].
  cbn [andb]. f_equal. f_equal. lia.
Qed.

Lemma mem_at_le M a buf : mem_agrees M a buf -> mem_le (mem_at a buf) M.
Proof.
  intros Hag x v. unfold mem_at.
  destruct (Z.leb_spec a x) as [Hlo | Hlo]; [ | discriminate ]. destruct (Z.ltb_spec x (a + zlen buf)) as [Hhi | Hhi]; [ | discriminate ].
  cbn [andb]. intros Hv. injection Hv as <-.
  replace x with (a + (x - a)) at 1 by lia. apply Hag. lia.
Qed.

(* and conversely: the memories above [mem_at a buf] are exactly the ones that hold the buffer *)
Lemma mem_le_agrees M a buf : mem_le (mem_at a buf) M -> mem_agrees M a buf.
Proof. intros Hle i Hi. apply Hle. apply mem_at_agrees. exact Hi. Qed.

Theorem exec_any_surroundings M a buf f rho tr s r :
  mem_agrees M a buf -> exec f (mem_at a buf) rho tr s = r -> ended r -> exec f M rho tr s = r.
Proof. intros Hag. apply exec_ext. apply mem_at_le. exact Hag. Qed.

Corollary exec_any_surroundings_eq M a buf f rho tr s :
  mem_agrees M a buf -> ended (exec f (mem_at a buf) rho tr s) -> exec f M rho tr s = exec f (mem_at a buf) rho tr s.
Proof. intros Hag. apply exec_ext_eq. apply mem_at_le. exact Hag. Qed.

Corollary observe_any_surroundings M a buf f rho tr s x :
  mem_agrees M a buf -> observe (exec f (mem_at a buf) rho tr s) = Some x -> observe (exec f M rho tr s) = Some x.
Proof. intros Hag. apply observe_ext. apply mem_at_le. exact Hag. Qed.

(* the same for expressions: a site proved to evaluate with only the buffer readable *)
Corollary ceval_any_surroundings M a buf rho e v :
  mem_agrees M a buf -> ceval rho (mem_at a buf) e = Some v -> ceval rho M e = Some v.
Proof. intros Hag. apply ceval_ext. apply mem_at_le. exact Hag. Qed.

(* the converse of B is false: a run that is Stuck for want of readable memory ends in a larger one *)
Example exec_ext_converse_refuted :
  let s := [SRet "ret#0" (Some (CLoad u8 (CLit u64 0)))] in
  let m : memory := fun _ => None in
  let m' : memory := fun _ => Some 7 in
  mem_le m m' /\ exec 1 m (fun _ => 0) [] s = Stuck "ret#0" /\
  exists rho, exec 1 m' (fun _ => 0) [] s = Returned (Some 7) rho [].
Proof. split; [ intros a v H; discriminate H | split; [ reflexivity | eexists; reflexivity ] ]. Qed.

Print Assumptions load_le_ext.
Print Assumptions ceval_ext.
Print Assumptions evals_ext.
Print Assumptions exec_ext_eq.
Print Assumptions exec_ext.
Print Assumptions observe_ext.
Print Assumptions mem_at_le.
Print Assumptions exec_any_surroundings.
Print Assumptions exec_any_surroundings_eq.
Print Assumptions observe_any_surroundings.
Print Assumptions ceval_any_surroundings.
Print Assumptions exec_ext_converse_refuted.
