(* The pass of ieee80211_radiotap_iterator_next AS TRANSLATED over bit 29 (IEEE80211_RADIOTAP_RADIOTAP_NAMESPACE: "the next
   present word starts the radiotap namespace again"), executed by execg, for ALL values in range.  It exercises the jump the other
   passes do not: `goto next_entry` out of case 29 of the second switch INTO THE DEFAULT GROUP OF THE SAME SWITCH.
   align 1 / size 0 from the first switch, no padding, the bounds test; then _reset_on_ext = 1, current_namespace = &radiotap_ns,
   is_radiotap_ns = 1, the jump lands behind the label (shifter >> 1, index + 1), hit is 0 and the loop makes its next pass:
   the model's  rt_next f {| r_idx + 1; shiftr; r_reset := true; r_ns := true |}. *)
From Coq Require Import ZArith String List Bool Lia.
From LW Require Import Base.Bytes Base.CExpr Base.CGoto Gen.Consts Gen.Sites Proofs.SitesLemmas
  Proofs.SitesRadiotapIter Proofs.CodeRadiotapNextPass Proofs.CodeRadiotapNextHit Model.Radiotap.
Import ListNotations.
Local Open Scope string_scope.
Local Open Scope Z_scope.

Lemma execg_switch_jump_self f m rho tr k e cases d r v lab rho1 tr1 t rho2 tr2 :
  ceval rho m e = Some v -> execg f m rho tr (pick_case v cases d) = GJumped lab rho1 tr1 ->
  after_label lab d = Some t -> execg f m rho1 tr1 t = GFell rho2 tr2 ->
  execg (S f) m rho tr (SSwitch k e cases d :: r) = execg f m rho2 tr2 r.
Proof. intros He H Hl Ht. cbn [execg]. rewrite He, H, Hl, Ht. reflexivity. Qed.

Lemma execg_goto_next_entry f m rho tr r :
  execg (S f) m rho tr (SOther "goto next_entry" :: r) = GJumped "next_entry" rho tr.
Proof. reflexivity. Qed.

Lemma after_label_case2_default : after_label "next_entry" rtnext_case2_default = Some next_entry_tail.
Proof. reflexivity. Qed.

Section Reset.
Variable m : memory.

Theorem rtnext_code_ns_reset_pass rho tr idx sh h a mx rns F :
  rho "iterator->_arg_index" = idx -> rho "iterator->_bitmap_shifter" = sh -> rho "iterator->_arg" = h + a ->
  rho "iterator->_rtheader" = h -> rho "iterator->_max_length" = mx -> rho "&radiotap_ns" = rns ->
  0 <= idx < 2 ^ 31 - 1 -> idx mod 32 = c_IEEE80211_RADIOTAP_RADIOTAP_NAMESPACE -> 0 <= sh < 2 ^ 32 -> Z.odd sh = true ->
  0 <= h -> 0 <= a -> h + a + 32 < 2 ^ 62 -> 0 <= mx < 2 ^ 31 -> 0 <= rns < 2 ^ 64 ->
  if mx <? a then
    exists rho', execg (60 + F) m rho tr body_ieee80211_radiotap_iterator_next = GReturned (Some (- EINVAL)) rho' tr
  else
    exists rho', execg (60 + F) m rho tr body_ieee80211_radiotap_iterator_next =
                 execg (59 + F) m rho' tr body_ieee80211_radiotap_iterator_next /\
      rho' "iterator->_arg" = h + a /\ rho' "iterator->_bitmap_shifter" = Z.shiftr sh 1 /\ rho' "iterator->_arg_index" = idx + 1 /\
      rho' "iterator->_reset_on_ext" = 1 /\ rho' "iterator->current_namespace" = rns /\ rho' "iterator->is_radiotap_ns" = 1 /\
      rho' "iterator->_max_length" = mx /\ rho' "iterator->_rtheader" = h /\
      rho' "iterator->_next_bitmap" = rho "iterator->_next_bitmap".
Proof.
  intros Hi Hs Ha Hh Hmx Hrns Ri Hbit Rs Hodd Rh Ra Rb Rm Rr.
  change c_IEEE80211_RADIOTAP_RADIOTAP_NAMESPACE with 29 in Hbit.
  set (r0 := locals0 rho).
  destruct (site_rtnext_if0 m r0 idx sh Hi Hs ltac:(nums; lia) Rs) as (Hc0 & _).
  rewrite Hodd in Hc0. rewrite andb_false_r in Hc0. cbn [b2z] in Hc0.
  pose proof (site_rtnext_if1 m r0 sh Hs Rs) as Hc1. rewrite Hodd in Hc1. cbn [negb b2z] in Hc1.
  destruct (site_rtnext_switch m r0 idx Hi ltac:(nums; lia)) as (Hsw0 & _). rewrite Hbit in Hsw0.
  set (r2 := upd (upd r0 "align" 1) "size" 0).
  pose proof (site_rtnext_pad_mod m r2 h a 1 Hh Ha eq_refl Rh Ra ltac:(nums; lia) ltac:(cbn [In]; tauto)) as Hpad.
  rewrite Z.mod_1_r in Hpad.
  set (r3 := upd r2 "pad" 0).
  destruct (site_rtnext_if5_arg m r3 h a 1 0 Ha eq_refl eq_refl Rh Ra ltac:(nums; lia) ltac:(lia) ltac:(nums; lia)) as (Hc5 & _).
  destruct (site_rtnext_switch m r3 idx Hi ltac:(nums; lia)) as (_ & _ & Hc6). rewrite Hbit in Hc6.
  change (29 =? c_IEEE80211_RADIOTAP_VENDOR_NAMESPACE) with false in Hc6. cbn [b2z] in Hc6.
  destruct (site_rtnext_this_arg m r3 h a 0 idx Ha eq_refl Hi Rh Ra ltac:(nums; lia) ltac:(nums; lia) ltac:(nums; lia)) as (Ht1 & _).
  set (r5 := upd r3 "iterator->this_arg_index" idx).
  destruct (site_rtnext_this_arg m r5 h a 0 idx Ha eq_refl Hi Rh Ra ltac:(nums; lia) ltac:(nums; lia) ltac:(nums; lia)) as (_ & Ht2 & _).
  set (r6 := upd r5 "iterator->this_arg" (h + a)).
  destruct (site_rtnext_this_arg m r6 h a 0 idx Ha eq_refl Hi Rh Ra ltac:(nums; lia) ltac:(nums; lia) ltac:(nums; lia)) as (_ & _ & Ht3 & _).
  set (r7 := upd r6 "iterator->this_arg_size" 0).
  destruct (site_rtnext_this_arg m r7 h a 0 idx Ha eq_refl Hi Rh Ra ltac:(nums; lia) ltac:(nums; lia) ltac:(nums; lia)) as (_ & _ & _ & Ht4).
  rewrite Z.add_0_r in Ht4.
  set (r8 := upd r7 "iterator->_arg" (h + a)).
  destruct (site_rtnext_if9 m r8 h a mx Hh eq_refl Hmx Rh Ra ltac:(nums; lia) Rm) as (Hc9 & Hr9).
  assert (Hprefix : forall G, execg (S (S (S (S (S (S (S (S G)))))))) m rho tr rtnext_loop_body = execg (S G) m r0 tr rtnext_tail7).
  { intros G. rewrite rtnext_loop_body_head.
    do 5 (rewrite execg_set with (v := 0) by reflexivity). fold (locals0 rho). fold r0.
    rewrite execg_if_skip by exact Hc0. rewrite execg_if_skip by exact Hc1. reflexivity. }
  assert (Hmid : forall G, execg (S (S (S (S (S (S (S (S (S (S (S G))))))))))) m r0 tr rtnext_tail7 =
                           execg (S (S (S G))) m r8 tr
                             [SIf "if#9" (site NEXT "if#9") [SRet "ret#3" (Some (site NEXT "ret#3"))] []; rtnext_switch1;
                              SIf "if#12" (site NEXT "if#12") [SRet "ret#4" (Some (site NEXT "ret#4"))] []]).
  { intros G. rewrite rtnext_tail7_shape, rtnext_switch0_shape.
    rewrite (execg_switch_broke _ m r0 tr _ _ _ _ _ 29 r2 tr Hsw0).
    2:{ change (pick_case 29 _ _) with rtnext_case_special. unfold rtnext_case_special.
        rewrite execg_set with (v := 1) by reflexivity. rewrite execg_set with (v := 0) by reflexivity. apply execg_break. }
    rewrite execg_set with (v := 0) by exact Hpad. fold r3.
    rewrite execg_if_skip by exact Hc5. rewrite execg_if_skip by exact Hc6.
    rewrite execg_set with (v := idx) by exact Ht1. fold r5.
    rewrite execg_set with (v := h + a) by exact Ht2. fold r6.
    rewrite execg_set with (v := 0) by exact Ht3. fold r7.
    rewrite execg_set with (v := h + a) by exact Ht4. fold r8. reflexivity. }
  destruct (Z.ltb_spec mx a) as [Hover | Hin]; cbn [b2z] in Hc9.
  - exists r8. cbn [Nat.add]. apply rtnext_pass_returns. rewrite Hprefix, Hmid.
    apply execg_if_ret with (v := 1) (w := - EINVAL); [exact Hc9 | discriminate | exact Hr9].
  - destruct (site_rtnext_switch m r8 idx Hi ltac:(nums; lia)) as (_ & Hsw1 & _). rewrite Hbit in Hsw1.
    destruct (site_rtnext_rtns_case m r8 rns Hrns Rr) as (Hn1 & _).
    set (r9 := upd r8 "iterator->_reset_on_ext" 1).
    destruct (site_rtnext_rtns_case m r9 rns Hrns Rr) as (_ & Hn2 & _).
    set (r10 := upd r9 "iterator->current_namespace" rns).
    destruct (site_rtnext_rtns_case m r10 rns Hrns Rr) as (_ & _ & Hn3).
    set (r11 := upd r10 "iterator->is_radiotap_ns" 1).
    destruct (site_rtnext_next_entry m r11 sh idx Hs Hi Rs ltac:(nums; lia)) as (_ & Hsh & _).
    set (r12 := upd r11 "iterator->_bitmap_shifter" (Z.shiftr sh 1)).
    assert (Rs1 : 0 <= Z.shiftr sh 1 < 2 ^ 32).
    { rewrite Z.shiftr_div_pow2 by lia. change (2 ^ 1) with 2. nums. split; [apply Z.div_pos; lia | apply Z.div_lt_upper_bound; lia]. }
    destruct (site_rtnext_next_entry m r12 (Z.shiftr sh 1) idx eq_refl Hi Rs1 ltac:(nums; lia)) as (_ & _ & Hix).
    set (r13 := upd r12 "iterator->_arg_index" (idx + 1)).
    destruct (site_rtnext_if12 m r13 0 eq_refl ltac:(nums; lia)) as (Hc12 & _).
    exists r13. split; [ | repeat split; try reflexivity; assumption].
    cbn [Nat.add]. apply rtnext_pass. rewrite Hprefix, Hmid.
    rewrite execg_if_skip by exact Hc9.
    rewrite rtnext_switch1_shape.
    rewrite (execg_switch_jump_self _ m r8 tr _ _ _ _ _ 29 "next_entry" r11 tr next_entry_tail r13 tr Hsw1).
    + rewrite execg_if_skip by exact Hc12. apply execg_nil.
    + change (pick_case 29 _ _) with rtnext_case2_rtns. unfold rtnext_case2_rtns.
      rewrite execg_set with (v := 1) by exact Hn1. fold r9.
      rewrite execg_set with (v := rns) by exact Hn2. fold r10.
      rewrite execg_set with (v := 1) by exact Hn3. fold r11.
      apply execg_goto_next_entry.
    + exact after_label_case2_default.
    + unfold next_entry_tail.
      rewrite execg_set with (v := Z.shiftr sh 1) by exact Hsh. fold r12.
      rewrite execg_set with (v := idx + 1) by exact Hix. apply execg_nil.
Qed.
End Reset.

Print Assumptions rtnext_code_ns_reset_pass.
