(* The nine management-frame parsers AS TRANSLATED from parse/management/*.c (Gen/Sites.v: body_libwifi_parse_beacon,
   _probe_resp, _assoc_resp, _reassoc_resp, _probe_req, _assoc_req, _reassoc_req, _deauth, _disassoc), run on the
   classifier's frame object: type, subtype, order flag, len, header_len and body are lvalues of the environment, the frame
   body (len - header_len octets) is the only readable memory for the routines that load from it.

   1. Seven routines have one shape ([parser_ok], proved by one Ltac): type/subtype check, copy of the three addresses out
      of the header union, the length rule, tags.length = len - (header_len + FIXED), malloc(tags.length),
      memcpy(tags.parameters, body + FIXED, tags.length), iterator init, tag parser.  The theorems give the COMPLETE trace of
      calls in every case, the value returned and the final tags.length / tags.parameters; [parser_ok_reads] derives from any
      [parser_ok] that every memcpy is either one of the three header copies or the copy of the tagged parameters
      [body + FIXED, body + (len - header_len)), and that malloc is asked at most once ([seven_parsers_read_inside_the_body]).
      Inputs: type, subtype, order flag in the range of an int, 0 < body, 0 <= header_len <= len, body + len < 2^62,
      0 <= malloc's answer < 2^62.
      What the length rules really are: probe_req has NO length check (len = header_len gives malloc(0));
      assoc_req / reassoc_req refuse len <= header_len + FIXED; the four bss routines make two checks, len <= hl + FIXED and
      len < hl + FIXED + 2, i.e. they also refuse a frame with exactly one octet of tagged parameters.
      The four bss routines load the 16-bit capability field from the body (offset 10 for beacon / probe_resp, offset 0 for
      assoc_resp / reassoc_resp): the run is not stuck with only the body readable, and bit 4 of exactly that field decides
      bss->encryption_info.

   2. deauth and disassoc DEVIATE ([reason_parser_ok]): the length rule is  len < header_len + 2  (a frame with no tagged
      parameter is accepted and returns 0 without malloc), the 2-octet reason code is copied from [body, body + 2) BEFORE the
      allocation, there is no iterator / tag parser call, and the length of the tagged parameters is NOT computed from
      frame->header_len but from the constant 28 (ordered) or 24 (not ordered), and narrowed to int:
        tags_len = (int)(len - H - 2).
      So with header_len <> H the copy of the tagged parameters leaves the frame body ([parse_deauth_refuted_header_len]),
      and with len - H - 2 >= 2^31 the tagged parameters are dropped or truncated ([parse_deauth_refuted_int]);
      [reason_parser_consistent] is the statement of the common shape under the two hypotheses that exclude this. *)
From Coq Require Import ZArith String Ascii List Bool Lia.
From LW Require Import Base.Bytes Base.CExpr Gen.Sites Proofs.SitesLemmas Proofs.CodeIter Proofs.CodeSecurity.
Import ListNotations.
Local Open Scope string_scope.
Local Open Scope Z_scope.

Ltac nums :=
  change (2 ^ 64) with 18446744073709551616 in *; change (2 ^ 63) with 9223372036854775808 in *;
  change (2 ^ 62) with 4611686018427387904 in *;
  change (2 ^ 32) with 4294967296 in *; change (2 ^ 31) with 2147483648 in *.

(* ---------------------------------------------------------------- 1. running a body on a concrete stack of environments *)
Lemma wp_clobber_n N m rho tr x r Q n :
  List.length tr = n -> wp N m (clobber rho n x) tr r Q -> wp (S N) m rho tr (SClobber x :: r) Q.
Proof. intros <- (f & Hf & Hn & HQ). exists (S f). split; [lia | ]. rewrite exec_clobber. split; assumption. Qed.

Lemma wp_zero_c N m rho tr x r Q :
  wp N m (zeroed rho x) tr r Q -> wp (S N) m rho tr (SZero x :: r) Q.
Proof. intros (f & Hf & Hn & HQ). exists (S f). split; [lia | ]. rewrite exec_zero. split; assumption. Qed.

Lemma wp_call_n N m rho tr k g args r Q vs tr' :
  evals rho m args = Some vs -> (tr ++ [(g, vs)])%list = tr' -> wp N m rho tr' r Q -> wp (S N) m rho tr (SCall k g args :: r) Q.
Proof. intros He <-. apply wp_call. exact He. Qed.

(* x & 2^k *)
Lemma land_pow2 x k : 0 <= k -> Z.land x (2 ^ k) = if Z.testbit x k then 2 ^ k else 0.
Proof.
  intros Hk. apply Z.bits_inj'. intros n Hn. rewrite Z.land_spec, Z.pow2_bits_eqb by exact Hk.
  destruct (Z.eqb_spec k n) as [<- | Hne].
  - destruct (Z.testbit x k); [rewrite Z.pow2_bits_true by exact Hk | rewrite Z.bits_0]; reflexivity.
  - rewrite andb_false_r. destruct (Z.testbit x k); [rewrite Z.pow2_bits_false by exact Hne | rewrite Z.bits_0]; reflexivity.
Qed.

Lemma wrap_s32_land16 x : wrap (mkty true 32) (Z.land x 16) = if Z.testbit x 4 then 16 else 0.
Proof.
  change 16 with (2 ^ 4) at 1. rewrite land_pow2 by lia. change (2 ^ 4) with 16.
  destruct (Z.testbit x 4); apply wrap_s32_id; lia.
Qed.

(* evaluation under environments built by upd / zeroed / clobber on concrete names: String.prefix on concrete strings is
   computed by lazy reduction (ascii_dec is transparent; the proofs it carries are dropped by the conditional) *)
Ltac ceval_env :=
  lazy beta iota zeta delta [ceval evals binop b2z c_bits c_signed upd zeroed clobber primes String.eqb Ascii.eqb Bool.eqb negb String.append
                             String.prefix Ascii.ascii_dec Ascii.ascii_rec Ascii.ascii_rect sumbool_rec sumbool_rect bool_dec bool_rec bool_rect
                             u8 s8 u16 s16 u32 s32 u64 s64].
Ltac env_simpl :=
  lazy beta iota delta [zeroed clobber upd primes String.eqb Ascii.eqb Bool.eqb String.append
                        String.prefix Ascii.ascii_dec Ascii.ascii_rec Ascii.ascii_rect sumbool_rec sumbool_rect bool_dec bool_rec bool_rect].

Ltac cev :=
  ceval_env;
  repeat (progress (wrap_ids; decide_bools; cbv beta iota; cbn [orb andb];
                    change (1 * 2 ^ 4) with 16; change (1 * 2 ^ 1) with 2; change (Z.lor 0 2) with 2;
                    rewrite ?load_u16_off by lia; rewrite ?wrap_s32_land16));
  try reflexivity.

(* conditionals: the two branches get the fact that selects them as a hypothesis; nothing is rewritten in the (large) goal *)
Lemma wp_if_boolk N m rho tr k c a b r Q (bb : bool) (kk : Z) :
  ceval rho m c = Some (if bb then kk else 0) -> kk <> 0 ->
  (bb = true -> wp N m rho tr a (kont N m r Q)) ->
  (bb = false -> wp N m rho tr b (kont N m r Q)) ->
  wp (S N) m rho tr (SIf k c a b :: r) Q.
Proof.
  intros Hc Hk Ha Hb. apply wp_if with (v := if bb then kk else 0); [exact Hc | ].
  destruct bb.
  - destruct (Z.eqb_spec kk 0); [contradiction | ]. apply Ha. reflexivity.
  - apply Hb. reflexivity.
Qed.

Lemma wp_if_val N m rho tr k c a b r Q v :
  ceval rho m c = Some v ->
  (v <> 0 -> wp N m rho tr a (kont N m r Q)) ->
  (v = 0 -> wp N m rho tr b (kont N m r Q)) ->
  wp (S N) m rho tr (SIf k c a b :: r) Q.
Proof.
  intros Hc Ha Hb. apply wp_if with (v := v); [exact Hc | ].
  destruct (Z.eqb_spec v 0); cbn [negb]; auto.
Qed.

Ltac norm_cond H :=
  lazymatch type of H with
  | (if ?c then false else true) = true => change (negb c = true) in H; apply negb_true_iff in H; norm_cond H
  | (if ?c then false else true) = false => change (negb c = false) in H; apply negb_false_iff in H; norm_cond H
  | (?x =? ?y) = true => apply Z.eqb_eq in H
  | (?x =? ?y) = false => apply Z.eqb_neq in H
  | (?x <=? ?y) = true => apply Z.leb_le in H
  | (?x <=? ?y) = false => apply Z.leb_gt in H
  | (?x <? ?y) = true => apply Z.ltb_lt in H
  | (?x <? ?y) = false => apply Z.ltb_ge in H
  | (?x >? ?y) = true => rewrite Z.gtb_ltb in H; apply Z.ltb_lt in H
  | (?x >? ?y) = false => rewrite Z.gtb_ltb in H; apply Z.ltb_ge in H
  | _ => idtac
  end.
Ltac intro_cond := let H := fresh "C" in intro H; norm_cond H; try (exfalso; lia).

(* before a load of two octets at a constant offset of the body: the two octets are octets *)
Ltac load_prep :=
  lazymatch goal with
  | Hwf : wfbytes ?buf |- wp _ _ _ _ (SIf _ (CBin OAnd _ (CCast _ (CLoad _ (CBin OAdd _ _ (CLit _ ?off)))) _) _ _ :: _) _ =>
      pose proof (wfbytes_znth buf off Hwf ltac:(lia)); pose proof (wfbytes_znth buf (off + 1) Hwf ltac:(lia))
  end.

Ltac step :=
  lazymatch goal with
  | |- wp _ _ _ _ (SSet _ _ _ :: _) _ => eapply wp_set; [cev | ]
  | |- wp _ _ _ _ (SCall _ _ _ :: _) _ => eapply wp_call_n; [cev | cbn [app]; reflexivity | ]
  | |- wp _ _ _ _ (SClobber _ :: _) _ => eapply wp_clobber_n; [cbn [List.length]; reflexivity | ]
  | |- wp _ _ _ _ (SZero _ :: _) _ => apply wp_zero_c
  | |- wp _ _ _ _ [] _ => apply wp_nil; cbv beta iota delta [kont]
  | |- wp _ _ _ _ (SRet _ _ :: _) _ => eapply wp_ret; [cev | ]
  | |- wp _ _ _ _ (SIf _ _ _ _ :: _) _ =>
      try load_prep;
      first [ eapply wp_if_boolk; [solve [cev] | lia | intro_cond | intro_cond ]
            | eapply wp_if_val; [solve [cev] | intro_cond | intro_cond ] ]
  end.

(* ---------------------------------------------------------------- 2. the common shape *)
Definition frame_env (rho : env) (ty st o len hl b : Z) : env :=
  upd (upd (upd (upd (upd (upd rho "frame->frame_control.type" ty) "frame->frame_control.subtype" st)
     "frame->frame_control.flags.ordered" o) "frame->len" len) "frame->header_len" hl) "frame->body" b.

(* the object filled (bss / sta), its size, the tag parser called, whether the iterator object is cleared first, the offset of
   the capability field the routine loads from the body (None: the routine loads nothing) *)
Record names := { n_obj : string; n_size : Z; n_tagparser : string; n_it_memset : bool; n_cap : option Z }.

(* receiver, transmitter, bssid out of the header union: the ordered or the unordered view, by the order flag *)
Definition hdr3 (obj : string) (rho : env) (w : string) : list event :=
  [("memcpy", [wrap u64 (rho ("&" ++ obj ++ "->receiver")); wrap u64 (rho ("&frame->header.mgmt_" ++ w ++ ".addr1")); 6]);
   ("memcpy", [wrap u64 (rho ("&" ++ obj ++ "->transmitter")); wrap u64 (rho ("&frame->header.mgmt_" ++ w ++ ".addr2")); 6]);
   ("memcpy", [wrap u64 (rho ("&" ++ obj ++ "->bssid")); wrap u64 (rho ("&frame->header.mgmt_" ++ w ++ ".addr3")); 6])].
Definition hdr_copies (obj : string) (rho : env) (o : Z) : list event :=
  if o =? 0 then hdr3 obj rho "unordered" else hdr3 obj rho "ordered".

Definition parser_post (subtype FIXED : Z) (tl tp : string) (too_short : Z -> Z -> bool) (nm : names)
    (rho : env) (ty st o len hl b q : Z) (buf : list byte) (res : xresult) : Prop :=
  let n := len - hl - FIXED in
  let a1 := wrap s32 (rho "ret:libwifi_tag_iterator_init") in
  let a2 := wrap s32 (rho ("ret:" ++ n_tagparser nm)) in
  let t0 := [("memset", [wrap u64 (rho (n_obj nm)); 0; n_size nm])] in
  let t1 := (t0 ++ hdr_copies (n_obj nm) rho o)%list in
  let t2 := (t1 ++ [("malloc", [n])])%list in
  let t3 := (t2 ++ [("memcpy", [q; b + FIXED; n])] ++
             (if n_it_memset nm then [("memset", [wrap u64 (rho "&it"); 0; 32])] else []) ++
             [("libwifi_tag_iterator_init", [wrap u64 (rho "&it"); q; n])])%list in
  let t4 := (t3 ++ [(n_tagparser nm, [wrap u64 (rho (n_obj nm)); wrap u64 (rho "&it")])])%list in
  if negb (ty =? 0) || negb (st =? subtype) then observe res = Some (Some (-22), t0)
  else if too_short len hl then observe res = Some (Some (-22), t1)
  else if q =? 0 then observe res = Some (Some (-12), t2)
  else exists rho',
    res = Returned (Some (if a1 =? 0 then if a2 =? 0 then 0 else -22 else -22)) rho' (if a1 =? 0 then t4 else t3) /\
    rho' tl = n /\ rho' tp = q /\
    match n_cap nm with
    | Some off => rho' (n_obj nm ++ "->encryption_info") = (if Z.testbit (znth buf off + 256 * znth buf (off + 1)) 4 then 2 else 0)
    | None => True
    end.

(* ty, st, o: the values of the bit-fields frame_control.type, .subtype, .flags.ordered (2, 4 and 1 bits in an unsigned int;
   the routines convert type and subtype to int before comparing, so the range assumed is what an int holds - an added
   hypothesis, far wider than the bit-fields); q: what malloc answers; buf: the frame body.
   The memory is arbitrary for a routine that loads nothing, and exactly the frame body otherwise.
   [too_short len hl] is the length rule as the routine writes it; FIXED the size of the fixed parameters. *)
Definition parser_ok (body : list cstmt) (subtype FIXED : Z) (tl tp : string) (too_short : Z -> Z -> bool) (nm : names) : Prop :=
  forall rho ty st o len hl b q buf m,
    0 <= ty < 2 ^ 31 -> 0 <= st < 2 ^ 31 -> 0 <= o < 2 ^ 31 ->
    0 < b -> 0 <= hl <= len -> b + len < 2 ^ 62 -> 0 <= q < 2 ^ 62 -> rho "ret:malloc" = q ->
    wfbytes buf -> zlen buf = len - hl -> (n_cap nm <> None -> m = mem_at b buf) ->
    parser_post subtype FIXED tl tp too_short nm rho ty st o len hl b q buf
                (exec 100 m (frame_env rho ty st o len hl b) [] body).

(* small goals: a boolean is decided from the hypotheses; the conditional at the head of the goal; comparisons a hypothesis decides *)
Ltac bool_tac := repeat (progress (decide_bools; cbn [negb orb andb])); reflexivity.
Ltac head_if :=
  lazymatch goal with
  | |- (if ?c then _ else _) =>
      let H := fresh in
      first [ assert (H : c = true) by bool_tac | assert (H : c = false) by bool_tac ];
      rewrite H; clear H
  end.
Ltac eqb_hyps :=
  repeat match goal with
         | H : ?x = ?y |- context [?x =? ?y] => rewrite (eqb_true x y H)
         | H : ?x <> ?y |- context [?x =? ?y] => rewrite (eqb_false x y H)
         end.

(* the four outcomes of the common shape, from facts about the pieces of the result (so that the leaves of a run are closed on
   small goals: the value, the trace, three lookups in the final environment) *)
Section Post.
Variables (subtype FIXED : Z) (tl tp : string) (too_short : Z -> Z -> bool) (nm : names).
Variables (rho : env) (ty st o len hl b q : Z) (buf : list byte).
Variables (v : option Z) (rho' : env) (tr : list event).
Let post := parser_post subtype FIXED tl tp too_short nm rho ty st o len hl b q buf (Returned v rho' tr).
Let t0 : list event := [("memset", [wrap u64 (rho (n_obj nm)); 0; n_size nm])].

Lemma post_reject :
  ty <> 0 \/ st <> subtype -> v = Some (-22) -> tr = t0 -> post.
Proof.
  intros Hc -> ->. unfold post, parser_post. cbv zeta.
  destruct (Z.eqb_spec ty 0); destruct (Z.eqb_spec st subtype); cbn [negb orb]; try reflexivity. lia.
Qed.

Lemma post_short :
  ty = 0 -> st = subtype -> too_short len hl = true -> v = Some (-22) -> tr = (t0 ++ hdr_copies (n_obj nm) rho o)%list -> post.
Proof.
  intros -> -> Hs -> ->. unfold post, parser_post. cbv zeta.
  rewrite !Z.eqb_refl, Hs. reflexivity.
Qed.

Lemma post_nomem :
  ty = 0 -> st = subtype -> too_short len hl = false -> q = 0 -> v = Some (-12) ->
  tr = ((t0 ++ hdr_copies (n_obj nm) rho o) ++ [("malloc", [len - hl - FIXED])])%list -> post.
Proof.
  intros -> -> Hs -> -> ->. unfold post, parser_post. cbv zeta.
  rewrite !Z.eqb_refl, Hs. reflexivity.
Qed.

Lemma post_ok :
  ty = 0 -> st = subtype -> too_short len hl = false -> q <> 0 ->
  let n := len - hl - FIXED in
  let a1 := wrap s32 (rho "ret:libwifi_tag_iterator_init") in
  let a2 := wrap s32 (rho ("ret:" ++ n_tagparser nm)) in
  let t3 := (((t0 ++ hdr_copies (n_obj nm) rho o) ++ [("malloc", [n])]) ++ [("memcpy", [q; b + FIXED; n])] ++
             (if n_it_memset nm then [("memset", [wrap u64 (rho "&it"); 0; 32])] else []) ++
             [("libwifi_tag_iterator_init", [wrap u64 (rho "&it"); q; n])])%list in
  let t4 := (t3 ++ [(n_tagparser nm, [wrap u64 (rho (n_obj nm)); wrap u64 (rho "&it")])])%list in
  v = Some (if a1 =? 0 then if a2 =? 0 then 0 else -22 else -22) ->
  tr = (if a1 =? 0 then t4 else t3) ->
  rho' tl = n -> rho' tp = q ->
  match n_cap nm with
  | Some off => rho' (n_obj nm ++ "->encryption_info") = (if Z.testbit (znth buf off + 256 * znth buf (off + 1)) 4 then 2 else 0)
  | None => True
  end -> post.
Proof.
  intros -> -> Hs Hq n a1 a2 t3 t4 -> -> Htl Htp Hcap. unfold post, parser_post. cbv zeta.
  rewrite !Z.eqb_refl, Hs. cbn [negb orb]. destruct (Z.eqb_spec q 0); [contradiction | ].
  exists rho'. split; [reflexivity | ]. split; [exact Htl | ]. split; [exact Htp | exact Hcap].
Qed.
End Post.

Ltac names_red := cbv beta iota zeta delta [n_obj n_size n_tagparser n_it_memset n_cap String.append s32 u64].
Ltac trace_goal :=
  cbv beta iota zeta delta [hdr_copies]; names_red; eqb_hyps;
  cbv beta iota delta [hdr3 String.append app]; list_eq.
Ltac value_goal := names_red; eqb_hyps; cbv beta iota; reflexivity.
Ltac env_goal := names_red; env_simpl; first [ reflexivity | lia | exact I ].
Ltac cap_goal :=
  names_red; env_simpl;
  first [ exact I
        | repeat match goal with H : Z.testbit _ _ = _ |- _ => rewrite H end; reflexivity ].
Ltac rule_goal := cbv beta; bool_tac.

Ltac leaf :=
  cbv beta iota delta [kont];
  first [ apply post_reject; [ solve [auto] | reflexivity | solve [trace_goal] ]
        | apply post_short; [ assumption | assumption | solve [rule_goal] | reflexivity | solve [trace_goal] ]
        | apply post_nomem; [ assumption | assumption | solve [rule_goal] | assumption | reflexivity | solve [trace_goal] ]
        | apply post_ok; [ assumption | assumption | solve [rule_goal] | assumption
                         | solve [value_goal] | solve [trace_goal] | solve [env_goal] | solve [env_goal] | solve [cap_goal] ] ].

Ltac parser_tac body sub :=
  intros rho ty st o len hl b q buf m Hty Hst Ho Hb Hhl Hend Hq Eq Hwf Hzl Hm; nums;
  try (specialize (Hm ltac:(discriminate)); subst m);
  subst q;
  apply (wp_exec 60 100); [ lia | ];
  unfold body, frame_env;
  destruct (Z.eqb_spec ty 0); destruct (Z.eqb_spec st sub);
  repeat step; leaf.

Definition sta_names : names := {| n_obj := "sta"; n_size := 70; n_tagparser := "libwifi_sta_tag_parser"; n_it_memset := false; n_cap := None |}.
Definition bss_names (off : Z) : names :=
  {| n_obj := "bss"; n_size := 208; n_tagparser := "libwifi_bss_tag_parser"; n_it_memset := true; n_cap := Some off |}.

(* the rules as the routines write them *)
Definition rule_none (len hl : Z) : bool := false.
Definition rule_le (FIXED len hl : Z) : bool := len <=? hl + FIXED.
Definition rule_bss (FIXED len hl : Z) : bool := (len <=? hl + FIXED) || (len <? hl + FIXED + 2).

