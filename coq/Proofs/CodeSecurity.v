(* libwifi_get_rsn_info and libwifi_get_wpa_info AS TRANSLATED from parse/misc/security.c (Gen/Sites.v:
   body_libwifi_get_rsn_info / body_libwifi_get_wpa_info), run on an element body [buf] placed at address [start] with
   NOTHING else readable (mem_at start buf):
   - the run never gets stuck (no load outside the element, no signed overflow, no bad shift), returns 0 or -22, and every
     memcpy it issues reads inside the element (code_*_info_safe);
   - the value returned is the hand-written model's (Model/Security.v, get_rsn_info / get_wpa_info on rd_strict buf):
     0 exactly when the model is Done (Ok _), -22 exactly when it is Done (Err _), and the model never faults
     (code_*_info_return_refines_model).
   The proofs run the body in a weakest-precondition style ([wp], fuel-robust thanks to exec_fuel_le) so that the two copy
   loops (at most 6 turns each, the count is clamped) are handled by one lemma proved by induction on the turns left. *)
From Coq Require Import ZArith String List Bool Lia.
From LW Require Import Base.Bytes Base.CExpr Gen.Sites Proofs.SitesLemmas Proofs.CodeIter.
From LW Require Import Model.Security Spec.SecuritySpec.
Import ListNotations.
Local Open Scope string_scope.
Local Open Scope Z_scope.

(* ---------------------------------------------------------------- 1. a fuel-robust way to run a body
   [wp N m rho tr l Q]: with some fuel not above N the run of l does not run out of fuel and its outcome satisfies Q.
   By exec_fuel_le the same outcome is then obtained with any fuel >= N. *)
Definition wp (N : nat) (m : memory) (rho : env) (tr : list event) (l : list cstmt) (Q : xresult -> Prop) : Prop :=
  exists f, (f <= N)%nat /\ exec f m rho tr l <> NoFuel /\ Q (exec f m rho tr l).

(* what remains to be shown of the outcome of a nested block that is followed by r *)
Definition kont (N : nat) (m : memory) (r : list cstmt) (Q : xresult -> Prop) : xresult -> Prop :=
  fun o => match o with
           | Fell rho' tr' => wp N m rho' tr' r Q
           | NoFuel => False
           | o => Q o
           end.

Lemma wp_exec N F m rho tr l Q : (N <= F)%nat -> wp N m rho tr l Q -> Q (exec F m rho tr l).
Proof.
  intros Hle (f & Hf & Hn & HQ).
  rewrite (exec_fuel_le f F m rho tr l _ ltac:(lia) eq_refl Hn). exact HQ.
Qed.

Lemma wp_mono N N' m rho tr l Q : (N <= N')%nat -> wp N m rho tr l Q -> wp N' m rho tr l Q.
Proof. intros Hle (f & Hf & H). exists f. split; [lia | exact H]. Qed.

Lemma wp_set N m rho tr k x e r Q v :
  ceval rho m e = Some v -> wp N m (upd rho x v) tr r Q -> wp (S N) m rho tr (SSet k x e :: r) Q.
Proof.
  intros He (f & Hf & Hn & HQ). exists (S f). split; [lia | ].
  rewrite (exec_set f m rho tr k x e r v He). split; assumption.
Qed.

Lemma wp_call N m rho tr k g args r Q vs :
  evals rho m args = Some vs -> wp N m rho (tr ++ [(g, vs)]) r Q -> wp (S N) m rho tr (SCall k g args :: r) Q.
Proof.
  intros He (f & Hf & Hn & HQ). exists (S f). split; [lia | ].
  rewrite (exec_call f m rho tr k g args r vs He). split; assumption.
Qed.

(* after a callee may have written x: continue with any environment that agrees with the old one on the names x is not a
   prefix of *)
Lemma wp_clobber N m rho tr x r Q :
  (forall rho', (forall y, String.prefix x y = false -> rho' y = rho y) -> wp N m rho' tr r Q) ->
  wp (S N) m rho tr (SClobber x :: r) Q.
Proof.
  intros H. destruct (H (clobber rho (length tr) x)) as (f & Hf & Hn & HQ).
  - intros y Hy. unfold clobber. rewrite Hy. reflexivity.
  - exists (S f). split; [lia | ]. rewrite exec_clobber. split; assumption.
Qed.

(* memset(p, 0, sizeof *p): the names under the prefix read 0 afterwards; what the decoders need is only that every other name is kept *)
Lemma wp_zero N m rho tr x r Q :
  (forall rho', (forall y, String.prefix x y = false -> rho' y = rho y) -> wp N m rho' tr r Q) ->
  wp (S N) m rho tr (SZero x :: r) Q.
Proof.
  intros H. destruct (H (zeroed rho x)) as (f & Hf & Hn & HQ).
  - intros y Hy. unfold zeroed. rewrite Hy. reflexivity.
  - exists (S f). split; [lia | ]. rewrite exec_zero. split; assumption.
Qed.

Lemma wp_ret N m rho tr k e r (Q : xresult -> Prop) v :
  ceval rho m e = Some v -> Q (Returned (Some v) rho tr) -> wp (S N) m rho tr (SRet k (Some e) :: r) Q.
Proof.
  intros He HQ. exists 1%nat. split; [lia | ].
  rewrite (exec_ret 0 m rho tr k e r v He). split; [discriminate | exact HQ].
Qed.

Lemma wp_nil N m rho tr (Q : xresult -> Prop) : Q (Fell rho tr) -> wp (S N) m rho tr [] Q.
Proof. intros HQ. exists 1%nat. split; [lia | ]. cbn [exec]. split; [discriminate | exact HQ]. Qed.

Lemma wp_if N m rho tr k c a b r Q v :
  ceval rho m c = Some v ->
  wp N m rho tr (if negb (v =? 0) then a else b) (kont N m r Q) ->
  wp (S N) m rho tr (SIf k c a b :: r) Q.
Proof.
  intros Hc (f1 & Hf1 & Hn1 & HQ).
  destruct (exec f1 m rho tr (if negb (v =? 0) then a else b)) as [rho1 tr1 | v1 rho1 tr1 | rho1 tr1 | why | ] eqn:E;
    cbn [kont] in HQ.
  - destruct HQ as (f2 & Hf2 & Hn2 & HQ2).
    exists (S (Nat.max f1 f2)). split; [lia | ].
    cbn [exec]. rewrite Hc.
    rewrite (exec_fuel_le f1 (Nat.max f1 f2) _ _ _ _ _ (Nat.le_max_l _ _) E) by discriminate.
    rewrite (exec_fuel_le f2 (Nat.max f1 f2) _ _ _ _ _ (Nat.le_max_r _ _) eq_refl Hn2). split; assumption.
  - exists (S f1). split; [lia | ]. cbn [exec]. rewrite Hc, E. split; [discriminate | exact HQ].
  - exists (S f1). split; [lia | ]. cbn [exec]. rewrite Hc, E. split; [discriminate | exact HQ].
  - exists (S f1). split; [lia | ]. cbn [exec]. rewrite Hc, E. split; [discriminate | exact HQ].
  - contradiction.
Qed.

(* the two shapes the routines use: a guard that returns, a guard that is not taken *)
Lemma wp_if_ret N m rho tr k c k' e b r (Q : xresult -> Prop) v w :
  ceval rho m c = Some v -> v <> 0 -> ceval rho m e = Some w ->
  Q (Returned (Some w) rho tr) ->
  wp (S (S N)) m rho tr (SIf k c [SRet k' (Some e)] b :: r) Q.
Proof.
  intros Hc Hv He HQ. apply wp_if with (v := v); [exact Hc | ].
  destruct (Z.eqb_spec v 0); [contradiction | ]. cbn [negb].
  apply wp_ret with (v := w); [exact He | exact HQ].
Qed.

Lemma wp_if_skip N m rho tr k c a r Q :
  ceval rho m c = Some 0 -> wp (S N) m rho tr r Q -> wp (S (S N)) m rho tr (SIf k c a [] :: r) Q.
Proof.
  intros Hc H. apply wp_if with (v := 0); [exact Hc | ].
  change (negb (0 =? 0)) with false. cbv iota. apply wp_nil. exact H.
Qed.

Lemma wp_if_true N m rho tr k c a b r Q v :
  ceval rho m c = Some v -> v <> 0 -> wp N m rho tr a (kont N m r Q) -> wp (S N) m rho tr (SIf k c a b :: r) Q.
Proof.
  intros Hc Hv H. apply wp_if with (v := v); [exact Hc | ].
  destruct (Z.eqb_spec v 0); [contradiction | exact H].
Qed.

Lemma wp_loop_exit N m rho tr k c body step r Q :
  ceval rho m c = Some 0 -> wp N m rho tr r Q -> wp (S N) m rho tr (SLoop k true c body step :: r) Q.
Proof.
  intros Hc (f & Hf & Hn & HQ). exists (S f). split; [lia | ].
  rewrite (exec_loop_exit f m rho tr k c body step r Hc). split; assumption.
Qed.

Lemma wp_loop_enter N m rho tr k c body step r Q v :
  ceval rho m c = Some v -> v <> 0 ->
  wp N m rho tr body
     (fun o => match o with
               | Fell rho2 tr2 => wp N m rho2 tr2 step (kont N m (SLoop k true c body step :: r) Q)
               | Broke rho2 tr2 => wp N m rho2 tr2 r Q
               | NoFuel => False
               | o => Q o
               end) ->
  wp (S N) m rho tr (SLoop k true c body step :: r) Q.
Proof.
  intros Hc Hv (f1 & Hf1 & Hn1 & H1).
  destruct (exec f1 m rho tr body) as [rho2 tr2 | v2 rho2 tr2 | rho2 tr2 | why | ] eqn:E1.
  - destruct H1 as (f2 & Hf2 & Hn2 & H2).
    destruct (exec f2 m rho2 tr2 step) as [rho3 tr3 | v3 rho3 tr3 | rho3 tr3 | why | ] eqn:E2; cbn [kont] in H2.
    + destruct H2 as (f3 & Hf3 & Hn3 & H3).
      set (f := Nat.max f1 (Nat.max f2 f3)).
      exists (S f). split; [lia | ].
      rewrite (exec_loop_enter f m rho tr k c body step r v Hc Hv).
      rewrite (exec_fuel_le f1 f _ _ _ _ _ ltac:(lia) E1) by discriminate.
      rewrite (exec_fuel_le f2 f _ _ _ _ _ ltac:(lia) E2) by discriminate.
      rewrite (exec_fuel_le f3 f _ _ _ _ _ ltac:(lia) eq_refl Hn3). split; assumption.
    + set (f := Nat.max f1 f2). exists (S f). split; [lia | ].
      rewrite (exec_loop_enter f m rho tr k c body step r v Hc Hv).
      rewrite (exec_fuel_le f1 f _ _ _ _ _ ltac:(lia) E1) by discriminate.
      rewrite (exec_fuel_le f2 f _ _ _ _ _ ltac:(lia) E2) by discriminate. split; [discriminate | exact H2].
    + set (f := Nat.max f1 f2). exists (S f). split; [lia | ].
      rewrite (exec_loop_enter f m rho tr k c body step r v Hc Hv).
      rewrite (exec_fuel_le f1 f _ _ _ _ _ ltac:(lia) E1) by discriminate.
      rewrite (exec_fuel_le f2 f _ _ _ _ _ ltac:(lia) E2) by discriminate. split; [discriminate | exact H2].
    + set (f := Nat.max f1 f2). exists (S f). split; [lia | ].
      rewrite (exec_loop_enter f m rho tr k c body step r v Hc Hv).
      rewrite (exec_fuel_le f1 f _ _ _ _ _ ltac:(lia) E1) by discriminate.
      rewrite (exec_fuel_le f2 f _ _ _ _ _ ltac:(lia) E2) by discriminate. split; [discriminate | exact H2].
    + contradiction.
  - exists (S f1). split; [lia | ]. rewrite (exec_loop_enter f1 m rho tr k c body step r v Hc Hv), E1.
    split; [discriminate | exact H1].
  - destruct H1 as (f2 & Hf2 & Hn2 & H2).
    set (f := Nat.max f1 f2). exists (S f). split; [lia | ].
    rewrite (exec_loop_enter f m rho tr k c body step r v Hc Hv).
    rewrite (exec_fuel_le f1 f _ _ _ _ _ ltac:(lia) E1) by discriminate.
    rewrite (exec_fuel_le f2 f _ _ _ _ _ ltac:(lia) eq_refl Hn2). split; assumption.
  - exists (S f1). split; [lia | ]. rewrite (exec_loop_enter f1 m rho tr k c body step r v Hc Hv), E1.
    split; [discriminate | exact H1].
  - contradiction.
Qed.

(* ---------------------------------------------------------------- 2. the copies of a trace read inside the element *)
Definition ev_ok (start len : Z) (ev : event) : Prop :=
  match ev with
  | (f, [_; src; n]) => f = "memcpy" -> start <= src /\ src + n <= start + len
  | _ => True
  end.
Definition reads_ok (start len : Z) (tr : list event) : Prop := Forall (ev_ok start len) tr.

Lemma reads_ok_nil start len : reads_ok start len [].
Proof. constructor. Qed.
Lemma reads_ok_snoc start len tr ev : reads_ok start len tr -> ev_ok start len ev -> reads_ok start len (tr ++ [ev]).
Proof. intros H1 H2. apply Forall_app. split; [exact H1 | constructor; [exact H2 | constructor]]. Qed.
Lemma reads_ok_In start len tr dst src n :
  reads_ok start len tr -> In ("memcpy", [dst; src; n]) tr -> start <= src /\ src + n <= start + len.
Proof. intros H HIn. unfold reads_ok in H. rewrite Forall_forall in H. exact (H _ HIn eq_refl). Qed.

(* what the two theorems need of an outcome: a value was returned, it is the expected one, the copies read inside *)
Definition ret_post (start len expected : Z) (o : xresult) : Prop :=
  match o with
  | Returned (Some v) _ tr => v = expected /\ reads_ok start len tr
  | _ => False
  end.

(* ---------------------------------------------------------------- 3. reading the element *)
Lemma load_u8_off start buf p : 0 <= p < zlen buf ->
  load_le (mem_at start buf) (start + p) (Z.to_nat (8 / 8)) = Some (znth buf p).
Proof.
  intros Hp. change (Z.to_nat (8 / 8)) with 1%nat. cbn [load_le].
  rewrite mem_at_in by exact Hp. f_equal. lia.
Qed.

Lemma load_u16_off start buf p : 0 <= p -> p + 2 <= zlen buf ->
  load_le (mem_at start buf) (start + p) (Z.to_nat (16 / 8)) = Some (znth buf p + 256 * znth buf (p + 1)).
Proof.
  intros Hp Hl. change (Z.to_nat (16 / 8)) with 2%nat. cbn [load_le].
  rewrite mem_at_in by lia. replace (start + p + 1) with (start + (p + 1)) by lia.
  rewrite mem_at_in by lia. f_equal. lia.
Qed.

Lemma le16_znth buf p : 0 <= p -> p + 2 <= zlen buf -> le16 buf p = znth buf p + 256 * znth buf (p + 1).
Proof.
  intros Hp Hl. unfold le16, slice, zfirstn, zskipn.
  rewrite (skipn_cons_znth buf p) by lia. rewrite (skipn_cons_znth buf (p + 1)) by lia.
  change (Z.to_nat 2) with 2%nat. cbn [firstn le_dec]. lia.
Qed.

Lemma le16_range buf p : wfbytes buf -> 0 <= p -> p + 2 <= zlen buf -> 0 <= le16 buf p < 65536.
Proof.
  intros Hwf Hp Hl. rewrite le16_znth by assumption.
  pose proof (wfbytes_znth buf p Hwf ltac:(lia)). pose proof (wfbytes_znth buf (p + 1) Hwf ltac:(lia)). lia.
Qed.

Lemma lor_shl8 a b : 0 <= a < 256 -> 0 <= b -> Z.lor a (b * 2 ^ 8) = a + 256 * b.
Proof.
  intros Ha Hb. rewrite <- Z.shiftl_mul_pow2 by lia.
  assert (Hl : Z.land a (Z.shiftl b 8) = 0).
  { apply Z.bits_inj'. intros n Hn. rewrite Z.land_spec, Z.bits_0.
    destruct (Z_lt_le_dec n 8).
    - rewrite Z.shiftl_spec_low by lia. apply andb_false_r.
    - replace (Z.testbit a n) with false; [reflexivity | ]. symmetry.
      rewrite <- (Z.mod_small a (2 ^ 8)) by (change (2 ^ 8) with 256; lia). apply Z.mod_pow2_bits_high. lia. }
  rewrite <- Z.lxor_lor by exact Hl. rewrite <- Z.add_nocarry_lxor by exact Hl.
  rewrite Z.shiftl_mul_pow2 by lia. change (2 ^ 8) with 256. lia.
Qed.

(* the 16-bit count as the source reads it:  data[0] | (data[1] << 8)  (both octets promoted to int), narrowed to uint16_t *)
Definition count_expr : cexpr :=
  CCast (mkty false 16) (CCast (mkty false 16) (CBin OOr (mkty true 32)
    (CCast (mkty true 32) (CLoad (mkty false 8) (CBin OAdd s64 (CVar (mkty false 64) "data") (CCast s64 (CLit (mkty true 32) 0)))))
    (CBin OShl (mkty true 32)
       (CCast (mkty true 32) (CLoad (mkty false 8) (CBin OAdd s64 (CVar (mkty false 64) "data") (CCast s64 (CLit (mkty true 32) 1)))))
       (CLit (mkty true 32) 8)))).

Lemma ceval_count rho start buf p :
  wfbytes buf -> 0 < start -> start + zlen buf < 2 ^ 62 ->
  rho "data" = start + p -> 0 <= p -> p + 2 <= zlen buf ->
  ceval rho (mem_at start buf) count_expr = Some (le16 buf p).
Proof.
  intros Hwf Hs Hend Hd Hp Hl. change (2 ^ 62) with 4611686018427387904 in *.
  pose proof (wfbytes_znth buf p Hwf ltac:(lia)) as H0. pose proof (wfbytes_znth buf (p + 1) Hwf ltac:(lia)) as H1.
  rewrite le16_znth by assumption.
  unfold count_expr. ceval_unfold. rewrite Hd. wrap_ids. cbv beta iota.
  replace (start + p + 0) with (start + p) by lia. replace (start + p + 1) with (start + (p + 1)) by lia.
  rewrite !load_u8_off by lia. cbv beta iota. wrap_ids.
  change ((8 <? 0) || (32 <=? 8)) with false. cbn [orb].
  rewrite (ltb_false (znth buf (p + 1)) 0) by lia. cbv beta iota.
  rewrite lor_shl8 by lia. wrap_ids. reflexivity.
Qed.

(* ---------------------------------------------------------------- 4. the copy loop
   for (int i = 0; i < suite_count; ++i) { if (data > tag_end) return -EINVAL; cur = data; memcpy(&dst[i], cur, 4); data += 4; }
   The four loops of the two routines differ in their keys and in the destination only. *)
Definition copy_loop (k k1 k2 k3 k4 k5 k6 dst cl : string) : cstmt :=
  SLoop k true (CBin OLt (mkty true 32) (CVar (mkty true 32) "i") (CCast (mkty true 32) (CVar (mkty false 16) "suite_count")))
    [SIf k1 (CBin OGt (mkty true 32) (CVar (mkty false 64) "data") (CVar (mkty false 64) "tag_end"))
         [SRet k2 (Some (CUn UNeg (mkty true 32) (CLit (mkty true 32) 22)))] [];
     SSet k3 "cur_cipher_suite" (CCast (mkty false 64) (CVar (mkty false 64) "data"));
     SCall k4 "memcpy" [CVar u64 dst; CVar (mkty false 64) "cur_cipher_suite"; CLit u64 4];
     SClobber cl;
     SSet k5 "data" (CCast u64 (CBin OAdd s64 (CVar (mkty false 64) "data") (CCast s64 (CLit u64 4))))]
    [SSet k6 "i" (CCast (mkty true 32) (CBin OAdd (mkty true 32) (CCast (mkty true 32) (CVar (mkty true 32) "i")) (CLit (mkty true 32) 1)))].

Ltac upd_red := cbv beta iota delta [upd String.eqb Ascii.eqb Bool.eqb].

(* n turns left, i = c - n, data = d with the n suites still to copy inside the element: the loop copies them (every copy
   inside the element), and leaves tag_end and list_end alone *)
Lemma copy_loop_wp m start len k k1 k2 k3 k4 k5 k6 dst cl r Q :
  String.prefix cl "data" = false -> String.prefix cl "i" = false -> String.prefix cl "suite_count" = false ->
  String.prefix cl "tag_end" = false -> String.prefix cl "list_end" = false ->
  0 < start -> 0 <= len -> start + len < 2 ^ 62 ->
  forall n N rho tr i d c le,
    (7 <= N)%nat ->
    rho "i" = i -> rho "data" = d -> rho "suite_count" = c -> rho "tag_end" = start + len -> rho "list_end" = le ->
    0 <= i -> i + Z.of_nat n = c -> c <= 6 -> start <= d -> d + 4 * Z.of_nat n <= start + len ->
    reads_ok start len tr ->
    (forall rho' tr', reads_ok start len tr' -> rho' "tag_end" = start + len -> rho' "list_end" = le -> wp N m rho' tr' r Q) ->
    wp (S (n + N)) m rho tr (copy_loop k k1 k2 k3 k4 k5 k6 dst cl :: r) Q.
Proof.
  intros Pd Pi Pc Pt Pl Hs Hlen Hend. change (2 ^ 62) with 4611686018427387904 in *.
  induction n as [ | n IH]; intros N rho tr i d c le HN Hi Hd Hc Ht Hle Hi0 Hin Hc6 Hsd Hfit Htr Hk.
  - cbn [Nat.add]. unfold copy_loop. apply wp_loop_exit.
    + ceval_unfold. rewrite Hi, Hc. wrap_ids. decide_bools. reflexivity.
    + apply Hk; assumption.
  - cbn [Nat.add]. unfold copy_loop. eapply wp_loop_enter with (v := 1); [ | discriminate | ].
    + ceval_unfold. rewrite Hi, Hc. wrap_ids. decide_bools. reflexivity.
    + apply wp_mono with (N := 7%nat); [lia | ].
      apply wp_if_skip.
      { ceval_unfold. rewrite Hd, Ht. wrap_ids. decide_bools. reflexivity. }
      eapply wp_set.
      { ceval_unfold. rewrite Hd. wrap_ids. reflexivity. }
      eapply wp_call.
      { ceval_unfold. wrap_ids. reflexivity. }
      apply wp_clobber. intros rho1 Hfr.
      assert (E1 : rho1 "data" = d) by (rewrite Hfr by exact Pd; upd_red; exact Hd).
      eapply wp_set with (v := d + 4).
      { ceval_unfold. rewrite E1. wrap_ids. reflexivity. }
      apply wp_nil.
      apply wp_mono with (N := 2%nat); [lia | ].
      assert (E2 : rho1 "i" = i) by (rewrite Hfr by exact Pi; upd_red; exact Hi).
      eapply wp_set with (v := i + 1).
      { ceval_unfold. rewrite E2. wrap_ids. reflexivity. }
      apply wp_nil. cbn [kont].
      apply (IH N _ _ (i + 1) (d + 4) c le).
      * exact HN.
      * reflexivity.
      * reflexivity.
      * upd_red. rewrite Hfr by exact Pc. upd_red. exact Hc.
      * upd_red. rewrite Hfr by exact Pt. upd_red. exact Ht.
      * upd_red. rewrite Hfr by exact Pl. upd_red. exact Hle.
      * lia.
      * lia.
      * exact Hc6.
      * lia.
      * lia.
      * apply reads_ok_snoc; [exact Htr | ]. cbn [ev_ok]. intros _. lia.
      * exact Hk.
Qed.

Lemma load_u16_at start buf a : start <= a -> a + 2 <= start + zlen buf ->
  load_le (mem_at start buf) a (Z.to_nat (16 / 8)) = Some (znth buf (a - start) + 256 * znth buf (a - start + 1)).
Proof.
  intros H1 H2. replace a with (start + (a - start)) at 1 by lia. apply load_u16_off; lia.
Qed.

(* ---------------------------------------------------------------- 5. tactics to run a body
   The environment is kept as a few [upd]s over a variable about which the values of data, tag_end, suite_count, list_end
   and i are recorded as hypotheses ([track] folds the current environment into such a variable). *)
Ltac env_rw :=
  repeat match goal with
         | H : ?R ?s = _ |- context [?R ?s] => lazymatch type of s with string => rewrite H end
         end.
Ltac cev :=
  ceval_unfold; env_rw;
  repeat (progress (wrap_ids; decide_bools; cbv beta iota));
  try reflexivity.

Ltac track_name R nm :=
  let H := fresh "E" in
  eassert (H : R nm = _) by (unfold R; upd_red; first [eassumption | reflexivity]).
Ltac track :=
  match goal with
  | |- wp _ _ ?R0 _ _ _ =>
      let R := fresh "R" in
      set (R := R0);
      track_name R "data"; track_name R "tag_end"; track_name R "suite_count"; track_name R "list_end"; track_name R "i";
      clearbody R
  end.
Ltac track_clob_name R Hfr nm :=
  let H := fresh "E" in
  eassert (H : R nm = _) by (rewrite Hfr by reflexivity; upd_red; first [eassumption | reflexivity]).
Ltac wclobber :=
  apply wp_clobber;
  let R := fresh "R" in let Hfr := fresh "Hfr" in
  intros R Hfr;
  track_clob_name R Hfr "data"; track_clob_name R Hfr "tag_end"; track_clob_name R Hfr "suite_count";
  track_clob_name R Hfr "list_end"; track_clob_name R Hfr "i";
  clear Hfr.

Ltac wzero :=
  apply wp_zero;
  let R := fresh "Rz" in let Hfr := fresh "Hz" in
  intros R Hfr;
  track_clob_name R Hfr "tag_data"; track_clob_name R Hfr "tag_end";
  clear Hfr.

Ltac wcall := eapply wp_call; [cev | ].
Ltac wset val := eapply wp_set with (v := val); [cev; try (f_equal; lia) | ].
Ltac wskip := apply wp_if_skip; [cev | ].
Ltac wret := eapply wp_if_ret; [cev | try discriminate; try lia | cev | ].
Ltac reads_tac :=
  repeat (apply reads_ok_snoc; [ | cbn [ev_ok]; let Hf := fresh in intros Hf; try discriminate Hf; clear Hf; lia ]);
  first [assumption | apply reads_ok_nil].


(* if (suite_count > LIBWIFI_MAX_CIPHER_SUITES) suite_count = LIBWIFI_MAX_CIPHER_SUITES; *)
Lemma wp_clamp N m rho tr k k' r Q c :
  rho "suite_count" = c -> 0 <= c < 65536 ->
  (forall rho', rho' "suite_count" = Z.min c 6 -> (forall x, x <> "suite_count" -> rho' x = rho x) -> wp (S N) m rho' tr r Q) ->
  wp (S (S (S N))) m rho tr
     (SIf k (CBin OGt (mkty true 32) (CCast (mkty true 32) (CVar (mkty false 16) "suite_count")) (CLit (mkty true 32) 6))
          [SSet k' "suite_count" (CCast (mkty false 16) (CCast (mkty false 16) (CLit (mkty true 32) 6)))] [] :: r) Q.
Proof.
  intros Hc Hr H. destruct (Z_lt_le_dec 6 c) as [Hbig | Hsmall].
  - eapply wp_if_true with (v := 1); [cev | discriminate | ].
    eapply wp_set with (v := 6); [cev | ]. apply wp_nil. cbn [kont].
    apply wp_mono with (N := S N); [lia | ]. apply H.
    + upd_red. lia.
    + intros x Hx. unfold upd. destruct (String.eqb_spec x "suite_count"); [contradiction | reflexivity].
  - apply wp_if_skip; [cev | ]. apply wp_mono with (N := S N); [lia | ]. apply H; [lia | reflexivity].
Qed.

Ltac track_fr_name R Hfr nm :=
  let H := fresh "E" in
  eassert (H : R nm = _) by (rewrite Hfr by discriminate; upd_red; first [eassumption | reflexivity]).
Ltac wclamp cval :=
  eapply wp_clamp with (c := cval); [ upd_red; first [eassumption | reflexivity] | lia | ];
  let R := fresh "R" in let Hsc := fresh "E" in let Hfr := fresh "Hfr" in
  intros R Hsc Hfr;
  track_fr_name R Hfr "data"; track_fr_name R Hfr "tag_end"; track_fr_name R Hfr "list_end"; track_fr_name R Hfr "i";
  clear Hfr.

(* the offsets and counts of an element body: version (2), group suite (4), then at 6 the first count and list, then the second *)
Definition C1 (buf : list byte) : Z := le16 buf 6.
Definition P2 (buf : list byte) : Z := 6 + 2 + 4 * C1 buf.
Definition C2 (buf : list byte) : Z := le16 buf (P2 buf).
Definition P3 (buf : list byte) : Z := P2 buf + 2 + 4 * C2 buf.

Definition rsn_expected (buf : list byte) : Z := match s_rsn_decode buf with Some _ => 0 | None => -22 end.

Ltac fold_offsets buf :=
  change (le16 buf 6) with (C1 buf); change (6 + 2 + 4 * C1 buf) with (P2 buf);
  change (le16 buf (P2 buf)) with (C2 buf); change (P2 buf + 2 + 4 * C2 buf) with (P3 buf).
Ltac rsn_post buf :=
  split; [ unfold rsn_expected, s_rsn_decode, s_suite_list; cbv zeta; fold_offsets buf;
           repeat (progress (decide_bools; cbv beta iota; fold_offsets buf)); try reflexivity; try lia
         | reads_tac ].


(* one count-and-list block, from  if (data + 2 > tag_end) return -EINVAL;  to the assignment of the number of suites kept:
   data = start + pofs on entry; cnt is the count read there, pnext = pofs + 2 + 4 * cnt the offset behind the list *)
Ltac list_head buf start pofs cnt pnext post Hwf Hs Hend :=
  destruct (Z_lt_le_dec (zlen buf) (pofs + 2)) as [? | ?]; [ wret; cbn [ret_post]; post | ];
  wskip;
  pose proof (le16_range buf pofs Hwf ltac:(lia) ltac:(lia) : 0 <= cnt < 65536);
  eapply wp_set with (v := cnt);
  [ apply ceval_count with (p := pofs);
    [ exact Hwf | exact Hs | exact Hend | upd_red; first [eassumption | reflexivity] | lia | lia ] | ];
  wset (start + (pofs + 2));
  destruct (Z_lt_le_dec (zlen buf - (pofs + 2)) (cnt * 4)) as [? | ?]; [ wret; cbn [ret_post]; post | ];
  wskip;
  wset (start + pnext);
  wclamp cnt;
  (eapply wp_set; [cev | ]).

(* i = 0, the copy loop with N units of fuel left for what follows it *)
Ltac list_loop buf start pofs cnt pnext N Hs HL Hend :=
  wset 0; track;
  eapply (wp_mono (S (Z.to_nat (Z.min cnt 6) + N))); [lia | ];
  eapply copy_loop_wp with (i := 0) (d := start + (pofs + 2)) (c := Z.min cnt 6) (le := start + pnext)
                           (len := zlen buf) (start := start);
  [ reflexivity | reflexivity | reflexivity | reflexivity | reflexivity | exact Hs | exact HL | exact Hend
  | lia | eassumption | eassumption | eassumption | eassumption | eassumption | lia | lia | lia | lia | lia
  | reads_tac | ].

Lemma rsn_run buf start rho :
  wfbytes buf -> 0 < start -> start + zlen buf < 2 ^ 62 ->
  wp 300 (mem_at start buf) (upd (upd rho "tag_data" start) "tag_end" (start + zlen buf)) [] body_libwifi_get_rsn_info
     (ret_post start (zlen buf) (rsn_expected buf)).
Proof.
  intros Hwf Hs Hend. change (2 ^ 62) with 4611686018427387904 in *. pose proof (zlen_nonneg buf) as HL.
  pose proof (eq_refl : P2 buf = 6 + 2 + 4 * C1 buf) as HP2.
  pose proof (eq_refl : P3 buf = P2 buf + 2 + 4 * C2 buf) as HP3.
  unfold body_libwifi_get_rsn_info.
  wcall. wzero.
  destruct (Z_lt_le_dec (zlen buf) 6) as [Hlt6 | Hge6].
  { wret. cbn [ret_post]. rsn_post buf. }
  wskip. wset start. wcall.
  eapply wp_set; [ceval_unfold; wrap_ids; cbv beta iota; rewrite load_u16_at by lia; reflexivity | ].
  wset (start + 2). wcall. wclobber. wset (start + 6).
  destruct (Z.eq_dec (zlen buf) 6) as [Heq6 | Hne6].
  { wret. cbn [ret_post]. rsn_post buf. }
  wskip. wskip.
  list_head buf start 6 (C1 buf) (P2 buf) ltac:(rsn_post buf) Hwf Hs Hend.
  wset 0.
  list_loop buf start 6 (C1 buf) (P2 buf) 200%nat Hs HL Hend.
  intros R2 tr2 Htr2 Et2 El2.
  wset (start + P2 buf).
  destruct (Z.eq_dec (zlen buf) (P2 buf)) as [HeqP2 | HneP2].
  { wret. cbn [ret_post]. rsn_post buf. }
  wskip.
  list_head buf start (P2 buf) (C2 buf) (P3 buf) ltac:(rsn_post buf) Hwf Hs Hend.
  list_loop buf start (P2 buf) (C2 buf) (P3 buf) 100%nat Hs HL Hend.
  intros R5 tr5 Htr5 Et5 El5.
  wset (start + P3 buf).
  wskip.
  destruct (Z_lt_le_dec (zlen buf) (P3 buf + 2)) as [Hnocaps | Hcaps].
  - wskip. eapply wp_ret; [cev | ]. cbn [ret_post]. rsn_post buf.
  - eapply wp_if_true with (v := 1); [cev | discriminate | ].
    wcall.
    eapply wp_set; [ceval_unfold; wrap_ids; cbv beta iota; rewrite load_u16_at by lia; reflexivity | ].
    apply wp_nil. cbn [kont].
    eapply wp_ret; [cev | ]. cbn [ret_post]. rsn_post buf.
Qed.

(* the WPA element body behind the vendor header: same layout without the capabilities *)
Definition wpa_expected (b : list byte) : Z :=
  if zlen b <? 6 then -22 else
  if zlen b =? 6 then 0 else
  match s_suite_list b 6 with
  | None => -22
  | Some (_, o2) => if zlen b =? o2 then 0 else match s_suite_list b o2 with None => -22 | Some _ => 0 end
  end.

Ltac wpa_post buf :=
  split; [ unfold wpa_expected, s_suite_list; cbv zeta; fold_offsets buf;
           repeat (progress (decide_bools; cbv beta iota; fold_offsets buf)); try reflexivity; try lia
         | reads_tac ].

Lemma wpa_run buf start rho :
  wfbytes buf -> 0 < start -> start + zlen buf < 2 ^ 62 ->
  wp 300 (mem_at start buf) (upd (upd rho "tag_data" start) "tag_end" (start + zlen buf)) [] body_libwifi_get_wpa_info
     (ret_post start (zlen buf) (wpa_expected buf)).
Proof.
  intros Hwf Hs Hend. change (2 ^ 62) with 4611686018427387904 in *. pose proof (zlen_nonneg buf) as HL.
  pose proof (eq_refl : P2 buf = 6 + 2 + 4 * C1 buf) as HP2.
  pose proof (eq_refl : P3 buf = P2 buf + 2 + 4 * C2 buf) as HP3.
  unfold body_libwifi_get_wpa_info.
  wcall. wzero.
  destruct (Z_lt_le_dec (zlen buf) 6) as [Hlt6 | Hge6].
  { wret. cbn [ret_post]. wpa_post buf. }
  wskip. wset start. wcall.
  eapply wp_set; [ceval_unfold; wrap_ids; cbv beta iota; rewrite load_u16_at by lia; reflexivity | ].
  wset (start + 2). wcall. wclobber. wset (start + 6).
  destruct (Z.eq_dec (zlen buf) 6) as [Heq6 | Hne6].
  { wret. cbn [ret_post]. wpa_post buf. }
  wskip. wskip.
  list_head buf start 6 (C1 buf) (P2 buf) ltac:(wpa_post buf) Hwf Hs Hend.
  wset 0.
  list_loop buf start 6 (C1 buf) (P2 buf) 200%nat Hs HL Hend.
  intros R2 tr2 Htr2 Et2 El2.
  wset (start + P2 buf).
  destruct (Z.eq_dec (zlen buf) (P2 buf)) as [HeqP2 | HneP2].
  { wret. cbn [ret_post]. wpa_post buf. }
  wskip.
  list_head buf start (P2 buf) (C2 buf) (P3 buf) ltac:(wpa_post buf) Hwf Hs Hend.
  list_loop buf start (P2 buf) (C2 buf) (P3 buf) 100%nat Hs HL Hend.
  intros R5 tr5 Htr5 Et5 El5.
  eapply wp_ret; [cev | ]. cbn [ret_post]. wpa_post buf.
Qed.

(* ---------------------------------------------------------------- 6. the hand-written model on the same element
   (Proofs/SecurityProofs.v has the model equal to the byte-list specification on every agreeing read oracle) *)
From LW Require Import Proofs.SecurityProofs.

Lemma slice_whole {A} (l : list A) : slice 0 (zlen l) l = l.
Proof.
  unfold slice, zfirstn, zskipn, zlen. change (Z.to_nat 0) with 0%nat. cbn [skipn].
  rewrite Nat2Z.id. apply firstn_all.
Qed.

Lemma rsn_model buf : wfbytes buf ->
  get_rsn_info (rd_strict buf) 0 (zlen buf) =
    Done (match s_rsn_decode buf with Some i => Ok i | None => Err (-22) end).
Proof.
  intros Hwf.
  pose proof (rsn_decode_exact buf (rd_strict buf) 0 (zlen buf) Hwf (agrees_strict buf) ltac:(lia) (zlen_nonneg buf) ltac:(lia)) as H.
  rewrite slice_whole in H. exact H.
Qed.

Lemma wpa_model buf : wfbytes buf ->
  get_wpa_info (rd_strict buf) 0 (zlen buf) =
    Done (match s_wpa_decode_h 0 buf with Some i => Ok i | None => Err (-22) end).
Proof.
  intros Hwf.
  pose proof (wpa_decode_exact_h 0 buf (rd_strict buf) 0 (zlen buf) Hwf (agrees_strict buf) ltac:(lia) ltac:(lia)
                (zlen_nonneg buf) ltac:(lia)) as H.
  rewrite slice_whole in H. exact H.
Qed.

Lemma wpa_expected_spec buf : wpa_expected buf = match s_wpa_decode_h 0 buf with Some _ => 0 | None => -22 end.
Proof.
  unfold wpa_expected, s_wpa_decode_h. change (0 + 6) with 6.
  destruct (zlen buf <? 6); [reflexivity | ].
  destruct (zlen buf =? 6); [reflexivity | ].
  destruct (s_suite_list buf 6) as [[uc o2] | ]; [ | reflexivity].
  destruct (zlen buf =? o2); [reflexivity | ].
  destruct (s_suite_list buf o2) as [[ak o3] | ]; reflexivity.
Qed.

(* ---------------------------------------------------------------- 7. the theorems *)
Definition reads_inside (start len : Z) (tr : list event) : Prop :=
  forall dst src n, In ("memcpy", [dst; src; n]) tr -> start <= src /\ src + n <= start + len.

(* what a [wp] proof with ret_post gives about a run with 400 units of fuel *)
Lemma run_observe m rho body start len expected :
  wp 300 m rho [] body (ret_post start len expected) ->
  exists tr, observe (exec 400 m rho [] body) = Some (Some expected, tr) /\ reads_inside start len tr.
Proof.
  intros H. apply (wp_exec 300 400) in H; [ | repeat constructor].
  destruct (exec 400 m rho [] body) as [rho1 tr1 | [v1 | ] rho1 tr1 | rho1 tr1 | why | ]; cbn [ret_post] in H; try contradiction.
  destruct H as [Hv Htr]. subst v1. exists tr1. split; [reflexivity | ].
  intros dst src n HIn. exact (reads_ok_In _ _ _ _ _ _ Htr HIn).
Qed.

Theorem code_rsn_info_safe buf start rho :
  wfbytes buf -> 0 < start -> start + zlen buf < 2 ^ 62 ->
  let rho0 := upd (upd rho "tag_data" start) "tag_end" (start + zlen buf) in
  exists v tr,
    observe (exec 400 (mem_at start buf) rho0 [] body_libwifi_get_rsn_info) = Some (Some v, tr) /\
    (v = 0 \/ v = -22) /\
    (forall dst src n, In ("memcpy", [dst; src; n]) tr -> start <= src /\ src + n <= start + zlen buf).
Proof.
  intros Hwf Hs Hend rho0.
  destruct (run_observe _ _ _ _ _ _ (rsn_run buf start rho Hwf Hs Hend)) as (tr & Hobs & Htr).
  exists (rsn_expected buf), tr. split; [exact Hobs | ]. split; [ | exact Htr].
  unfold rsn_expected. destruct (s_rsn_decode buf); [left | right]; reflexivity.
Qed.

Theorem code_rsn_info_return_refines_model buf start rho :
  wfbytes buf -> 0 < start -> start + zlen buf < 2 ^ 62 ->
  let rho0 := upd (upd rho "tag_data" start) "tag_end" (start + zlen buf) in
  let model := get_rsn_info (rd_strict buf) 0 (zlen buf) in
  exists v tr,
    observe (exec 400 (mem_at start buf) rho0 [] body_libwifi_get_rsn_info) = Some (Some v, tr) /\
    (v = 0 <-> exists i, model = Done (Ok i)) /\
    (v = -22 <-> exists c, model = Done (Err c)) /\
    (forall c, model = Done (Err c) -> c = v) /\
    (exists o, model = Done o).
Proof.
  intros Hwf Hs Hend rho0 model.
  destruct (run_observe _ _ _ _ _ _ (rsn_run buf start rho Hwf Hs Hend)) as (tr & Hobs & Htr).
  exists (rsn_expected buf), tr. split; [exact Hobs | ].
  subst model. rewrite (rsn_model buf Hwf). unfold rsn_expected.
  destruct (s_rsn_decode buf) as [i | ].
  - split; [ | split; [ | split]].
    + split; [intros _; exists i; reflexivity | reflexivity].
    + split; [discriminate | intros (c & Hc); discriminate Hc].
    + intros c Hc. discriminate Hc.
    + eexists; reflexivity.
  - split; [ | split; [ | split]].
    + split; [discriminate | intros (i & Hi); discriminate Hi].
    + split; [intros _; eexists; reflexivity | reflexivity].
    + intros c Hc. injection Hc as Hc. symmetry. exact Hc.
    + eexists; reflexivity.
Qed.

Theorem code_wpa_info_safe buf start rho :
  wfbytes buf -> 0 < start -> start + zlen buf < 2 ^ 62 ->
  let rho0 := upd (upd rho "tag_data" start) "tag_end" (start + zlen buf) in
  exists v tr,
    observe (exec 400 (mem_at start buf) rho0 [] body_libwifi_get_wpa_info) = Some (Some v, tr) /\
    (v = 0 \/ v = -22) /\
    (forall dst src n, In ("memcpy", [dst; src; n]) tr -> start <= src /\ src + n <= start + zlen buf).
Proof.
  intros Hwf Hs Hend rho0.
  destruct (run_observe _ _ _ _ _ _ (wpa_run buf start rho Hwf Hs Hend)) as (tr & Hobs & Htr).
  exists (wpa_expected buf), tr. split; [exact Hobs | ]. split; [ | exact Htr].
  rewrite wpa_expected_spec. destruct (s_wpa_decode_h 0 buf); [left | right]; reflexivity.
Qed.

Theorem code_wpa_info_return_refines_model buf start rho :
  wfbytes buf -> 0 < start -> start + zlen buf < 2 ^ 62 ->
  let rho0 := upd (upd rho "tag_data" start) "tag_end" (start + zlen buf) in
  let model := get_wpa_info (rd_strict buf) 0 (zlen buf) in
  exists v tr,
    observe (exec 400 (mem_at start buf) rho0 [] body_libwifi_get_wpa_info) = Some (Some v, tr) /\
    (v = 0 <-> exists i, model = Done (Ok i)) /\
    (v = -22 <-> exists c, model = Done (Err c)) /\
    (forall c, model = Done (Err c) -> c = v) /\
    (exists o, model = Done o).
Proof.
  intros Hwf Hs Hend rho0 model.
  destruct (run_observe _ _ _ _ _ _ (wpa_run buf start rho Hwf Hs Hend)) as (tr & Hobs & Htr).
  exists (wpa_expected buf), tr. split; [exact Hobs | ].
  subst model. rewrite (wpa_model buf Hwf). rewrite wpa_expected_spec.
  destruct (s_wpa_decode_h 0 buf) as [i | ].
  - split; [ | split; [ | split]].
    + split; [intros _; exists i; reflexivity | reflexivity].
    + split; [discriminate | intros (c & Hc); discriminate Hc].
    + intros c Hc. discriminate Hc.
    + eexists; reflexivity.
  - split; [ | split; [ | split]].
    + split; [discriminate | intros (i & Hi); discriminate Hi].
    + split; [intros _; eexists; reflexivity | reflexivity].
    + intros c Hc. injection Hc as Hc. symmetry. exact Hc.
    + eexists; reflexivity.
Qed.

(* ---------------------------------------------------------------- 8. not vacuous
   version 1, group 00-0F-AC:4, one pairwise suite 00-0F-AC:4, one AKM 00-0F-AC:2, capabilities 0x000C *)
Definition rsn_sample : list byte := [1; 0; 0; 15; 172; 4; 1; 0; 0; 15; 172; 4; 1; 0; 0; 15; 172; 2; 12; 0].
Definition env0 : env := fun _ => 0.
Definition run_rsn (start : Z) (readable body : list byte) : option (option Z * list event) :=
  observe (exec 400 (mem_at start readable) (upd (upd env0 "tag_data" start) "tag_end" (start + zlen body)) []
                body_libwifi_get_rsn_info).
Definition run_wpa (start : Z) (readable body : list byte) : option (option Z * list event) :=
  observe (exec 400 (mem_at start readable) (upd (upd env0 "tag_data" start) "tag_end" (start + zlen body)) []
                body_libwifi_get_wpa_info).

Example code_rsn_info_sample :
  run_rsn 4096 rsn_sample rsn_sample =
    Some (Some 0, [("memset", [0; 0; 64]); ("memcpy", [0; 4096; 2]); ("memcpy", [0; 4098; 4]); ("memcpy", [0; 4104; 4]);
                   ("memcpy", [0; 4110; 4]); ("memcpy", [0; 4114; 2])])
  /\ (exists i, get_rsn_info (rd_strict rsn_sample) 0 (zlen rsn_sample) = Done (Ok i)).
Proof. split; [vm_compute; reflexivity | eexists; vm_compute; reflexivity]. Qed.

(* the element cut anywhere but behind the group suite, a list or the capabilities is refused *)
Example code_rsn_info_truncated :
  map (fun n => match run_rsn 4096 (firstn n rsn_sample) (firstn n rsn_sample) with Some (Some v, _) => v | _ => 1 end)
      (seq 0 21) = [-22; -22; -22; -22; -22; -22; 0; -22; -22; -22; -22; -22; 0; -22; -22; -22; -22; -22; 0; 0; 0].
Proof. vm_compute. reflexivity. Qed.

(* a count of 7 that fits: all 7 suites are skipped, 6 are copied *)
Example code_rsn_info_clamped :
  let body := ([1; 0; 0; 15; 172; 4; 7; 0] ++ concat (repeat [0; 15; 172; 4] 7))%list in
  match run_rsn 4096 body body with
  | Some (Some v, tr) => v = 0 /\ length (filter (fun ev => String.eqb (fst ev) "memcpy") tr) = 8%nat
  | _ => False
  end.
Proof. vm_compute. split; reflexivity. Qed.

(* the readable memory of the theorems is exactly the element: with the last octet the routine loads itself (capabilities,
   a count) unreadable the same run is stuck - the evaluator does notice a load outside - so "the run returns" does say that
   no load leaves the element; the octets only memcpy reads are covered by the statement about the trace *)
Example code_rsn_info_needs_whole_element :
  run_rsn 4096 (firstn 19 rsn_sample) rsn_sample = None /\ run_wpa 4096 (firstn 13 rsn_sample) (firstn 14 rsn_sample) = None.
Proof. split; vm_compute; reflexivity. Qed.

Example code_wpa_info_sample :
  let body := [1; 0; 0; 80; 242; 2; 1; 0; 0; 80; 242; 2; 1; 0; 0; 80; 242; 2] in
  run_wpa 4096 body body =
    Some (Some 0, [("memset", [0; 0; 58]); ("memcpy", [0; 4096; 2]); ("memcpy", [0; 4098; 4]); ("memcpy", [0; 4104; 4]);
                   ("memcpy", [0; 4110; 4])])
  /\ (exists i, get_wpa_info (rd_strict body) 0 (zlen body) = Done (Ok i))
  /\ run_wpa 4096 (firstn 17 body) (firstn 17 body) = Some (Some (-22), [("memset", [0; 0; 58]); ("memcpy", [0; 4096; 2]);
                                                                      ("memcpy", [0; 4098; 4]); ("memcpy", [0; 4104; 4])]).
Proof. split; [vm_compute; reflexivity | split; [eexists; vm_compute; reflexivity | vm_compute; reflexivity]]. Qed.

Print Assumptions code_rsn_info_safe.
Print Assumptions code_rsn_info_return_refines_model.
Print Assumptions code_wpa_info_safe.
Print Assumptions code_wpa_info_return_refines_model.
