(* Proofs for C03: the generators produce exactly the byte lists of Spec.GenSpec. *)
From Coq Require Import List ZArith Lia Bool ZifyBool.
From LW Require Import Base.Bytes Gen.Consts Gen.Layout Model.TagIter Spec.TagSpec Model.Tags
  Model.Frame Model.Gen Spec.GenSpec Proofs.TagsProofs Proofs.GenProofs1.
Import ListNotations.
Local Open Scope Z_scope.

(* restated verbatim from Properties_C03.v *)
Definition with_extras (g : gobj) (extras : list tag) : gobj :=
  fold_left (fun g e => g_add g (fst e) (snd e)) extras g.
Definition dumps_exactly (g : gobj) (bytes : list byte) : Prop :=
  g_length g = zlen bytes /\
  forall n, g_dump g n = if n <? zlen bytes then Err (- EINVAL) else Ok bytes.

(* ---------- header ---------- *)
Lemma fc_mgmt st : 0 <= st < 16 ->
  or_bytes (bf_bytes bf_libwifi_frame_ctrl__type c_TYPE_MANAGEMENT)
           (bf_bytes bf_libwifi_frame_ctrl__subtype st) = [st * 16; 0].
Proof.
  intros H.
  assert (C : st = 0 \/ st = 1 \/ st = 2 \/ st = 3 \/ st = 4 \/ st = 5 \/ st = 6 \/ st = 7 \/ st = 8 \/
              st = 9 \/ st = 10 \/ st = 11 \/ st = 12 \/ st = 13 \/ st = 14 \/ st = 15) by lia.
  repeat (destruct C as [C|C]; [subst st; vm_compute; reflexivity|]). subst st. vm_compute. reflexivity.
Qed.
Lemma fc_ctrl st : 0 <= st < 16 -> ctrl_fc st = [4 + st * 16; 0].
Proof.
  intros H. unfold ctrl_fc.
  assert (C : st = 0 \/ st = 1 \/ st = 2 \/ st = 3 \/ st = 4 \/ st = 5 \/ st = 6 \/ st = 7 \/ st = 8 \/
              st = 9 \/ st = 10 \/ st = 11 \/ st = 12 \/ st = 13 \/ st = 14 \/ st = 15) by lia.
  repeat (destruct C as [C|C]; [subst st; vm_compute; reflexivity|]). subst st. vm_compute. reflexivity.
Qed.

Lemma mac_len a : mac_ok a -> length a = 6%nat.
Proof. intros [H _]. apply zlen_length. exact H. Qed.

Lemma mgmt_header_ok st a1 a2 a3 : mac_ok a1 -> mac_ok a2 -> mac_ok a3 -> 0 <= st < 16 ->
  mgmt_header st a1 a2 a3 = s_mgmt_header st a1 a2 a3.
Proof.
  intros H1 H2 H3 Hs. apply mac_len in H1, H2, H3.
  unfold mgmt_header, s_mgmt_header, MGMT. cbv zeta. rewrite (fc_mgmt st Hs).
  generalize (st * 16). intros f0.
  explode a1 H1. explode a2 H2. explode a3 H3. reflexivity.
Qed.

Lemma zlen_mgmt_header st a1 a2 a3 : mac_ok a1 -> mac_ok a2 -> mac_ok a3 ->
  zlen (s_mgmt_header st a1 a2 a3) = 24.
Proof.
  intros H1 H2 H3. apply mac_len in H1, H2, H3. unfold s_mgmt_header, MGMT.
  explode a1 H1. explode a2 H2. explode a3 H3. reflexivity.
Qed.

(* ---------- tags ---------- *)
Lemma qa_enc s l n b : wf_tag (n, b) -> t_bytes s = enc l -> t_len s = zlen (enc l) ->
  t_bytes (fst (quick_add_tag s n b)) = enc (l ++ [(n, b)]) /\
  t_len (fst (quick_add_tag s n b)) = zlen (enc (l ++ [(n, b)])).
Proof.
  intros Hw Hb Hl. destruct (quick_add_enc s l n b Hw Hb Hl) as (s' & Q & Qb & Ql).
  rewrite Q. cbn [fst]. auto.
Qed.
Lemma st_enc s l n b : wf_tags l -> t_bytes s = enc l -> t_len s = zlen (enc l) -> wf_tag (n, b) ->
  t_bytes (tags_of (set_tag s n b)) = enc (spec_set l n b) /\
  t_len (tags_of (set_tag s n b)) = zlen (enc (spec_set l n b)).
Proof.
  intros Hwf Hb Hl Hw.
  destruct (set_tag_enc s l n b Hwf Hb Hl Hw) as (s' & S & B & L).
  rewrite S. cbn [tags_of]. auto.
Qed.

Lemma wf_ssid ssid : ssid_ok ssid -> wf_tag (c_TAG_SSID, ssid).
Proof. intros [H1 H2]. unfold wf_tag, c_TAG_SSID. cbn [fst snd]. repeat split; auto; lia. Qed.

Lemma ssid_chan_enc ssid ch : ssid_ok ssid -> u8 ch ->
  t_bytes (ssid_chan ssid ch) = enc [(T_SSID, ssid); (T_DS, [ch])] /\
  t_len (ssid_chan ssid ch) = zlen (enc [(T_SSID, ssid); (T_DS, [ch])]).
Proof.
  intros Hs Hc. unfold ssid_chan. cbv zeta.
  destruct (qa_enc tags_empty [] c_TAG_SSID ssid (wf_ssid ssid Hs) eq_refl eq_refl) as [B1 L1].
  exact (qa_enc _ _ c_TAG_DS_PARAMETER [ch] (wf_channel ch Hc) B1 L1).
Qed.
Lemma set_ssid_chan_enc ssid ch : ssid_ok ssid -> u8 ch ->
  t_bytes (set_ssid_chan ssid ch) = enc [(T_SSID, ssid); (T_DS, [ch])] /\
  t_len (set_ssid_chan ssid ch) = zlen (enc [(T_SSID, ssid); (T_DS, [ch])]).
Proof.
  intros Hs Hc. unfold set_ssid_chan, set_channel, set_ssid.
  destruct (st_enc tags_empty [] c_TAG_SSID ssid ltac:(constructor) eq_refl eq_refl (wf_ssid ssid Hs))
    as [B1 L1].
  assert (W1 : wf_tags (spec_set [] c_TAG_SSID ssid)).
  { constructor; [apply wf_ssid; exact Hs | constructor]. }
  exact (st_enc _ _ c_TAG_DS_PARAMETER [ch] W1 B1 L1 (wf_channel ch Hc)).
Qed.
Lemma chan_enc ch : u8 ch ->
  t_bytes (tags_of (set_channel tags_empty ch)) = enc [(T_DS, [ch])] /\
  t_len (tags_of (set_channel tags_empty ch)) = zlen (enc [(T_DS, [ch])]).
Proof.
  intros Hc. unfold set_channel.
  exact (st_enc tags_empty [] c_TAG_DS_PARAMETER [ch] ltac:(constructor) eq_refl eq_refl (wf_channel ch Hc)).
Qed.

Lemma with_extras_enc : forall extras g l, wf_tags extras ->
  t_bytes (g_tags g) = enc l -> t_len (g_tags g) = zlen (enc l) ->
  g_hdr (with_extras g extras) = g_hdr g /\ g_fixed (with_extras g extras) = g_fixed g /\
  t_bytes (g_tags (with_extras g extras)) = enc (l ++ extras) /\
  t_len (g_tags (with_extras g extras)) = zlen (enc (l ++ extras)).
Proof.
  induction extras as [|[n b] r IH]; intros g l Hw Hb Hl.
  - cbn [with_extras fold_left]. rewrite app_nil_r. auto.
  - inversion Hw as [|? ? Ht Hr]; subst.
    unfold with_extras. cbn [fold_left fst snd]. fold (with_extras (g_add g n b) r).
    destruct (qa_enc (g_tags g) l n b Ht Hb Hl) as [B1 L1].
    destruct (IH (g_add g n b) (l ++ [(n, b)]) Hr B1 L1) as (E1 & E2 & E3 & E4).
    rewrite <- app_assoc in E3, E4. cbn [app] in E3, E4.
    cbn [g_add mk g_hdr g_fixed] in E1, E2. auto.
Qed.

Lemma dumps_of g l extras bytes : wf_tags extras ->
  t_bytes (g_tags g) = enc l /\ t_len (g_tags g) = zlen (enc l) ->
  bytes = g_hdr g ++ g_fixed g ++ enc (l ++ extras) ->
  dumps_exactly (with_extras g extras) bytes.
Proof.
  intros Hw [Hb Hl] E.
  destruct (with_extras_enc extras g l Hw Hb Hl) as (E1 & E2 & E3 & E4).
  assert (L : g_length (with_extras g extras) = zlen bytes).
  { unfold g_length. rewrite E1, E2, E4, E. rewrite !zlen_app. lia. }
  split; [exact L|]. intros n. unfold g_dump. rewrite L, E1, E2, E3, <- E. reflexivity.
Qed.

(* le_enc n v (n a numeral) -> n fresh elements, everywhere in the goal *)
Ltac gen_le n v :=
  let l := fresh "l" in let E := fresh "E" in let H := fresh "H" in
  remember (le_enc n v) as l eqn:E;
  assert (H : length l = n) by (subst l; apply le_enc_length);
  clear E; explode l H.

(* ---------- the simple generators ---------- *)
Lemma deauth_exact : forall a1 a2 a3 reason extras,
  mac_ok a1 -> mac_ok a2 -> mac_ok a3 -> u16 reason -> wf_tags extras ->
  dumps_exactly (with_extras (create_deauth a1 a2 a3 reason) extras) (s_deauth a1 a2 a3 reason extras).
Proof.
  intros a1 a2 a3 reason extras H1 H2 H3 Hr Hw.
  apply (dumps_of _ [] extras); [exact Hw | split; reflexivity |].
  unfold create_deauth, mk, s_deauth. cbn [g_hdr g_fixed].
  rewrite mgmt_header_ok by (auto; unfold c_SUBTYPE_DEAUTH; lia).
  unfold le16b. gen_le 2%nat reason. reflexivity.
Qed.

Lemma disassoc_exact : forall a1 a2 a3 reason extras,
  mac_ok a1 -> mac_ok a2 -> mac_ok a3 -> u16 reason -> wf_tags extras ->
  dumps_exactly (with_extras (create_disassoc a1 a2 a3 reason) extras) (s_disassoc a1 a2 a3 reason extras).
Proof.
  intros a1 a2 a3 reason extras H1 H2 H3 Hr Hw.
  apply (dumps_of _ [] extras); [exact Hw | split; reflexivity |].
  unfold create_disassoc, mk, s_disassoc. cbn [g_hdr g_fixed].
  rewrite mgmt_header_ok by (auto; unfold c_SUBTYPE_DISASSOC; lia).
  unfold le16b. gen_le 2%nat reason. reflexivity.
Qed.

Lemma auth_exact : forall a1 a2 a3 algo seq status extras,
  mac_ok a1 -> mac_ok a2 -> mac_ok a3 -> u16 algo -> u16 seq -> u16 status -> wf_tags extras ->
  dumps_exactly (with_extras (create_auth a1 a2 a3 algo seq status) extras) (s_auth a1 a2 a3 algo seq status extras).
Proof.
  intros a1 a2 a3 algo seq status extras H1 H2 H3 Ha Hs Hst Hw.
  apply (dumps_of _ [] extras); [exact Hw | split; reflexivity |].
  unfold create_auth, mk, s_auth. cbn [g_hdr g_fixed].
  rewrite mgmt_header_ok by (auto; unfold c_SUBTYPE_AUTH; lia).
  unfold le16b. gen_le 2%nat algo. gen_le 2%nat seq. gen_le 2%nat status. reflexivity.
Qed.

Lemma probe_req_exact : forall a1 a2 a3 ssid ch extras,
  mac_ok a1 -> mac_ok a2 -> mac_ok a3 -> ssid_ok ssid -> u8 ch -> wf_tags extras ->
  dumps_exactly (with_extras (create_probe_req a1 a2 a3 ssid ch) extras) (s_probe_req a1 a2 a3 ssid ch extras).
Proof.
  intros a1 a2 a3 ssid ch extras H1 H2 H3 Hs Hc Hw.
  apply (dumps_of _ [(T_SSID, ssid); (T_DS, [ch])] extras);
    [exact Hw | exact (ssid_chan_enc ssid ch Hs Hc) |].
  unfold create_probe_req, mk, s_probe_req. cbn [g_hdr g_fixed].
  rewrite mgmt_header_ok by (auto; unfold c_SUBTYPE_PROBE_REQ; lia).
  reflexivity.
Qed.

(* ---------- generators with fixed parameters and initial tags ---------- *)
Lemma beacon_exact : forall a1 a2 a3 ssid ch now extras,
  mac_ok a1 -> mac_ok a2 -> mac_ok a3 -> ssid_ok ssid -> u8 ch -> 0 <= now < 2 ^ 64 -> wf_tags extras ->
  dumps_exactly (with_extras (create_beacon a1 a2 a3 ssid ch now) extras) (s_beacon a1 a2 a3 ssid ch now extras).
Proof.
  intros a1 a2 a3 ssid ch now extras H1 H2 H3 Hs Hc Hn Hw.
  apply (dumps_of _ [(T_SSID, ssid); (T_DS, [ch])] extras);
    [exact Hw | exact (set_ssid_chan_enc ssid ch Hs Hc) |].
  unfold create_beacon, mk, s_beacon. cbn [g_hdr g_fixed].
  rewrite mgmt_header_ok by (auto; unfold c_SUBTYPE_BEACON; lia).
  unfold le16b. gen_le 8%nat now. reflexivity.
Qed.

Lemma probe_resp_exact : forall a1 a2 a3 ssid ch now extras,
  mac_ok a1 -> mac_ok a2 -> mac_ok a3 -> ssid_ok ssid -> u8 ch -> 0 <= now < 2 ^ 64 -> wf_tags extras ->
  dumps_exactly (with_extras (create_probe_resp a1 a2 a3 ssid ch now) extras) (s_probe_resp a1 a2 a3 ssid ch now extras).
Proof.
  intros a1 a2 a3 ssid ch now extras H1 H2 H3 Hs Hc Hn Hw.
  apply (dumps_of _ [(T_SSID, ssid); (T_DS, [ch])] extras);
    [exact Hw | exact (set_ssid_chan_enc ssid ch Hs Hc) |].
  unfold create_probe_resp, mk, s_probe_resp. cbn [g_hdr g_fixed].
  rewrite mgmt_header_ok by (auto; unfold c_SUBTYPE_PROBE_RESP; lia).
  unfold le16b. gen_le 8%nat now. reflexivity.
Qed.

Lemma assoc_req_exact : forall a1 a2 a3 ssid ch extras,
  mac_ok a1 -> mac_ok a2 -> mac_ok a3 -> ssid_ok ssid -> u8 ch -> wf_tags extras ->
  dumps_exactly (with_extras (create_assoc_req a1 a2 a3 ssid ch) extras) (s_assoc_req a1 a2 a3 ssid ch extras).
Proof.
  intros a1 a2 a3 ssid ch extras H1 H2 H3 Hs Hc Hw.
  apply (dumps_of _ [(T_SSID, ssid); (T_DS, [ch])] extras);
    [exact Hw | exact (ssid_chan_enc ssid ch Hs Hc) |].
  unfold create_assoc_req, mk, s_assoc_req. cbn [g_hdr g_fixed].
  rewrite mgmt_header_ok by (auto; unfold c_SUBTYPE_ASSOC_REQ; lia).
  reflexivity.
Qed.

Lemma reassoc_req_exact : forall a1 a2 a3 ap ssid ch extras,
  mac_ok a1 -> mac_ok a2 -> mac_ok a3 -> mac_ok ap -> ssid_ok ssid -> u8 ch -> wf_tags extras ->
  dumps_exactly (with_extras (create_reassoc_req a1 a2 a3 ap ssid ch) extras) (s_reassoc_req a1 a2 a3 ap ssid ch extras).
Proof.
  intros a1 a2 a3 ap ssid ch extras H1 H2 H3 Hap Hs Hc Hw.
  apply (dumps_of _ [(T_SSID, ssid); (T_DS, [ch])] extras);
    [exact Hw | exact (ssid_chan_enc ssid ch Hs Hc) |].
  unfold create_reassoc_req, mk, s_reassoc_req. cbn [g_hdr g_fixed].
  rewrite mgmt_header_ok by (auto; unfold c_SUBTYPE_REASSOC_REQ; lia).
  apply mac_len in Hap. explode ap Hap. reflexivity.
Qed.

Lemma wf_rates : wf_tag (c_TAG_SUPP_RATES, c_LIBWIFI_DEFAULT_SUPP_RATES).
Proof.
  unfold wf_tag. cbn [fst snd]. split; [vm_compute; split; [discriminate | reflexivity]|].
  split; [vm_compute; discriminate|].
  apply wfbytesb_spec. vm_compute. reflexivity.
Qed.

Lemma assoc_resp_exact : forall a1 a2 a3 ch extras,
  mac_ok a1 -> mac_ok a2 -> mac_ok a3 -> u8 ch -> wf_tags extras ->
  dumps_exactly (with_extras (create_assoc_resp a1 a2 a3 ch) extras) (s_assoc_resp a1 a2 a3 ch extras).
Proof.
  intros a1 a2 a3 ch extras H1 H2 H3 Hc Hw.
  apply (dumps_of _ [(T_DS, [ch]); (T_RATES, DEFAULT_RATES)] extras); [exact Hw | |].
  - unfold create_assoc_resp, mk. cbv zeta. cbn [g_tags].
    destruct (chan_enc ch Hc) as [B1 L1].
    exact (qa_enc _ _ _ _ wf_rates B1 L1).
  - unfold create_assoc_resp, mk, s_assoc_resp. cbv zeta. cbn [g_hdr g_fixed].
    rewrite mgmt_header_ok by (auto; unfold c_SUBTYPE_ASSOC_RESP; lia).
    reflexivity.
Qed.

Lemma reassoc_resp_exact : forall a1 a2 a3 ch extras,
  mac_ok a1 -> mac_ok a2 -> mac_ok a3 -> u8 ch -> wf_tags extras ->
  dumps_exactly (with_extras (create_reassoc_resp a1 a2 a3 ch) extras) (s_reassoc_resp a1 a2 a3 ch extras).
Proof.
  intros a1 a2 a3 ch extras H1 H2 H3 Hc Hw.
  apply (dumps_of _ [(T_DS, [ch])] extras); [exact Hw | exact (chan_enc ch Hc) |].
  unfold create_reassoc_resp, mk, s_reassoc_resp. cbn [g_hdr g_fixed].
  rewrite mgmt_header_ok by (auto; unfold c_SUBTYPE_REASSOC_RESP; lia).
  reflexivity.
Qed.

(* ---------- timing advertisement ---------- *)
Lemma time_adv_el (cap : Z) (tv te tu : list byte) : u8 cap -> zlen tv = 10 -> zlen te = 5 -> zlen tu = 1 ->
  [cap mod 256] ++
    (if cap mod 256 =? 1 then zfirstn 10 tv ++ zfirstn 5 te
     else if cap mod 256 =? 2 then zfirstn 10 tv ++ zfirstn 5 te ++ zfirstn 1 tu else [])
  = s_time_adv_body cap tv te tu.
Proof.
  intros Hc H1 H2 H3. unfold u8 in Hc. unfold s_time_adv_body. rewrite Z.mod_small by lia.
  rewrite (zfirstn_all tv) by lia. rewrite (zfirstn_all te) by lia. rewrite (zfirstn_all tu) by lia.
  reflexivity.
Qed.
Lemma wf_time_adv cap tv te tu : u8 cap -> zlen tv = 10 -> wfbytes tv -> zlen te = 5 -> wfbytes te ->
  zlen tu = 1 -> wfbytes tu -> wf_tag (c_TAG_TIME_ADVERTISEMENT, s_time_adv_body cap tv te tu).
Proof.
  intros Hc H1 W1 H2 W2 H3 W3. unfold wf_tag, s_time_adv_body. cbn [fst snd].
  split; [unfold c_TAG_TIME_ADVERTISEMENT; lia|].
  split.
  - rewrite zlen_app. change (zlen [cap]) with 1.
    destruct (cap =? 1); [|destruct (cap =? 2)]; rewrite ?zlen_app, ?zlen_nil; lia.
  - apply wfbytes_app; [constructor; [exact Hc | constructor]|].
    destruct (cap =? 1); [|destruct (cap =? 2)]; repeat apply wfbytes_app; auto. constructor.
Qed.

Lemma timing_advert_exact : forall a1 a2 a3 cap tv te tu country max_reg max_tx tx_used noise now extras,
  mac_ok a1 -> mac_ok a2 -> mac_ok a3 -> u8 cap -> zlen tv = 10 -> wfbytes tv -> zlen te = 5 -> wfbytes te ->
  zlen tu = 1 -> wfbytes tu -> zlen country = 3 -> wfbytes country -> u16 max_reg -> u8 max_tx -> u8 tx_used -> u8 noise ->
  0 <= now < 2 ^ 64 -> wf_tags extras ->
  dumps_exactly (with_extras (create_timing_advert a1 a2 a3 cap tv te tu country max_reg max_tx tx_used noise now) extras)
                (s_timing_advert a1 a2 a3 cap tv te tu country max_reg max_tx tx_used noise now extras).
Proof.
  intros a1 a2 a3 cap tv te tu country max_reg max_tx tx_used noise now extras
         H1 H2 H3 Hc Lv Wv Le We Lu Wu Lc Wc Hmr Hmt Htu Hno Hn Hw.
  apply (dumps_of _ [(T_TIME_ADV, s_time_adv_body cap tv te tu)] extras); [exact Hw | |].
  - unfold create_timing_advert, mk. cbv zeta. cbn [g_tags].
    rewrite (time_adv_el cap tv te tu Hc Lv Le Lu).
    exact (qa_enc tags_empty [] _ _ (wf_time_adv cap tv te tu Hc Lv Wv Le We Lu Wu) eq_refl eq_refl).
  - unfold create_timing_advert, mk, s_timing_advert. cbv zeta. cbn [g_hdr g_fixed].
    rewrite mgmt_header_ok by (auto; unfold c_SUBTYPE_TIME_ADV; lia).
    unfold u8 in *. rewrite (Z.mod_small noise), (Z.mod_small tx_used), (Z.mod_small max_tx) by lia.
    apply (zlen_length country 3) in Lc. explode country Lc.
    unfold le16b. gen_le 8%nat now. gen_le 2%nat max_reg. reflexivity.
Qed.

(* ---------- action frames ---------- *)
Lemma action_fold : forall details a,
  a_detail_len a = zlen (a_detail a) -> zlen (a_detail a) + zlen (concat details) <= 255 ->
  let a' := fold_left (fun a d => fst (add_action_detail a d)) details a in
  a_hdr a' = a_hdr a /\ a_category a' = a_category a /\
  a_detail a' = a_detail a ++ concat details /\ a_detail_len a' = zlen (a_detail a').
Proof.
  induction details as [|d r IH]; intros a Hl Hb; cbv zeta.
  - cbn [fold_left concat]. rewrite app_nil_r. auto.
  - cbn [fold_left concat] in *. rewrite zlen_app in Hb.
    pose proof (zlen_nonneg d). pose proof (zlen_nonneg (concat r)). pose proof (zlen_nonneg (a_detail a)).
    unfold byte in *.
    destruct (zlen d =? 0) eqn:Ed.
    { assert (d = []) as -> by (destruct d as [|x d']; [reflexivity|]; rewrite zlen_cons in Ed; pose proof (zlen_nonneg d'); lia).
      assert (Ea : add_action_detail a [] = (a, a_detail_len a)) by reflexivity.
      unfold byte in Ea. rewrite Ea. cbn [fst app]. apply IH; [exact Hl|]. rewrite zlen_nil in Hb. lia. }
    assert (Ea : add_action_detail a d =
                 ({| a_hdr := a_hdr a; a_category := a_category a; a_detail := a_detail a ++ d;
                     a_detail_len := a_detail_len a + zlen d |}, a_detail_len a + zlen d)).
    { unfold add_action_detail. unfold byte in *. rewrite Ed.
      replace (255 <? a_detail_len a + zlen d) with false by (symmetry; apply Z.ltb_ge; lia). reflexivity. }
    unfold byte in Ea. rewrite Ea. cbn [fst].
    destruct (IH {| a_hdr := a_hdr a; a_category := a_category a; a_detail := a_detail a ++ d;
                    a_detail_len := a_detail_len a + zlen d |}) as (E1 & E2 & E3 & E4).
    + cbn [a_detail a_detail_len]. rewrite Hl, zlen_app. reflexivity.
    + cbn [a_detail]. rewrite zlen_app. lia.
    + cbn [a_detail a_hdr a_category] in E1, E2, E3.
      rewrite <- app_assoc in E3. auto.
Qed.

Lemma action_exact : forall noack a1 a2 a3 category details,
  mac_ok a1 -> mac_ok a2 -> mac_ok a3 -> u8 category -> Forall wfbytes details -> zlen (concat details) <= 255 ->
  let a := fold_left (fun a d => fst (add_action_detail a d)) details (create_action noack a1 a2 a3 category) in
  a_length a = zlen (s_action noack a1 a2 a3 category details) /\
  forall n, a_dump a n = if n <? zlen (s_action noack a1 a2 a3 category details) then Err (- EINVAL)
                         else Ok (s_action noack a1 a2 a3 category details).
Proof.
  intros noack a1 a2 a3 category details H1 H2 H3 Hc _ Hb. cbv zeta.
  destruct (action_fold details (create_action noack a1 a2 a3 category) eq_refl Hb) as (E1 & E2 & E3 & E4).
  cbn [create_action a_hdr a_category a_detail app] in E1, E2, E3.
  assert (Hh : mgmt_header (if noack then c_SUBTYPE_ACTION_NOACK else c_SUBTYPE_ACTION) a1 a2 a3 =
               s_mgmt_header (if noack then 14 else 13) a1 a2 a3).
  { destruct noack; apply mgmt_header_ok; auto; vm_compute; split; discriminate || reflexivity. }
  rewrite Hh in E1. unfold u8 in Hc. rewrite Z.mod_small in E2 by lia.
  set (a := fold_left _ _ _) in *.
  assert (L : a_length a = zlen (s_action noack a1 a2 a3 category details)).
  { unfold a_length, s_action. rewrite E1, E4, E3, !zlen_app. change (zlen [category]) with 1. lia. }
  split; [exact L|]. intros n. unfold a_dump. rewrite L. rewrite E4, (zfirstn_all (a_detail a)) by lia.
  rewrite E1, E2, E3. reflexivity.
Qed.

(* ---------- fixed-size images ---------- *)
Lemma images_exact : forall a1 a2 a3 duration, mac_ok a1 -> mac_ok a2 -> mac_ok a3 -> u16 duration ->
  create_atim a1 a2 a3 = s_atim a1 a2 a3 /\ create_rts a1 a2 duration = s_rts a1 a2 duration /\
  create_cts a1 duration = s_cts a1 duration.
Proof.
  intros a1 a2 a3 duration H1 H2 H3 Hd.
  split; [apply mgmt_header_ok; auto; vm_compute; split; discriminate || reflexivity|].
  apply mac_len in H1, H2.
  unfold create_rts, create_cts, s_rts, s_cts, CTRL.
  rewrite !fc_ctrl by (vm_compute; split; discriminate || reflexivity).
  unfold le16b. gen_le 2%nat duration. explode a1 H1. explode a2 H2.
  split; reflexivity.
Qed.
