(* Lemmas and tactics for evaluating the translated C expressions and statements (Base/CExpr.v) on symbolic inputs. *)
From Coq Require Import ZArith String List Bool Lia.
From LW Require Import Base.CExpr.
Import ListNotations.
Local Open Scope Z_scope.

Lemma wrap_unsigned_id t v : c_signed t = false -> 0 <= v < 2 ^ c_bits t -> wrap t v = v.
Proof. intros Hs Hr. unfold wrap, modulus. rewrite Hs. apply Z.mod_small; exact Hr. Qed.

Lemma wrap_u8_id v : 0 <= v < 256 -> wrap (mkty false 8) v = v.
Proof. intros; apply wrap_unsigned_id; [reflexivity | exact H]. Qed.
Lemma wrap_u16_id v : 0 <= v < 65536 -> wrap (mkty false 16) v = v.
Proof. intros; apply wrap_unsigned_id; [reflexivity | exact H]. Qed.
Lemma wrap_u32_id v : 0 <= v < 4294967296 -> wrap (mkty false 32) v = v.
Proof. intros; apply wrap_unsigned_id; [reflexivity | exact H]. Qed.
Lemma wrap_u64_id v : 0 <= v < 18446744073709551616 -> wrap (mkty false 64) v = v.
Proof. intros; apply wrap_unsigned_id; [reflexivity | exact H]. Qed.

Lemma wrap_signed_id t v : c_signed t = true -> 0 < c_bits t -> - 2 ^ (c_bits t - 1) <= v < 2 ^ (c_bits t - 1) -> wrap t v = v.
Proof.
  intros Hs Hb Hr. unfold wrap, modulus, tmax. rewrite Hs.
  assert (Hp : 2 ^ c_bits t = 2 * 2 ^ (c_bits t - 1)).
  { replace (c_bits t) with (Z.succ (c_bits t - 1)) at 1 by lia. rewrite Z.pow_succ_r by lia. reflexivity. }
  assert (0 < 2 ^ (c_bits t - 1)) by (apply Z.pow_pos_nonneg; lia).
  destruct (Z_lt_le_dec v 0).
  - replace (v mod 2 ^ c_bits t) with (v + 2 ^ c_bits t).
    + destruct (Z.leb_spec (v + 2 ^ c_bits t) (2 ^ (c_bits t - 1) - 1)); lia.
    + apply Z.mod_unique with (-1); lia.
  - rewrite Z.mod_small by lia. destruct (Z.leb_spec v (2 ^ (c_bits t - 1) - 1)); lia.
Qed.

Lemma wrap_s32_id v : -2147483648 <= v < 2147483648 -> wrap (mkty true 32) v = v.
Proof. intros; apply wrap_signed_id; [reflexivity | reflexivity | exact H]. Qed.
Lemma wrap_s64_id v : -9223372036854775808 <= v < 9223372036854775808 -> wrap (mkty true 64) v = v.
Proof. intros; apply wrap_signed_id; [reflexivity | reflexivity | exact H]. Qed.

Lemma arith_u64 v : 0 <= v < 18446744073709551616 -> arith (mkty false 64) v = Some v.
Proof. intros; unfold arith; cbn [c_signed]. unfold modulus; cbn [c_bits]. rewrite Z.mod_small by exact H. reflexivity. Qed.
Lemma arith_s64 v : -9223372036854775808 <= v < 9223372036854775808 -> arith (mkty true 64) v = Some v.
Proof. intros; unfold arith, in_range, tmin, tmax; cbn [c_signed c_bits].
  destruct (Z.leb_spec (- 2 ^ (64 - 1)) v); destruct (Z.leb_spec v (2 ^ (64 - 1) - 1)); cbn; try reflexivity; cbn in *; lia. Qed.
Lemma arith_s32 v : -2147483648 <= v < 2147483648 -> arith (mkty true 32) v = Some v.
Proof. intros; unfold arith, in_range, tmin, tmax; cbn [c_signed c_bits].
  destruct (Z.leb_spec (- 2 ^ (32 - 1)) v); destruct (Z.leb_spec v (2 ^ (32 - 1) - 1)); cbn; try reflexivity; cbn in *; lia. Qed.

(* -22 etc. converted to size_t *)
Lemma wrap_u64_neg v : 0 < v <= 18446744073709551616 -> wrap (mkty false 64) (- v) = 18446744073709551616 - v.
Proof. intros. unfold wrap, modulus; cbn [c_signed c_bits]. change (2 ^ 64) with 18446744073709551616.
  symmetry. apply (Z.mod_unique (- v) 18446744073709551616 (-1) (18446744073709551616 - v)); lia. Qed.

Ltac cexpr_step :=
  cbn [exec ceval evals binop b2z c_signed c_bits upd String.eqb Ascii.eqb Bool.eqb negb fst snd app site fsites].

(* ---------------------------------------------------------------- stepping [exec] one statement at a time
   ([exec] recurses on its fuel: normalising it under a condition that is not yet decided unfolds without bound) *)
Lemma exec_set f m rho tr k x e r v :
  ceval rho m e = Some v -> exec (S f) m rho tr (SSet k x e :: r) = exec f m (upd rho x v) tr r.
Proof. intros H. cbn [exec]. rewrite H. reflexivity. Qed.

Lemma exec_call f m rho tr k g args r vs :
  evals rho m args = Some vs -> exec (S f) m rho tr (SCall k g args :: r) = exec f m rho (tr ++ [(g, vs)]) r.
Proof. intros H. cbn [exec]. rewrite H. reflexivity. Qed.

Lemma exec_if_true f m rho tr k c a b r v :
  ceval rho m c = Some v -> v <> 0 ->
  exec (S f) m rho tr (SIf k c a b :: r) = match exec f m rho tr a with Fell rho' tr' => exec f m rho' tr' r | o => o end.
Proof. intros H Hv. cbn [exec]. rewrite H. destruct (Z.eqb_spec v 0); [contradiction | reflexivity]. Qed.

Lemma exec_if_false f m rho tr k c a b r :
  ceval rho m c = Some 0 ->
  exec (S f) m rho tr (SIf k c a b :: r) = match exec f m rho tr b with Fell rho' tr' => exec f m rho' tr' r | o => o end.
Proof. intros H. cbn [exec]. rewrite H. reflexivity. Qed.

Lemma exec_if_skip f m rho tr k c a r :
  ceval rho m c = Some 0 -> exec (S (S f)) m rho tr (SIf k c a [] :: r) = exec (S f) m rho tr r.
Proof. intros H. rewrite exec_if_false by exact H. reflexivity. Qed.

Lemma exec_if_b2z f m rho tr k c a r (b : bool) :
  ceval rho m c = Some (b2z b) ->
  exec (S (S f)) m rho tr (SIf k c a [] :: r) =
    if b then match exec (S f) m rho tr a with Fell rho' tr' => exec (S f) m rho' tr' r | o => o end
    else exec (S f) m rho tr r.
Proof.
  intros H. destruct b.
  - rewrite exec_if_true with (v := 1) by (exact H || discriminate). reflexivity.
  - apply exec_if_skip. exact H.
Qed.

Lemma exec_ret f m rho tr k e r v :
  ceval rho m e = Some v -> exec (S f) m rho tr (SRet k (Some e) :: r) = Returned (Some v) rho tr.
Proof. intros H. cbn [exec]. rewrite H. reflexivity. Qed.

Lemma exec_clobber f m rho tr x r :
  exec (S f) m rho tr (SClobber x :: r) = exec f m (clobber rho (length tr) x) tr r.
Proof. reflexivity. Qed.

(* an inlined call: the block's return value lands in x *)
Lemma exec_inline_ret f m rho tr x body r v rho' tr' :
  exec f m rho tr body = Returned (Some v) rho' tr' ->
  exec (S f) m rho tr (SInline x body :: r) = exec f m (upd rho' x v) tr' r.
Proof. intros H. cbn [exec]. rewrite H. reflexivity. Qed.

Lemma exec_zero f m rho tr x r :
  exec (S f) m rho tr (SZero x :: r) = exec f m (zeroed rho x) tr r.
Proof. reflexivity. Qed.

Lemma exec_nil f m rho tr : exec (S f) m rho tr [] = Fell rho tr.
Proof. reflexivity. Qed.

(* evaluation of a concrete expression under an environment built with [upd]: unfold the evaluator only, leave the
   integer operations, [wrap] and [arith] folded, then discharge the conversions by range *)
Ltac ceval_unfold :=
  cbv beta iota zeta delta [ceval evals binop b2z c_bits c_signed upd String.eqb Ascii.eqb Bool.eqb negb String.append u8 s8 u16 s16 u32 s32 u64 s64].

Ltac wrap_ids :=
  repeat match goal with
         | |- context [wrap (mkty false 8) ?v] => rewrite (wrap_u8_id v) by lia
         | |- context [wrap (mkty false 16) ?v] => rewrite (wrap_u16_id v) by lia
         | |- context [wrap (mkty false 32) ?v] => rewrite (wrap_u32_id v) by lia
         | |- context [wrap (mkty false 64) ?v] => rewrite (wrap_u64_id v) by lia
         | |- context [wrap (mkty false 64) (- ?v)] => rewrite (wrap_u64_neg v) by lia
         | |- context [wrap (mkty true 32) ?v] => rewrite (wrap_s32_id v) by lia
         | |- context [wrap (mkty true 64) ?v] => rewrite (wrap_s64_id v) by lia
         | |- context [arith (mkty false 64) ?v] => rewrite (arith_u64 v) by lia
         | |- context [arith (mkty true 64) ?v] => rewrite (arith_s64 v) by lia
         | |- context [arith (mkty true 32) ?v] => rewrite (arith_s32 v) by lia
         end.

(* run straight-line statements: each step needs the value of one expression *)
Ltac ceval_now := ceval_unfold; wrap_ids; reflexivity.
Ltac exec_steps :=
  repeat first [ erewrite exec_set by ceval_now
               | erewrite exec_call by ceval_now
               | erewrite exec_ret by ceval_now
               | erewrite exec_if_b2z by ceval_now ].


(* ---------------------------------------------------------------- additions used by Proofs/SitesProofs.v *)
Lemma arith_u32 v : 0 <= v < 4294967296 -> arith (mkty false 32) v = Some v.
Proof. intros; unfold arith; cbn [c_signed]. unfold modulus; cbn [c_bits]. rewrite Z.mod_small by exact H. reflexivity. Qed.

(* a conditional with both branches, the condition being a comparison *)
Lemma exec_if_gen f m rho tr k c a b r (bb : bool) :
  ceval rho m c = Some (b2z bb) ->
  exec (S f) m rho tr (SIf k c a b :: r) =
    match exec f m rho tr (if bb then a else b) with Fell rho' tr' => exec f m rho' tr' r | o => o end.
Proof.
  intros H. destruct bb.
  - rewrite exec_if_true with (v := 1) by (exact H || discriminate). reflexivity.
  - rewrite exec_if_false by exact H. reflexivity.
Qed.

(* deciding the comparisons left in a goal from the hypotheses *)
Lemma gtb_true a b : b < a -> (a >? b) = true.
Proof. intros. destruct (Z.gtb_spec a b); [reflexivity | lia]. Qed.
Lemma gtb_false a b : a <= b -> (a >? b) = false.
Proof. intros. destruct (Z.gtb_spec a b); [lia | reflexivity]. Qed.
Lemma geb_true a b : b <= a -> (a >=? b) = true.
Proof. intros. destruct (Z.geb_spec a b); [reflexivity | lia]. Qed.
Lemma geb_false a b : a < b -> (a >=? b) = false.
Proof. intros. destruct (Z.geb_spec a b); [lia | reflexivity]. Qed.
Lemma ltb_true a b : a < b -> (a <? b) = true.
Proof. intros. destruct (Z.ltb_spec a b); [reflexivity | lia]. Qed.
Lemma ltb_false a b : b <= a -> (a <? b) = false.
Proof. intros. destruct (Z.ltb_spec a b); [lia | reflexivity]. Qed.
Lemma leb_true a b : a <= b -> (a <=? b) = true.
Proof. intros. destruct (Z.leb_spec a b); [reflexivity | lia]. Qed.
Lemma leb_false a b : b < a -> (a <=? b) = false.
Proof. intros. destruct (Z.leb_spec a b); [lia | reflexivity]. Qed.
Lemma eqb_true a b : a = b -> (a =? b) = true.
Proof. intros. destruct (Z.eqb_spec a b); [reflexivity | lia]. Qed.
Lemma eqb_false a b : a <> b -> (a =? b) = false.
Proof. intros. destruct (Z.eqb_spec a b); [lia | reflexivity]. Qed.

Ltac decide_bools :=
  repeat match goal with
         | |- context [?a >? ?b] => first [ rewrite (gtb_true a b) by lia | rewrite (gtb_false a b) by lia ]
         | |- context [?a >=? ?b] => first [ rewrite (geb_true a b) by lia | rewrite (geb_false a b) by lia ]
         | |- context [?a <? ?b] => first [ rewrite (ltb_true a b) by lia | rewrite (ltb_false a b) by lia ]
         | |- context [?a <=? ?b] => first [ rewrite (leb_true a b) by lia | rewrite (leb_false a b) by lia ]
         | |- context [?a =? ?b] => first [ rewrite (eqb_true a b) by lia | rewrite (eqb_false a b) by lia ]
         end.

(* run a body whose conditionals are all decided by the hypotheses: one statement, then the comparison it exposed.
   [cbv beta iota] does not unfold [exec] (no delta): it only selects the decided branch and passes a finished
   branch's outcome on. *)
Ltac exec_step1 :=
  first [ erewrite exec_set by ceval_now
        | erewrite exec_call by ceval_now
        | erewrite exec_ret by ceval_now
        | rewrite exec_nil
        | erewrite exec_if_gen by ceval_now ].
Ltac exec_run := repeat (exec_step1; decide_bools; cbv beta iota).

(* the value of one site *)
Ltac site_unfold S :=
  unfold S;
  cbv beta iota zeta delta [site ceval evals binop b2z upd String.eqb Ascii.eqb Bool.eqb negb String.append
                            u8 s8 u16 s16 u32 s32 u64 s64].
Ltac site_now S := site_unfold S; wrap_ids; reflexivity.

(* equality of traces up to linear arithmetic on the arguments *)
Ltac list_eq :=
  repeat match goal with
         | |- @eq Z _ _ => lia
         | |- _ :: _ = _ :: _ => apply f_equal2
         | |- (_, _) = (_, _) => apply f_equal2
         | |- Some _ = Some _ => apply f_equal
         | |- _ => reflexivity
         end.

Lemma Returned_eq v v' rho rho' (tr tr' : list event) :
  v = v' -> rho = rho' -> tr = tr' -> Returned v rho tr = Returned v' rho' tr'.
Proof. intros; subst; reflexivity. Qed.

(* bitwise facts for the CRC step *)
Lemma land_1_odd x : Z.land x 1 = Z.b2z (Z.odd x).
Proof.
  change 1 with (Z.ones 1). rewrite Z.land_ones by lia. change (2 ^ 1) with 2.
  rewrite <- Z.bit0_mod, Z.bit0_odd. reflexivity.
Qed.

Lemma lxor_u32 a b : 0 <= a < 4294967296 -> 0 <= b < 4294967296 -> 0 <= Z.lxor a b < 4294967296.
Proof.
  intros Ha Hb. assert (H0 : 0 <= Z.lxor a b) by (apply Z.lxor_nonneg; lia).
  split; [exact H0 |].
  destruct (Z.eq_dec (Z.lxor a b) 0) as [E | E]; [lia |].
  change 4294967296 with (2 ^ 32). apply Z.log2_lt_pow2; [lia |].
  pose proof (Z.log2_lxor a b (proj1 Ha) (proj1 Hb)) as Hl.
  assert (La : Z.log2 a < 32).
  { destruct (Z.eq_dec a 0) as [-> | Na]; [cbn; lia |]. apply Z.log2_lt_pow2; [lia |]. change (2 ^ 32) with 4294967296. lia. }
  assert (Lb : Z.log2 b < 32).
  { destruct (Z.eq_dec b 0) as [-> | Nb]; [cbn; lia |]. apply Z.log2_lt_pow2; [lia |]. change (2 ^ 32) with 4294967296. lia. }
  lia.
Qed.

Lemma shiftr1_u32 x : 0 <= x < 4294967296 -> 0 <= Z.shiftr x 1 < 4294967296.
Proof.
  intros H. rewrite Z.shiftr_div_pow2 by lia. change (2 ^ 1) with 2.
  split; [apply Z.div_pos; lia | apply Z.div_lt_upper_bound; lia].
Qed.

Lemma lnot_u32 x : 0 <= x < 4294967296 -> wrap (mkty false 32) (Z.lnot x) = Z.lxor x 4294967295.
Proof.
  intros H. unfold wrap, modulus; cbn [c_signed c_bits]. change 4294967295 with (Z.ones 32).
  rewrite <- Z.land_ones by lia. apply Z.bits_inj'; intros i Hi.
  rewrite Z.land_spec, Z.lxor_spec, Z.lnot_spec by lia.
  destruct (Z_lt_le_dec i 32).
  - rewrite Z.ones_spec_low by lia. destruct (Z.testbit x i); reflexivity.
  - rewrite Z.ones_spec_high by lia. rewrite andb_false_r, xorb_false_r. symmetry.
    rewrite <- (Z.mod_small x (2 ^ 32)) by (change (2 ^ 32) with 4294967296; lia).
    apply Z.mod_pow2_bits_high; lia.
Qed.

(* loops: one unit of fuel per test of the condition; the body and the step run with what is left; a break in the body leaves
   the loop *)
Lemma exec_loop_enter f m rho tr k c body step r v :
  ceval rho m c = Some v -> v <> 0 ->
  exec (S f) m rho tr (SLoop k true c body step :: r) =
    match exec f m rho tr body with
    | Fell rho2 tr2 => match exec f m rho2 tr2 step with
                       | Fell rho3 tr3 => exec f m rho3 tr3 (SLoop k true c body step :: r)
                       | o => o end
    | Broke rho2 tr2 => exec f m rho2 tr2 r
    | o => o end.
Proof. intros H Hv. cbn [exec]. rewrite H. destruct (Z.eqb_spec v 0); [contradiction | reflexivity]. Qed.

Lemma exec_loop_exit f m rho tr k c body step r :
  ceval rho m c = Some 0 ->
  exec (S f) m rho tr (SLoop k true c body step :: r) = exec f m rho tr r.
Proof. intros H. cbn [exec]. rewrite H. reflexivity. Qed.

Lemma exec_loop_b2z f m rho tr k c body step r (b : bool) :
  ceval rho m c = Some (b2z b) ->
  exec (S f) m rho tr (SLoop k true c body step :: r) =
    if b then
      match exec f m rho tr body with
      | Fell rho2 tr2 => match exec f m rho2 tr2 step with
                         | Fell rho3 tr3 => exec f m rho3 tr3 (SLoop k true c body step :: r)
                         | o => o end
      | Broke rho2 tr2 => exec f m rho2 tr2 r
      | o => o end
    else exec f m rho tr r.
Proof.
  intros H. destruct b.
  - apply exec_loop_enter with (v := 1); [exact H | discriminate].
  - apply exec_loop_exit. exact H.
Qed.

(* do { body } while (c): the first pass does not test the condition *)
Lemma exec_loop_do f m rho tr k c body step r :
  exec (S f) m rho tr (SLoop k false c body step :: r) =
    match exec f m rho tr body with
    | Fell rho2 tr2 => match exec f m rho2 tr2 step with
                       | Fell rho3 tr3 => exec f m rho3 tr3 (SLoop k true c body step :: r)
                       | o => o end
    | Broke rho2 tr2 => exec f m rho2 tr2 r
    | o => o end.
Proof. reflexivity. Qed.

(* switch: the body of the case that carries the value (the default otherwise); break or the end of the body leaves it *)
Lemma exec_switch f m rho tr k e cases default r v :
  ceval rho m e = Some v ->
  exec (S f) m rho tr (SSwitch k e cases default :: r) =
    match exec f m rho tr (pick_case v cases default) with
    | Fell rho' tr' => exec f m rho' tr' r
    | Broke rho' tr' => exec f m rho' tr' r
    | o => o end.
Proof. intros H. cbn [exec]. rewrite H. reflexivity. Qed.

Lemma exec_break f m rho tr r : exec (S f) m rho tr (SBreak :: r) = Broke rho tr.
Proof. reflexivity. Qed.

(* more fuel does not change a run that did not run out of it *)
Lemma exec_fuel_mono : forall f m rho tr l o d,
  exec f m rho tr l = o -> o <> NoFuel -> exec (f + d) m rho tr l = o.
Proof.
  induction f as [ | f IH]; intros m rho tr l o d He Ho.
  - cbn [exec] in He. congruence.
  - change (S f + d)%nat with (S (f + d)). destruct l as [ | s r].
    + exact He.
    + destruct s as [k x e | k g args | k c a b | k pre c body step | k e | k e cases default | | x body | x | x | w]; cbn [exec] in He |- *.
      * destruct (ceval rho m e); [ apply IH; assumption | exact He ].
      * destruct (evals rho m args); [ apply IH; assumption | exact He ].
      * destruct (ceval rho m c) as [v | ]; [ | exact He ].
        destruct (exec f m rho tr (if negb (v =? 0) then a else b)) as [rho1 tr1 | v1 rho1 tr1 | rho1 tr1 | why | ] eqn:E;
          try (rewrite (IH _ _ _ _ _ d E) by discriminate);
          [ apply IH; assumption | exact He | exact He | exact He | congruence ].
      * assert (Hc : forall rho1 tr1,
                  match exec f m rho1 tr1 body with
                  | Fell rho2 tr2 => match exec f m rho2 tr2 step with
                                     | Fell rho3 tr3 => exec f m rho3 tr3 (SLoop k true c body step :: r)
                                     | o => o end
                  | Broke rho2 tr2 => exec f m rho2 tr2 r
                  | o => o end = o ->
                  match exec (f + d) m rho1 tr1 body with
                  | Fell rho2 tr2 => match exec (f + d) m rho2 tr2 step with
                                     | Fell rho3 tr3 => exec (f + d) m rho3 tr3 (SLoop k true c body step :: r)
                                     | o => o end
                  | Broke rho2 tr2 => exec (f + d) m rho2 tr2 r
                  | o => o end = o).
        { intros rho1 tr1 H1.
          destruct (exec f m rho1 tr1 body) as [rho2 tr2 | v2 rho2 tr2 | rho2 tr2 | why | ] eqn:E;
            try (rewrite (IH _ _ _ _ _ d E) by discriminate);
            [ | exact H1 | apply IH; assumption | exact H1 | congruence ].
          destruct (exec f m rho2 tr2 step) as [rho3 tr3 | v3 rho3 tr3 | rho3 tr3 | why | ] eqn:E';
            try (rewrite (IH _ _ _ _ _ d E') by discriminate);
            [ apply IH; assumption | exact H1 | exact H1 | exact H1 | congruence ]. }
        destruct pre.
        -- destruct (ceval rho m c) as [v | ]; [ | exact He ].
           destruct (negb (v =? 0)); [ apply Hc; exact He | apply IH; assumption ].
        -- apply Hc; exact He.
      * destruct e as [e | ]; [ destruct (ceval rho m e); exact He | exact He ].
      * destruct (ceval rho m e) as [v | ]; [ | exact He ].
        destruct (exec f m rho tr (pick_case v cases default)) as [rho1 tr1 | v1 rho1 tr1 | rho1 tr1 | why | ] eqn:E;
          try (rewrite (IH _ _ _ _ _ d E) by discriminate);
          [ apply IH; assumption | exact He | apply IH; assumption | exact He | congruence ].
      * exact He.
      * destruct (exec f m rho tr body) as [rho1 tr1 | [v1 | ] rho1 tr1 | rho1 tr1 | why | ] eqn:E;
          try (rewrite (IH _ _ _ _ _ d E) by discriminate);
          [ apply IH; assumption | apply IH; assumption | apply IH; assumption | exact He | exact He | congruence ].
      * apply IH; assumption.
      * apply IH; assumption.
      * exact He.
Qed.

Lemma exec_fuel_le f g m rho tr l o :
  (f <= g)%nat -> exec f m rho tr l = o -> o <> NoFuel -> exec g m rho tr l = o.
Proof. intros Hle He Ho. replace g with (f + (g - f))%nat by lia. apply exec_fuel_mono; assumption. Qed.

