(* Lemmas and tactics for evaluating the translated C expressions and statements (Base/CExpr.v) on symbolic inputs. *)
From Coq Require Import ZArith String List Bool Lia.
From LW Require Import Base.CExpr.
Import ListNotations.
Local Open Scope Z_scope.

Lemma wrap_unsigned_id t v : c_signed t = false -> 0 <= v < 2 ^ c_bits t -> wrap t v = v.
Proof. intros Hs Hr. unfold wrap, modulus. rewrite Hs. apply Z.mod_small; exact Hr. Qed.

Lemma wrap_u8_id v : 0 <= v < 256 -> wrap (mkty false 8) v = v.
Proof. intros; apply wrap_unsigned_id; [reflexivity | exact H]. Qed.
Lemma wrap_u16_id v : 0 <= v < 65536 -> wrap (mkty false 16) v = v.
Proof. intros; apply wrap_unsigned_id; [reflexivity | exact H]. Qed.
Lemma wrap_u32_id v : 0 <= v < 4294967296 -> wrap (mkty false 32) v = v.
Proof. intros; apply wrap_unsigned_id; [reflexivity | exact H]. Qed.
Lemma wrap_u64_id v : 0 <= v < 18446744073709551616 -> wrap (mkty false 64) v = v.
Proof. intros; apply wrap_unsigned_id; [reflexivity | exact H]. Qed.

Lemma wrap_signed_id t v : c_signed t = true -> 0 < c_bits t -> - 2 ^ (c_bits t - 1) <= v < 2 ^ (c_bits t - 1) -> wrap t v = v.
Proof.
  intros Hs Hb Hr. unfold wrap, modulus, tmax. rewrite Hs.
  assert (Hp : 2 ^ c_bits t = 2 * 2 ^ (c_bits t - 1)).
  { replace (c_bits t) with (Z.succ (c_bits t - 1)) at 1 by lia. rewrite Z.pow_succ_r by lia. reflexivity. }
  assert (0 < 2 ^ (c_bits t - 1)) by (apply Z.pow_pos_nonneg; lia).
  destruct (Z_lt_le_dec v 0).
  - replace (v mod 2 ^ c_bits t) with (v + 2 ^ c_bits t).
    + destruct (Z.leb_spec (v + 2 ^ c_bits t) (2 ^ (c_bits t - 1) - 1)); lia.
    + apply Z.mod_unique with (-1); lia.
  - rewrite Z.mod_small by lia. destruct (Z.leb_spec v (2 ^ (c_bits t - 1) - 1)); lia.
Qed.

Lemma wrap_s32_id v : -2147483648 <= v < 2147483648 -> wrap (mkty true 32) v = v.
Proof. intros; apply wrap_signed_id; [reflexivity | reflexivity | exact H]. Qed.
Lemma wrap_s64_id v : -9223372036854775808 <= v < 9223372036854775808 -> wrap (mkty true 64) v = v.
Proof. intros; apply wrap_signed_id; [reflexivity | reflexivity | exact H]. Qed.

Lemma arith_u64 v : 0 <= v < 18446744073709551616 -> arith (mkty false 64) v = Some v.
Proof. intros; unfold arith; cbn [c_signed]. unfold modulus; cbn [c_bits]. rewrite Z.mod_small by exact H. reflexivity. Qed.
Lemma arith_s64 v : -9223372036854775808 <= v < 9223372036854775808 -> arith (mkty true 64) v = Some v.
Proof. intros; unfold arith, in_range, tmin, tmax; cbn [c_signed c_bits].
  destruct (Z.leb_spec (- 2 ^ (64 - 1)) v); destruct (Z.leb_spec v (2 ^ (64 - 1) - 1)); cbn; try reflexivity; cbn in *; lia. Qed.
Lemma arith_s32 v : -2147483648 <= v < 2147483648 -> arith (mkty true 32) v = Some v.
Proof. intros; unfold arith, in_range, tmin, tmax; cbn [c_signed c_bits].
  destruct (Z.leb_spec (- 2 ^ (32 - 1)) v); destruct (Z.leb_spec v (2 ^ (32 - 1) - 1)); cbn; try reflexivity; cbn in *; lia. Qed.

(* -22 etc. converted to size_t *)
Lemma wrap_u64_neg v : 0 < v <= 18446744073709551616 -> wrap (mkty false 64) (- v) = 18446744073709551616 - v.
Proof. intros. unfold wrap, modulus; cbn [c_signed c_bits]. change (2 ^ 64) with 18446744073709551616.
  symmetry. apply (Z.mod_unique (- v) 18446744073709551616 (-1) (18446744073709551616 - v)); lia. Qed.

Ltac cexpr_step :=
  cbn [exec ceval evals binop b2z c_signed c_bits upd String.eqb Ascii.eqb Bool.eqb negb fst snd app site fsites].

(* ---------------------------------------------------------------- stepping [exec] one statement at a time
   ([exec] recurses on its fuel: normalising it under a condition that is not yet decided unfolds without bound) *)
Lemma exec_set f rho tr k x e r v :
  ceval rho e = Some v -> exec (S f) rho tr (SSet k x e :: r) = exec f (upd rho x v) tr r.
Proof. intros H. cbn [exec]. rewrite H. reflexivity. Qed.

Lemma exec_call f rho tr k g args r vs :
  evals rho args = Some vs -> exec (S f) rho tr (SCall k g args :: r) = exec f rho (tr ++ [(g, vs)]) r.
Proof. intros H. cbn [exec]. rewrite H. reflexivity. Qed.

Lemma exec_if_true f rho tr k c a b r v :
  ceval rho c = Some v -> v <> 0 ->
  exec (S f) rho tr (SIf k c a b :: r) = match exec f rho tr a with Fell rho' tr' => exec f rho' tr' r | o => o end.
Proof. intros H Hv. cbn [exec]. rewrite H. destruct (Z.eqb_spec v 0); [contradiction | reflexivity]. Qed.

Lemma exec_if_false f rho tr k c a b r :
  ceval rho c = Some 0 ->
  exec (S f) rho tr (SIf k c a b :: r) = match exec f rho tr b with Fell rho' tr' => exec f rho' tr' r | o => o end.
Proof. intros H. cbn [exec]. rewrite H. reflexivity. Qed.

Lemma exec_if_skip f rho tr k c a r :
  ceval rho c = Some 0 -> exec (S (S f)) rho tr (SIf k c a [] :: r) = exec (S f) rho tr r.
Proof. intros H. rewrite exec_if_false by exact H. reflexivity. Qed.

Lemma exec_if_b2z f rho tr k c a r (b : bool) :
  ceval rho c = Some (b2z b) ->
  exec (S (S f)) rho tr (SIf k c a [] :: r) =
    if b then match exec (S f) rho tr a with Fell rho' tr' => exec (S f) rho' tr' r | o => o end
    else exec (S f) rho tr r.
Proof.
  intros H. destruct b.
  - rewrite exec_if_true with (v := 1) by (exact H || discriminate). reflexivity.
  - apply exec_if_skip. exact H.
Qed.

Lemma exec_ret f rho tr k e r v :
  ceval rho e = Some v -> exec (S f) rho tr (SRet k (Some e) :: r) = Returned (Some v) rho tr.
Proof. intros H. cbn [exec]. rewrite H. reflexivity. Qed.

Lemma exec_nil f rho tr : exec (S f) rho tr [] = Fell rho tr.
Proof. reflexivity. Qed.

(* evaluation of a concrete expression under an environment built with [upd]: unfold the evaluator only, leave the
   integer operations, [wrap] and [arith] folded, then discharge the conversions by range *)
Ltac ceval_unfold :=
  cbv beta iota zeta delta [ceval evals binop b2z upd String.eqb Ascii.eqb Bool.eqb negb String.append u8 s8 u16 s16 u32 s32 u64 s64].

Ltac wrap_ids :=
  repeat match goal with
         | |- context [wrap (mkty false 8) ?v] => rewrite (wrap_u8_id v) by lia
         | |- context [wrap (mkty false 16) ?v] => rewrite (wrap_u16_id v) by lia
         | |- context [wrap (mkty false 32) ?v] => rewrite (wrap_u32_id v) by lia
         | |- context [wrap (mkty false 64) ?v] => rewrite (wrap_u64_id v) by lia
         | |- context [wrap (mkty false 64) (- ?v)] => rewrite (wrap_u64_neg v) by lia
         | |- context [wrap (mkty true 32) ?v] => rewrite (wrap_s32_id v) by lia
         | |- context [wrap (mkty true 64) ?v] => rewrite (wrap_s64_id v) by lia
         | |- context [arith (mkty false 64) ?v] => rewrite (arith_u64 v) by lia
         | |- context [arith (mkty true 64) ?v] => rewrite (arith_s64 v) by lia
         | |- context [arith (mkty true 32) ?v] => rewrite (arith_s32 v) by lia
         end.

(* run straight-line statements: each step needs the value of one expression *)
Ltac ceval_now := ceval_unfold; wrap_ids; reflexivity.
Ltac exec_steps :=
  repeat first [ erewrite exec_set by ceval_now
               | erewrite exec_call by ceval_now
               | erewrite exec_ret by ceval_now
               | erewrite exec_if_b2z by ceval_now ].

(* the copies of a trace, in order, fill [a, fin) without gap or overlap *)
Fixpoint writes_from (a : Z) (tr : list event) (fin : Z) : Prop :=
  match tr with
  | [] => a = fin
  | (f, [d; _; n]) :: r => f = "memcpy"%string /\ d = a /\ 0 <= n /\ writes_from (a + n) r fin
  | _ => False
  end.
