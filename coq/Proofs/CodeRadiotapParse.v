(* libwifi_parse_radiotap_info AS TRANSLATED from parse/misc/radiotap.c (Gen/Sites.v: body_libwifi_parse_radiotap_info).
   The iterator (ieee80211_radiotap_iterator_init / _next) is not part of this file: its answers are the unknowns
   rho "ret:ieee80211_radiotap_iterator_init" / "..._next", and the members of `it` after each call are the names SClobber gives.

   1. code_rtap_header_guards: on every frame (memory = exactly the frame) the part before the loop is never stuck;
      -22 after nothing but the memset when frame_len < 8 or the 16-bit it_len at octets 2,3 is < 8 or > 255; otherwise init is
      called with (&it, frame, (int) frame_len, 0), its non-zero answer is returned, and on answer 0 the loop is reached in
      rt_entry_env: info->length = it_len, every other info-> name 0, ret = skipped_antenna = 0 (rt_entry_env_facts), which is
      the Spec's initial accumulator (rt_entry_env_rel).
      FALSE as "the length handed to the iterator is zlen buf": it is (int) frame_len, i.e. -2^31 for a frame of 2^31 octets
      (code_rtap_header_guards_int_refuted; rt_init_call_small for frames below 2^31 octets).
   2. code_rtap_switch_field: one turn of the switch for EVERY int value k of it.this_arg_index, memory = exactly the rt_size k
      octets of the argument at it.this_arg: not stuck, outcome Fell (rt_turn_env k fb rho) (tr ++ rt_turn_calls k p fb rho).
      Case labels of the translated body: 3 2 5 11 6 1 31 14 15 19 10 22 16 17 (rt_labels_are); any other k changes and calls
      nothing.  rt_turn_env_frame: no name outside rt_assigned k changes.  chan_env_band / chan_env_center: band and center are
      the Spec's s_band_center.  code_rtap_switch_last_octet_needed (+ three named examples): with the last octet of the argument
      missing the turn is Stuck, for each of the 13 cases that read.
   3. code_rtap_switch_refines_spec / code_rtap_turn_refines_spec: for k <> 31 the turn maps environments related (info_rel) to
      a Spec record to environments related to Spec/RadiotapChainSpec.v's s_apply fb (info, seen) (k, 0);
      code_rtap_switch_refines_model: the same for Model/Radiotap.v's rt_field under the strict read oracle.
   4. code_rtap_loop_exit: a non-zero answer of next ends the loop and the routine returns 0 - not the iterator's code.

   What differs from the Spec / model, or is surprising:
   - case 31 (IEEE80211_RADIOTAP_EXT) exists in the code only (info->extended_flags = octet 0 of the argument, widened to
     32 bits): code_rtap_switch_ext_not_in_spec;
   - rate_raw, signal and tx_power are int8_t: the octet is stored as a SIGNED value (s8_of); no "derived rate" is computed here;
   - AS TRANSLATED the second and later DBM_ANTSIGNAL turns read nothing and only increment info->antenna_count
     (code_rtap_later_antsignal_reads_nothing), while the Spec/model record a signal per antenna: the statement storing the
     per-antenna entry (a struct assignment, not an integer lvalue) has no counterpart in body_..., so that read of *it.this_arg
     is not covered by "not stuck";
   - the ANTENNA case writes the lvalue named "info->antennas[info->antenna_count-1].antenna_number" (by its source text): only
     its value is related to the Spec (code_rtap_antenna_number), not which array element it is;
   - every call of _next reads the same unknown, so only "next answers non-zero" (4) is stated for the loop as a whole;
     code_rtap_demo runs the whole body on one frame by computation. *)
From Coq Require Import ZArith String Ascii List Bool Lia.
From LW Require Import Base.Bytes Base.CExpr Gen.Consts Gen.Sites Proofs.SitesLemmas Proofs.CodeIter Proofs.CodeSecurity.
From LW Require Import Model.Radiotap Spec.RadiotapSpec Spec.RadiotapChainSpec Proofs.RadiotapChainProofs.
Import ListNotations.
Local Open Scope string_scope.
Local Open Scope Z_scope.

Ltac nums :=
  change (2 ^ 64) with 18446744073709551616 in *; change (2 ^ 63) with 9223372036854775808 in *;
  change (2 ^ 62) with 4611686018427387904 in *;
  change (2 ^ 32) with 4294967296 in *; change (2 ^ 31) with 2147483648 in *.

(* ---------------------------------------------------------------- 0. the pieces of the translated body *)
Definition rt_pre : list cstmt := Eval cbv in firstn 11 body_libwifi_parse_radiotap_info.
Definition rt_tail : list cstmt := Eval cbv in skipn 11 body_libwifi_parse_radiotap_info.
Definition rt_switch : cstmt :=
  Eval cbv in match rt_tail with SLoop _ _ _ (s :: _) _ :: _ => s | _ => SBreak end.
Definition rt_cases : list (list Z * list cstmt) :=
  Eval cbv in match rt_switch with SSwitch _ _ cs _ => cs | _ => [] end.
Definition rt_after : list cstmt :=
  Eval cbv in match rt_tail with SLoop _ _ _ (_ :: r) _ :: _ => r | _ => [] end.
Definition rt_cond : cexpr := CUn ULNot (mkty true 32) (CVar (mkty true 32) "ret").
Definition rt_loop : cstmt := SLoop "loop#0" true rt_cond (rt_switch :: rt_after) [].
Definition rt_ret0 : cstmt := SRet "ret#3" (Some (CLit (mkty true 32) 0)).

Lemma rt_switch_shape : rt_switch = SSwitch "switch#0" (CVar (mkty true 32) "it.this_arg_index") rt_cases [].
Proof. reflexivity. Qed.
Lemma rt_tail_shape : rt_tail = [rt_loop; rt_ret0].
Proof. reflexivity. Qed.
Lemma rt_body_shape : body_libwifi_parse_radiotap_info = (rt_pre ++ [rt_loop; rt_ret0])%list.
Proof. reflexivity. Qed.

(* the field numbers the switch has a case for, read off the translated body *)
Definition rt_labels : list Z := Eval cbv in flat_map fst rt_cases.
Lemma rt_labels_are : rt_labels = [3; 2; 5; 11; 6; 1; 31; 14; 15; 19; 10; 22; 16; 17].
Proof. reflexivity. Qed.

(* ---------------------------------------------------------------- 1. loads from the field's bytes *)
Lemma load_le_at a b : forall n i, 0 <= i -> i + Z.of_nat n <= zlen b ->
  load_le (mem_at a b) (a + i) n = Some (le_dec (firstn n (skipn (Z.to_nat i) b))).
Proof.
  induction n as [ | n IH]; intros i Hi Hn; [reflexivity | ].
  cbn [load_le]. rewrite mem_at_in by lia.
  replace (a + i + 1) with (a + (i + 1)) by lia. rewrite IH by lia.
  rewrite (skipn_cons_znth b i) by lia. reflexivity.
Qed.

Lemma ld8_at a b j : 0 <= j -> j + 1 <= zlen b ->
  load_le (mem_at a b) (a + j) (Z.to_nat (8 / 8)) = Some (znth b j).
Proof. intros. apply load_u8_off. lia. Qed.
Lemma ld8_0 a b : 1 <= zlen b -> load_le (mem_at a b) a (Z.to_nat (8 / 8)) = Some (znth b 0).
Proof. intros. replace a with (a + 0) at 2 by lia. apply ld8_at; lia. Qed.
Lemma ld16_at a b j : 0 <= j -> j + 2 <= zlen b ->
  load_le (mem_at a b) (a + j) (Z.to_nat (16 / 8)) = Some (le16 b j).
Proof. intros. rewrite load_u16_off by lia. rewrite le16_znth by lia. reflexivity. Qed.
Lemma ld16_0 a b : 2 <= zlen b -> load_le (mem_at a b) a (Z.to_nat (16 / 8)) = Some (le16 b 0).
Proof. intros. replace a with (a + 0) at 2 by lia. apply ld16_at; lia. Qed.
Lemma ld64_0 a b : 8 <= zlen b -> load_le (mem_at a b) a (Z.to_nat (64 / 8)) = Some (le64 b 0).
Proof.
  intros. replace a with (a + 0) at 2 by lia. change (Z.to_nat (64 / 8)) with 8%nat.
  rewrite load_le_at by (cbn; lia). reflexivity.
Qed.

Lemma le64_range b : wfbytes b -> 0 <= le64 b 0 < 18446744073709551616.
Proof.
  intros Hwf. unfold le64, slice, zfirstn, zskipn.
  assert (Hw : wfbytes (firstn (Z.to_nat 8) (skipn (Z.to_nat 0) b))) by (apply wfbytes_firstn, wfbytes_skipn, Hwf).
  pose proof (le_dec_bound _ Hw) as Hb.
  assert (Hl : zlen (firstn (Z.to_nat 8) (skipn (Z.to_nat 0) b)) <= 8).
  { unfold zlen. rewrite firstn_length. lia. }
  pose proof (zlen_nonneg (firstn (Z.to_nat 8) (skipn (Z.to_nat 0) b))) as Hn.
  assert (256 ^ zlen (firstn (Z.to_nat 8) (skipn (Z.to_nat 0) b)) <= 256 ^ 8) by (apply Z.pow_le_mono_r; lia).
  change (256 ^ 8) with 18446744073709551616 in *. lia.
Qed.

Lemma wrap_u8_range v : 0 <= wrap (mkty false 8) v < 256.
Proof. unfold wrap, modulus; cbn [c_signed c_bits]. apply Z.mod_pos_bound. reflexivity. Qed.
Lemma wrap_s32_range v : -2147483648 <= wrap (mkty true 32) v < 2147483648.
Proof.
  unfold wrap, modulus, tmax; cbn [c_signed c_bits].
  pose proof (Z.mod_pos_bound v (2 ^ 32) ltac:(reflexivity)) as H. nums.
  change (2 ^ (32 - 1) - 1) with 2147483647.
  destruct (Z.leb_spec (v mod 4294967296) 2147483647); lia.
Qed.

(* a signed octet, as the conversion to int8_t gives it *)
Definition s8_of (b : Z) : Z := if b <? 128 then b else b - 256.
Lemma wrap_s8_octet b : 0 <= b < 256 -> wrap (mkty true 8) b = s8_of b.
Proof.
  intros H. unfold wrap, modulus, tmax, s8_of; cbn [c_signed c_bits].
  change (2 ^ 8) with 256. change (2 ^ (8 - 1) - 1) with 127. rewrite Z.mod_small by lia.
  destruct (Z.leb_spec b 127); destruct (Z.ltb_spec b 128); lia.
Qed.
Lemma s8_of_range b : 0 <= b < 256 -> -128 <= s8_of b < 128.
Proof. intros H. unfold s8_of. destruct (Z.ltb_spec b 128); lia. Qed.
Lemma wrap_s8_id v : -128 <= v < 128 -> wrap (mkty true 8) v = v.
Proof. intros; apply wrap_signed_id; [reflexivity | reflexivity | exact H]. Qed.
Lemma s8_of_mod b : 0 <= b < 256 -> s8_of b mod 256 = b.
Proof.
  intros H. unfold s8_of. destruct (Z.ltb_spec b 128).
  - apply Z.mod_small; lia.
  - symmetry. apply (Z.mod_unique (b - 256) 256 (-1) b); lia.
Qed.

Lemma lor_u8 a b : 0 <= a < 256 -> 0 <= b < 256 -> 0 <= Z.lor a b < 256.
Proof.
  intros Ha Hb. assert (H0 : 0 <= Z.lor a b) by (apply Z.lor_nonneg; lia).
  split; [exact H0 | ].
  destruct (Z.eq_dec (Z.lor a b) 0) as [E | E]; [lia | ].
  change 256 with (2 ^ 8). apply Z.log2_lt_pow2; [lia | ].
  rewrite Z.log2_lor by lia.
  assert (La : Z.log2 a < 8).
  { destruct (Z.eq_dec a 0) as [-> | Na]; [cbn; lia | ]. apply Z.log2_lt_pow2; [lia | ]. change (2 ^ 8) with 256. lia. }
  assert (Lb : Z.log2 b < 8).
  { destruct (Z.eq_dec b 0) as [-> | Nb]; [cbn; lia | ]. apply Z.log2_lt_pow2; [lia | ]. change (2 ^ 8) with 256. lia. }
  lia.
Qed.

(* ---------------------------------------------------------------- 2. one turn of the switch *)
Lemma exec_one_switch F m rho tr k :
  wrap (mkty true 32) (rho "it.this_arg_index") = k ->
  exec (S F) m rho tr [rt_switch] =
    match exec F m rho tr (pick_case k rt_cases []) with
    | Fell rho' tr' => exec F m rho' tr' []
    | Broke rho' tr' => exec F m rho' tr' []
    | o => o end.
Proof. intros H. rewrite rt_switch_shape. apply exec_switch. cbn [ceval]. rewrite H. reflexivity. Qed.

(* CHANNEL: what the body computes from the frequency; band0 = the band bits already there *)
Definition chan_env (rho : env) (freq flags : Z) : env :=
  let rho1 := upd (upd rho "info->channel.freq" freq) "info->channel.flags" flags in
  let band0 := wrap (mkty false 8) (rho "info->channel.band") in
  if (2412 <=? freq) && (freq <=? 2484) then
    upd (upd rho1 "info->channel.band" (Z.lor band0 1)) "info->channel.center" (if freq =? 2484 then 14 else (freq - 2407) / 5)
  else if (5160 <=? freq) && (freq <=? 5885) then
    upd (upd rho1 "info->channel.band" (Z.lor band0 2)) "info->channel.center" ((freq - 5000) / 5)
  else if (5955 <=? freq) && (freq <=? 7115) then
    upd (upd rho1 "info->channel.band" (Z.lor band0 4)) "info->channel.center" ((freq - 5950) / 5)
  else rho1.

(* DBM_ANTSIGNAL: the first one is the frame's signal (a signed octet); every later one only counts an antenna, up to 16.
   AS TRANSLATED the later ones read nothing and store nothing but the count (see the head of this file). *)
Definition antsig_env (rho : env) (b : Z) : env :=
  if wrap (mkty true 32) (rho "skipped_antenna") =? 0 then
    upd (upd rho "info->signal" (s8_of b)) "skipped_antenna" 1
  else
    let c := wrap (mkty false 8) (rho "info->antenna_count") in
    if c <? 16 then upd rho "info->antenna_count" (c + 1) else rho.

(* ANTENNA: the number of the antenna counted last, when one was counted *)
Definition antenna_env (rho : env) (b : Z) : env :=
  if 0 <? wrap (mkty false 8) (rho "info->antenna_count") then
    upd rho "info->antennas[info->antenna_count-1].antenna_number" b
  else rho.

Definition ts_env (rho : env) (fb : list byte) : env :=
  upd (upd (upd (upd (upd (upd rho "timestamp" 0) "timestamp" (le64 fb 0))
    "info->timestamp.timestamp" (le64 fb 0)) "info->timestamp.accuracy" (le16 fb 8))
    "info->timestamp.unit" (znth fb 10)) "info->timestamp.flags" (znth fb 11).

Definition mcs_env (rho : env) (fb : list byte) : env :=
  upd (upd (upd rho "info->mcs.known" (znth fb 0)) "info->mcs.flags" (znth fb 1)) "info->mcs.mcs" (znth fb 2).

Fixpoint sel {A} (k : Z) (l : list (Z * A)) (d : A) : A :=
  match l with [] => d | (k', a) :: r => if k =? k' then a else sel k r d end.

(* the octets of its argument a case reads (0 for the field numbers without a case) *)
Definition rt_size (k : Z) : Z :=
  sel k [(3, 4); (2, 1); (5, 1); (11, 1); (6, 1); (1, 1); (31, 1); (14, 2); (15, 2); (19, 3); (10, 1); (22, 12); (16, 1); (17, 1)] 0.

(* the environment after the turn for field number k whose argument is the octets fb *)
Definition rt_turn_env (k : Z) (fb : list byte) (rho : env) : env :=
  sel k [(3, chan_env rho (le16 fb 0) (le16 fb 2));
         (2, upd rho "info->rate_raw" (s8_of (znth fb 0)));
         (5, antsig_env rho (znth fb 0));
         (11, antenna_env rho (znth fb 0));
         (6, rho);
         (1, upd rho "info->flags" (znth fb 0));
         (31, upd rho "info->extended_flags" (znth fb 0));
         (14, upd rho "info->rx_flags" (le16 fb 0));
         (15, upd rho "info->tx_flags" (le16 fb 0));
         (19, mcs_env rho fb);
         (10, upd rho "info->tx_power" (s8_of (znth fb 0)));
         (22, ts_env rho fb);
         (16, upd rho "info->rts_retries" (znth fb 0));
         (17, upd rho "info->data_retries" (znth fb 0))] rho.

(* the calls of the turn: the byte-order identities of le16toh / le64toh, and the copy of the 8 timestamp octets *)
Definition rt_turn_calls (k p : Z) (fb : list byte) (rho : env) : list event :=
  sel k [(3, [("__uint16_identity", [le16 fb 0]); ("__uint16_identity", [le16 fb 2])]);
         (14, [("__uint16_identity", [le16 fb 0])]);
         (15, [("__uint16_identity", [le16 fb 0])]);
         (22, [("memcpy", [wrap (mkty false 64) (rho "&timestamp"); p; 8]); ("__uint64_identity", [le64 fb 0]);
               ("__uint16_identity", [le16 fb 8])])] [].

Lemma pick_no_case k : ~ In k rt_labels -> pick_case k rt_cases [] = [].
Proof.
  intros H. rewrite rt_labels_are in H. cbn [In] in H.
  unfold rt_cases. cbn [pick_case existsb]. decide_bools. reflexivity.
Qed.

Section Turn.
  Variables (p : Z) (fb : list byte) (rho : env) (tr : list event).
  Hypothesis (Hp : 0 < p) (Hend : p + zlen fb < 2 ^ 62) (Hwf : wfbytes fb) (Harg : rho "it.this_arg" = p).

  Ltac cevr :=
    ceval_unfold; rewrite ?Harg; wrap_ids; cbv beta iota;
    rewrite ?ld8_0, ?ld16_0, ?ld64_0, ?ld8_at, ?ld16_at by lia; cbv beta iota;
    repeat (progress (wrap_ids; decide_bools; cbv beta iota; cbn [orb andb];
                      change (1 * 2 ^ 0) with 1; change (1 * 2 ^ 1) with 2; change (1 * 2 ^ 2) with 4;
                      rewrite ?Z.quot_div_nonneg by lia;
                      repeat match goal with
                             | |- context [wrap (mkty true 8) ?v] =>
                                 first [rewrite (wrap_s8_octet v) by lia | rewrite (wrap_s8_id v) by lia]
                             end));
    try reflexivity.
  Ltac xs :=
    first [ erewrite exec_set by cevr
          | erewrite exec_call by cevr
          | rewrite exec_break
          | rewrite exec_nil
          | erewrite exec_if_false by cevr
          | erewrite exec_if_true; [ | cevr | discriminate ] ].
  Ltac pick k :=
    let c := eval cbv in (pick_case k rt_cases []) in change (pick_case k rt_cases []) with c.
  Ltac start k Hk :=
    nums; rewrite (exec_one_switch _ _ _ _ k Hk); pick k.
  Ltac fin := cbn [app]; rewrite <- ?app_assoc; cbn [app]; reflexivity.
  Ltac octet i := pose proof (wfbytes_znth fb i Hwf ltac:(lia)).

  Lemma turn_channel : wrap (mkty true 32) (rho "it.this_arg_index") = 3 -> 4 <= zlen fb ->
    exec 30 (mem_at p fb) rho tr [rt_switch] =
      Fell (chan_env rho (le16 fb 0) (le16 fb 2))
           (tr ++ [("__uint16_identity", [le16 fb 0]); ("__uint16_identity", [le16 fb 2])])%list.
  Proof.
    intros Hk Hl.
    pose proof (le16_range fb 0 Hwf ltac:(lia) ltac:(lia)) as R0.
    pose proof (le16_range fb 2 Hwf ltac:(lia) ltac:(lia)) as R2.
    pose proof (wrap_u8_range (rho "info->channel.band")) as Rb.
    start 3 Hk.
    do 4 xs.
    unfold chan_env.
    set (freq := le16 fb 0) in *. set (flags := le16 fb 2) in *.
    pose proof (lor_u8 _ 1 Rb ltac:(lia)). pose proof (lor_u8 _ 2 Rb ltac:(lia)). pose proof (lor_u8 _ 4 Rb ltac:(lia)).
    destruct (Z.leb_spec 2412 freq) as [A1 | A1]; [destruct (Z.leb_spec freq 2484) as [A2 | A2] | ]; cbn [andb].
    - assert (0 <= (freq - 2407) / 5 < 256) by (split; [apply Z.div_pos; lia | apply Z.div_lt_upper_bound; lia]).
      xs. destruct (Z.eqb_spec freq 2484) as [E | E]; repeat xs; fin.
    - destruct (Z.leb_spec 5160 freq) as [B1 | B1]; [destruct (Z.leb_spec freq 5885) as [B2 | B2] | ]; cbn [andb].
      + assert (0 <= (freq - 5000) / 5 < 256) by (split; [apply Z.div_pos; lia | apply Z.div_lt_upper_bound; lia]).
        repeat xs; fin.
      + destruct (Z.leb_spec 5955 freq) as [C1 | C1]; [destruct (Z.leb_spec freq 7115) as [C2 | C2] | ]; cbn [andb].
        * assert (0 <= (freq - 5950) / 5 < 256) by (split; [apply Z.div_pos; lia | apply Z.div_lt_upper_bound; lia]).
          repeat xs; fin.
        * repeat xs; fin.
        * repeat xs; fin.
      + destruct (Z.leb_spec 5955 freq) as [C1 | C1]; [lia | ]. cbn [andb]. repeat xs; fin.
    - destruct (Z.leb_spec 5160 freq) as [B1 | B1]; [lia | ]. destruct (Z.leb_spec 5955 freq) as [C1 | C1]; [lia | ].
      cbn [andb]. repeat xs; fin.
  Qed.

  Lemma turn_rate : wrap (mkty true 32) (rho "it.this_arg_index") = 2 -> 1 <= zlen fb ->
    exec 30 (mem_at p fb) rho tr [rt_switch] = Fell (upd rho "info->rate_raw" (s8_of (znth fb 0))) tr.
  Proof.
    intros Hk Hl. octet 0. pose proof (s8_of_range (znth fb 0) ltac:(lia)).
    start 2 Hk. repeat xs. reflexivity.
  Qed.

  Lemma turn_antsignal : wrap (mkty true 32) (rho "it.this_arg_index") = 5 -> 1 <= zlen fb ->
    exec 30 (mem_at p fb) rho tr [rt_switch] = Fell (antsig_env rho (znth fb 0)) tr.
  Proof.
    intros Hk Hl. octet 0. pose proof (s8_of_range (znth fb 0) ltac:(lia)).
    pose proof (wrap_u8_range (rho "info->antenna_count")) as Rc.
    pose proof (wrap_s32_range (rho "skipped_antenna")) as Rs.
    start 5 Hk. unfold antsig_env.
    destruct (Z.eqb_spec (wrap (mkty true 32) (rho "skipped_antenna")) 0) as [E | E].
    - repeat xs. reflexivity.
    - xs. destruct (Z.ltb_spec (wrap (mkty false 8) (rho "info->antenna_count")) 16) as [C | C]; repeat xs; reflexivity.
  Qed.

  Lemma turn_antenna : wrap (mkty true 32) (rho "it.this_arg_index") = 11 -> 1 <= zlen fb ->
    exec 30 (mem_at p fb) rho tr [rt_switch] = Fell (antenna_env rho (znth fb 0)) tr.
  Proof.
    intros Hk Hl. octet 0.
    pose proof (wrap_u8_range (rho "info->antenna_count")) as Rc.
    start 11 Hk. unfold antenna_env.
    destruct (Z.ltb_spec 0 (wrap (mkty false 8) (rho "info->antenna_count"))) as [C | C]; repeat xs; reflexivity.
  Qed.

  Lemma turn_antnoise : wrap (mkty true 32) (rho "it.this_arg_index") = 6 -> exec 30 (mem_at p fb) rho tr [rt_switch] = Fell rho tr.
  Proof. intros Hk. start 6 Hk. repeat xs. reflexivity. Qed.

  Lemma turn_flags : wrap (mkty true 32) (rho "it.this_arg_index") = 1 -> 1 <= zlen fb ->
    exec 30 (mem_at p fb) rho tr [rt_switch] = Fell (upd rho "info->flags" (znth fb 0)) tr.
  Proof. intros Hk Hl. octet 0. start 1 Hk. repeat xs. reflexivity. Qed.

  Lemma turn_ext : wrap (mkty true 32) (rho "it.this_arg_index") = 31 -> 1 <= zlen fb ->
    exec 30 (mem_at p fb) rho tr [rt_switch] = Fell (upd rho "info->extended_flags" (znth fb 0)) tr.
  Proof. intros Hk Hl. octet 0. start 31 Hk. repeat xs. reflexivity. Qed.

  Lemma turn_rx_flags : wrap (mkty true 32) (rho "it.this_arg_index") = 14 -> 2 <= zlen fb ->
    exec 30 (mem_at p fb) rho tr [rt_switch] =
      Fell (upd rho "info->rx_flags" (le16 fb 0)) (tr ++ [("__uint16_identity", [le16 fb 0])])%list.
  Proof.
    intros Hk Hl. pose proof (le16_range fb 0 Hwf ltac:(lia) ltac:(lia)) as R0.
    start 14 Hk. repeat xs. reflexivity.
  Qed.

  Lemma turn_tx_flags : wrap (mkty true 32) (rho "it.this_arg_index") = 15 -> 2 <= zlen fb ->
    exec 30 (mem_at p fb) rho tr [rt_switch] =
      Fell (upd rho "info->tx_flags" (le16 fb 0)) (tr ++ [("__uint16_identity", [le16 fb 0])])%list.
  Proof.
    intros Hk Hl. pose proof (le16_range fb 0 Hwf ltac:(lia) ltac:(lia)) as R0.
    start 15 Hk. repeat xs. reflexivity.
  Qed.

  Lemma turn_mcs : wrap (mkty true 32) (rho "it.this_arg_index") = 19 -> 3 <= zlen fb ->
    exec 30 (mem_at p fb) rho tr [rt_switch] = Fell (mcs_env rho fb) tr.
  Proof. intros Hk Hl. octet 0. octet 1. octet 2. start 19 Hk. repeat xs. reflexivity. Qed.

  Lemma turn_tx_power : wrap (mkty true 32) (rho "it.this_arg_index") = 10 -> 1 <= zlen fb ->
    exec 30 (mem_at p fb) rho tr [rt_switch] = Fell (upd rho "info->tx_power" (s8_of (znth fb 0))) tr.
  Proof.
    intros Hk Hl. octet 0. pose proof (s8_of_range (znth fb 0) ltac:(lia)).
    start 10 Hk. repeat xs. reflexivity.
  Qed.

  Lemma turn_timestamp : wrap (mkty true 32) (rho "it.this_arg_index") = 22 -> 12 <= zlen fb ->
    exec 30 (mem_at p fb) rho tr [rt_switch] =
      Fell (ts_env rho fb)
           (tr ++ [("memcpy", [wrap (mkty false 64) (rho "&timestamp"); p; 8]); ("__uint64_identity", [le64 fb 0]);
                   ("__uint16_identity", [le16 fb 8])])%list.
  Proof.
    intros Hk Hl. octet 10. octet 11.
    pose proof (le16_range fb 8 Hwf ltac:(lia) ltac:(lia)) as R8.
    pose proof (le64_range fb Hwf) as R64.
    start 22 Hk. repeat xs. fin.
  Qed.

  Lemma turn_rts : wrap (mkty true 32) (rho "it.this_arg_index") = 16 -> 1 <= zlen fb ->
    exec 30 (mem_at p fb) rho tr [rt_switch] = Fell (upd rho "info->rts_retries" (znth fb 0)) tr.
  Proof. intros Hk Hl. octet 0. start 16 Hk. repeat xs. reflexivity. Qed.

  Lemma turn_data : wrap (mkty true 32) (rho "it.this_arg_index") = 17 -> 1 <= zlen fb ->
    exec 30 (mem_at p fb) rho tr [rt_switch] = Fell (upd rho "info->data_retries" (znth fb 0)) tr.
  Proof. intros Hk Hl. octet 0. start 17 Hk. repeat xs. reflexivity. Qed.

  Lemma turn_no_case k : wrap (mkty true 32) (rho "it.this_arg_index") = k -> ~ In k rt_labels ->
    exec 30 (mem_at p fb) rho tr [rt_switch] = Fell rho tr.
  Proof. intros Hk Hn. rewrite (exec_one_switch _ _ _ _ k Hk). rewrite pick_no_case by exact Hn. reflexivity. Qed.
End Turn.

Lemma sel_none {A} k (l : list (Z * A)) d : ~ In k (map fst l) -> sel k l d = d.
Proof.
  induction l as [ | [k' a] r IH]; intros H; [reflexivity | ].
  cbn [sel]. cbn [map fst In] in H. destruct (Z.eqb_spec k k') as [-> | Hne]; [tauto | apply IH; tauto].
Qed.

(* THEOREM 2.  One turn of the switch, for EVERY value k of it.this_arg_index (as an int): with the rt_size k octets of the
   argument readable at it.this_arg = p - and nothing else readable - the turn is not stuck, falls through to the statement
   after the switch, and leaves exactly the environment rt_turn_env k fb rho: the members a case assigns hold the
   little-endian values at the sub-offsets 0 / 2 / 8 / 10 / 11 of the argument, every other name is as before
   (rt_turn_env_frame); a field number without a case changes nothing and calls nothing. *)
Theorem code_rtap_switch_field p fb rho tr k F :
  0 < p -> p + zlen fb < 2 ^ 62 -> wfbytes fb -> rho "it.this_arg" = p ->
  wrap (mkty true 32) (rho "it.this_arg_index") = k -> rt_size k <= zlen fb -> (30 <= F)%nat ->
  exec F (mem_at p fb) rho tr [rt_switch] = Fell (rt_turn_env k fb rho) (tr ++ rt_turn_calls k p fb rho)%list.
Proof.
  intros Hp Hend Hwf Harg Hk Hsz HF.
  apply (exec_fuel_le 30 F); [exact HF | | discriminate].
  destruct (in_dec Z.eq_dec k rt_labels) as [I | N].
  - rewrite rt_labels_are in I. cbn [In] in I.
    repeat (destruct I as [I | I]; [rewrite <- I in *; clear I; unfold rt_size in Hsz; cbn [sel Z.eqb Pos.eqb] in Hsz;
                                    unfold rt_turn_env, rt_turn_calls; cbn [sel Z.eqb Pos.eqb]; rewrite ?app_nil_r | ]);
      [ apply turn_channel | apply turn_rate | apply turn_antsignal | apply turn_antenna | apply turn_antnoise
      | apply turn_flags | apply turn_ext | apply turn_rx_flags | apply turn_tx_flags | apply turn_mcs
      | apply turn_tx_power | apply turn_timestamp | apply turn_rts | apply turn_data | contradiction ]; assumption.
  - unfold rt_turn_env, rt_turn_calls. rewrite !sel_none.
    + rewrite app_nil_r. apply turn_no_case with (k := k); assumption.
    + intros H. apply N. rewrite rt_labels_are. cbn [map fst In] in H |- *. lia.
    + exact N.
Qed.

(* ---------------------------------------------------------------- 3. the header guards (THEOREM 1) *)
Ltac ceval_env :=
  lazy beta iota zeta delta [ceval evals binop b2z c_bits c_signed upd zeroed clobber primes String.eqb Ascii.eqb Bool.eqb negb String.append
                             String.prefix Ascii.ascii_dec Ascii.ascii_rec Ascii.ascii_rect sumbool_rec sumbool_rect bool_dec bool_rec bool_rect
                             u8 s8 u16 s16 u32 s32 u64 s64].
Ltac env_simpl :=
  lazy beta iota delta [zeroed clobber upd primes String.eqb Ascii.eqb Bool.eqb String.append
                        String.prefix Ascii.ascii_dec Ascii.ascii_rec Ascii.ascii_rect sumbool_rec sumbool_rect bool_dec bool_rec bool_rect].

Definition rt_memset_call (rho : env) : event := ("memset", [wrap (mkty false 64) (rho "info"); 0; 77]).
(* the length argument is (int) frame_len *)
Definition rt_init_call (rho : env) (a n : Z) : event :=
  ("ieee80211_radiotap_iterator_init", [wrap (mkty false 64) (rho "&it"); a; wrap (mkty true 32) n; 0]).

(* the environment in which the loop is entered *)
Definition rt_entry_env (rho : env) (a L : Z) : env :=
  upd (upd (upd (clobber (upd (zeroed rho "info->") "rh" a) 2 "it") "ret" 0) "skipped_antenna" 0) "info->length" L.

Theorem code_rtap_header_guards buf a rho F :
  wfbytes buf -> 0 < a -> a + zlen buf < 2 ^ 62 -> rho "frame" = a -> rho "frame_len" = zlen buf ->
  let m := mem_at a buf in
  let r0 := wrap (mkty true 32) (rho "ret:ieee80211_radiotap_iterator_init") in
  let run := exec (11 + F) m rho [] body_libwifi_parse_radiotap_info in
  if (zlen buf <? 8) || (le16 buf 2 <? 8) || (255 <? le16 buf 2) then
    observe run = Some (Some (-22), [rt_memset_call rho])
  else if negb (r0 =? 0) then
    observe run = Some (Some r0, [rt_memset_call rho; rt_init_call rho a (zlen buf)])
  else
    run = exec F m (rt_entry_env rho a (le16 buf 2)) [rt_memset_call rho; rt_init_call rho a (zlen buf)] [rt_loop; rt_ret0].
Proof.
  intros Hwf Ha Hend Hfr Hfl m r0 run. subst run m. nums.
  pose proof (zlen_nonneg buf) as Hn.
  pose proof (wrap_s32_range (rho "ret:ieee80211_radiotap_iterator_init")) as Rr. fold r0 in Rr.
  change (11 + F)%nat with (S (S (S (S (S (S (S (S (S (S (S F))))))))))).
  unfold body_libwifi_parse_radiotap_info.
  Ltac cevh Hfr Hfl :=
    ceval_env; rewrite ?Hfr, ?Hfl; wrap_ids; cbv beta iota;
    rewrite ?ld16_at by lia; cbv beta iota;
    repeat (progress (wrap_ids; decide_bools; cbv beta iota; cbn [orb andb negb]));
    try reflexivity.
  erewrite exec_call by (cevh Hfr Hfl). rewrite exec_zero.
  destruct (Z.ltb_spec (zlen buf) 8) as [S8 | S8]; cbn [orb].
  - erewrite exec_if_true; [ | cevh Hfr Hfl | discriminate ].
    erewrite exec_ret by (cevh Hfr Hfl). reflexivity.
  - erewrite exec_if_false by (cevh Hfr Hfl). rewrite exec_nil.
    erewrite exec_set by (cevh Hfr Hfl).
    pose proof (le16_range buf 2 Hwf ltac:(lia) ltac:(lia)) as RL.
    destruct (Z.ltb_spec (le16 buf 2) 8) as [L8 | L8]; cbn [orb].
    + erewrite exec_if_true; [ | cevh Hfr Hfl | discriminate ].
      erewrite exec_ret by (cevh Hfr Hfl). reflexivity.
    + destruct (Z.ltb_spec 255 (le16 buf 2)) as [L255 | L255].
      * erewrite exec_if_true; [ | cevh Hfr Hfl | discriminate ].
        erewrite exec_ret by (cevh Hfr Hfl). reflexivity.
      * erewrite exec_if_false by (cevh Hfr Hfl). rewrite exec_nil.
        erewrite exec_call by (cevh Hfr Hfl). rewrite exec_clobber.
        erewrite exec_set with (v := r0) by (cevh Hfr Hfl).
        destruct (Z.eqb_spec r0 0) as [E | E]; cbn [negb].
        -- erewrite exec_if_false by (ceval_env; rewrite E; cevh Hfr Hfl). rewrite exec_nil.
           erewrite exec_set by (cevh Hfr Hfl).
           erewrite exec_set by (cevh Hfr Hfl).
           rewrite E. reflexivity.
        -- erewrite exec_if_true; [ | cevh Hfr Hfl | discriminate ].
           erewrite exec_ret by (cevh Hfr Hfl). reflexivity.
Qed.

(* the (int) conversion of the length: the value itself below 2^31 ... *)
Corollary rt_init_call_small rho a n : 0 <= n < 2 ^ 31 ->
  rt_init_call rho a n = ("ieee80211_radiotap_iterator_init", [wrap (mkty false 64) (rho "&it"); a; n; 0]).
Proof. intros H. nums. unfold rt_init_call. rewrite wrap_s32_id by lia. reflexivity. Qed.
(* ... and NOT the value from 2^31 on: a frame_len of 2^31 octets is handed to the iterator as -2^31 (which it refuses) *)
Lemma rt_init_call_refuted rho a :
  rt_init_call rho a (2 ^ 31) = ("ieee80211_radiotap_iterator_init", [wrap (mkty false 64) (rho "&it"); a; - 2 ^ 31; 0]).
Proof. reflexivity. Qed.

(* Theorem 1 with "the length handed to the iterator is zlen buf" is FALSE from 2^31 octets on: a frame of 2^31 octets (header
   it_len = 8) inside the address range of the theorem makes the routine call the iterator with max_length = -2^31 *)
Definition bigbuf : list byte := (0 :: 0 :: 8 :: 0 :: repeat 0 (Z.to_nat 2147483644))%list.
Definition bigrho : env := upd (upd (fun _ : string => 1) "frame" 1) "frame_len" 2147483648.
Lemma bigbuf_len : zlen bigbuf = 2147483648.
Proof. unfold bigbuf. rewrite !zlen_cons. unfold zlen. rewrite repeat_length. rewrite Z2Nat.id by lia. reflexivity. Qed.
Lemma bigbuf_wf : wfbytes bigbuf.
Proof.
  unfold bigbuf, wfbytes. do 4 (constructor; [lia | ]).
  apply Forall_forall. intros x Hx. apply repeat_spec in Hx. subst x. lia.
Qed.
Lemma bigbuf_it_len : le16 bigbuf 2 = 8.
Proof. reflexivity. Qed.

Theorem code_rtap_header_guards_int_refuted :
  exists buf a rho,
    wfbytes buf /\ 0 < a /\ a + zlen buf < 2 ^ 62 /\ rho "frame" = a /\ rho "frame_len" = zlen buf /\
    zlen buf = 2147483648 /\
    observe (exec 11 (mem_at a buf) rho [] body_libwifi_parse_radiotap_info) =
      Some (Some 1, [rt_memset_call rho;
                     ("ieee80211_radiotap_iterator_init", [wrap (mkty false 64) (rho "&it"); a; -2147483648; 0])]).
Proof.
  exists bigbuf, 1, bigrho. rewrite bigbuf_len.
  split; [exact bigbuf_wf | ]. split; [lia | ]. split; [reflexivity | ]. split; [reflexivity | ]. split; [reflexivity | ].
  split; [reflexivity | ].
  pose proof (code_rtap_header_guards bigbuf 1 bigrho 0 bigbuf_wf ltac:(lia) ltac:(rewrite bigbuf_len; reflexivity) eq_refl) as H.
  rewrite bigbuf_len in H. specialize (H eq_refl). cbv zeta in H. rewrite bigbuf_it_len in H.
  assert (Hr : wrap (mkty true 32) (bigrho "ret:ieee80211_radiotap_iterator_init") = 1) by reflexivity.
  rewrite Hr in H.
  change ((2147483648 <? 8) || (8 <? 8) || (255 <? 8)) with false in H. change (negb (1 =? 0)) with true in H.
  cbv iota in H. exact H.
Qed.

(* what the loop finds on entry: the length, every other member of *info zero, the two locals zero, the caller's names kept *)
Lemma prefix_info_not_it x : String.prefix "info->" x = true -> String.prefix "it" x = false.
Proof.
  destruct x as [ | c1 [ | c2 r]]; cbn [String.prefix]; try discriminate.
  - destruct (ascii_dec "i" c1); discriminate.
  - destruct (ascii_dec "i" c1); [ | reflexivity]. destruct (ascii_dec "n" c2) as [<- | ]; [ | discriminate].
    intros _. destruct (ascii_dec "t" "n"); [discriminate | reflexivity].
Qed.

Lemma upd_other rho y v x : x <> y -> upd rho y v x = rho x.
Proof. intros H. unfold upd. destruct (String.eqb_spec x y); [contradiction | reflexivity]. Qed.
Lemma upd_same rho y v : upd rho y v y = v.
Proof. unfold upd. rewrite String.eqb_refl. reflexivity. Qed.

Lemma rt_entry_env_facts rho a L :
  let rho1 := rt_entry_env rho a L in
  rho1 "info->length" = L /\ rho1 "ret" = 0 /\ rho1 "skipped_antenna" = 0 /\
  (forall x, String.prefix "info->" x = true -> x <> "info->length" -> rho1 x = 0) /\
  (forall x, String.prefix "info->" x = false -> String.prefix "it" x = false ->
             x <> "rh" -> x <> "ret" -> x <> "skipped_antenna" -> rho1 x = rho x) /\
  (forall m, ceval rho1 m rt_cond = Some 1).
Proof.
  intros rho1. subst rho1. unfold rt_entry_env. repeat split.
  - intros x Hx Hne. rewrite upd_other by exact Hne.
    rewrite upd_other by (intros ->; discriminate Hx). rewrite upd_other by (intros ->; discriminate Hx).
    unfold clobber. rewrite (prefix_info_not_it x Hx). rewrite upd_other by (intros ->; discriminate Hx).
    unfold zeroed. rewrite Hx. reflexivity.
  - intros x H1 H2 H3 H4 H5.
    rewrite upd_other by (intros ->; discriminate H1). rewrite !upd_other by assumption.
    unfold clobber. rewrite H2. rewrite upd_other by assumption. unfold zeroed. rewrite H1. reflexivity.
Qed.

(* ---------------------------------------------------------------- 4. the end of the loop (THEOREM 4) *)
Lemma exec_switch_then f m rho tr r rho2 tr2 :
  exec (S f) m rho tr [rt_switch] = Fell rho2 tr2 -> exec (S f) m rho tr (rt_switch :: r) = exec f m rho2 tr2 r.
Proof.
  rewrite rt_switch_shape. cbn [exec].
  destruct (ceval rho m (CVar (mkty true 32) "it.this_arg_index")) as [v | ]; [ | discriminate].
  destruct (exec f m rho tr (pick_case v rt_cases [])) as [rho' tr' | ? ? ? | rho' tr' | ? | ]; try discriminate;
    (destruct f as [ | f']; [discriminate | ]); cbn [exec]; intros H; injection H as -> ->; reflexivity.
Qed.

Definition rt_next_call (rho : env) : event := ("ieee80211_radiotap_iterator_next", [wrap (mkty false 64) (rho "&it")]).

(* Whatever the turn of the switch did (rho2, tr2): when the iterator's next answer rn is not 0 - the end of the fields, -ENOENT,
   as well as a malformed header, -EINVAL - the loop ends and the routine returns 0: the iterator's error code is dropped.
   Nothing but the iterator object and ret is touched after the switch. *)
Theorem code_rtap_loop_exit m rho tr rho2 tr2 F :
  wrap (mkty true 32) (rho "ret") = 0 ->
  exec (5 + F) m rho tr [rt_switch] = Fell rho2 tr2 ->
  let rn := wrap (mkty true 32) (rho2 "ret:ieee80211_radiotap_iterator_next") in
  rn <> 0 ->
  let rho3 := upd (clobber rho2 (length (tr2 ++ [rt_next_call rho2])) "it") "ret" rn in
  exec (6 + F) m rho tr [rt_loop; rt_ret0] = Returned (Some 0) rho3 (tr2 ++ [rt_next_call rho2])%list /\
  (forall x, String.prefix "it" x = false -> x <> "ret" -> rho3 x = rho2 x).
Proof.
  intros Hret Hturn rn Hrn rho3. split.
  - pose proof (wrap_s32_range (rho2 "ret:ieee80211_radiotap_iterator_next")) as Rn. fold rn in Rn.
    change (6 + F)%nat with (S (5 + F)). unfold rt_loop.
    rewrite exec_loop_enter with (v := 1); [ | unfold rt_cond; ceval_unfold; rewrite Hret; reflexivity | discriminate ].
    change (5 + F)%nat with (S (S (S (S (S F))))) in *.
    rewrite (exec_switch_then _ _ _ _ _ _ _ Hturn). unfold rt_after.
    erewrite exec_call by (ceval_unfold; reflexivity). rewrite exec_clobber.
    erewrite exec_set with (v := rn) by (ceval_env; fold rn; wrap_ids; reflexivity).
    rewrite exec_nil. rewrite exec_nil.
    rewrite exec_loop_exit.
    + unfold rt_ret0. erewrite exec_ret by (ceval_unfold; wrap_ids; reflexivity). reflexivity.
    + unfold rt_cond. ceval_unfold. wrap_ids. decide_bools. reflexivity.
  - intros x H1 H2. subst rho3. rewrite upd_other by exact H2. unfold clobber. rewrite H1. reflexivity.
Qed.

(* ---------------------------------------------------------------- 5. what a turn assigns, and nothing else *)
Definition rt_assigned (k : Z) : list string :=
  sel k [(3, ["info->channel.freq"; "info->channel.flags"; "info->channel.band"; "info->channel.center"]);
         (2, ["info->rate_raw"]);
         (5, ["info->signal"; "skipped_antenna"; "info->antenna_count"]);
         (11, ["info->antennas[info->antenna_count-1].antenna_number"]);
         (1, ["info->flags"]);
         (31, ["info->extended_flags"]);
         (14, ["info->rx_flags"]);
         (15, ["info->tx_flags"]);
         (19, ["info->mcs.known"; "info->mcs.flags"; "info->mcs.mcs"]);
         (10, ["info->tx_power"]);
         (22, ["timestamp"; "info->timestamp.timestamp"; "info->timestamp.accuracy"; "info->timestamp.unit"; "info->timestamp.flags"]);
         (16, ["info->rts_retries"]);
         (17, ["info->data_retries"])] [].

Lemma rt_turn_env_frame k fb rho x : ~ In x (rt_assigned k) -> rt_turn_env k fb rho x = rho x.
Proof.
  intros H.
  destruct (in_dec Z.eq_dec k rt_labels) as [I | N].
  - rewrite rt_labels_are in I. cbn [In] in I.
    repeat (destruct I as [I | I]; [rewrite <- I in *; clear I; unfold rt_assigned in H; cbn [sel Z.eqb Pos.eqb In] in H;
                                    unfold rt_turn_env; cbn [sel Z.eqb Pos.eqb] | ]); try contradiction;
      unfold chan_env, antsig_env, antenna_env, mcs_env, ts_env; cbv zeta;
      repeat match goal with |- context [if ?c then _ else _] => destruct c end;
      rewrite ?upd_other by (intros ->; apply H; tauto); reflexivity.
  - unfold rt_turn_env. rewrite sel_none by exact N. reflexivity.
Qed.

(* CHANNEL, member by member; band and center are the Spec's s_band_center of the frequency (Spec/RadiotapSpec.v), the band bit
   or-ed into the bits already there, the center left alone for a frequency outside the three bands *)
Lemma chan_env_freq rho f fl : chan_env rho f fl "info->channel.freq" = f.
Proof. unfold chan_env; cbv zeta. repeat match goal with |- context [if ?c then _ else _] => destruct c end; reflexivity. Qed.
Lemma chan_env_flags rho f fl : chan_env rho f fl "info->channel.flags" = fl.
Proof. unfold chan_env; cbv zeta. repeat match goal with |- context [if ?c then _ else _] => destruct c end; reflexivity. Qed.
Lemma chan_env_band rho f fl :
  chan_env rho f fl "info->channel.band" =
    if snd (s_band_center f) =? 0 then rho "info->channel.band"
    else Z.lor (wrap (mkty false 8) (rho "info->channel.band")) (snd (s_band_center f)).
Proof.
  unfold chan_env, s_band_center; cbv zeta.
  destruct (Z.eqb_spec f 2484) as [-> | E]; [reflexivity | ].
  destruct ((2412 <=? f) && (f <=? 2484)); [reflexivity | ].
  destruct ((5160 <=? f) && (f <=? 5885)); [reflexivity | ].
  destruct ((5955 <=? f) && (f <=? 7115)); reflexivity.
Qed.
Lemma chan_env_center rho f fl :
  chan_env rho f fl "info->channel.center" =
    if snd (s_band_center f) =? 0 then rho "info->channel.center" else fst (s_band_center f).
Proof.
  unfold chan_env, s_band_center; cbv zeta.
  destruct (Z.eqb_spec f 2484) as [-> | E]; [reflexivity | ].
  destruct ((2412 <=? f) && (f <=? 2484)); [reflexivity | ].
  destruct ((5160 <=? f) && (f <=? 5885)); [reflexivity | ].
  destruct ((5955 <=? f) && (f <=? 7115)); reflexivity.
Qed.

(* TIMESTAMP, member by member *)
Lemma ts_env_members rho fb :
  ts_env rho fb "info->timestamp.timestamp" = le64 fb 0 /\ ts_env rho fb "info->timestamp.accuracy" = le16 fb 8 /\
  ts_env rho fb "info->timestamp.unit" = znth fb 10 /\ ts_env rho fb "info->timestamp.flags" = znth fb 11.
Proof. repeat split. Qed.
Lemma mcs_env_members rho fb :
  mcs_env rho fb "info->mcs.known" = znth fb 0 /\ mcs_env rho fb "info->mcs.flags" = znth fb 1 /\
  mcs_env rho fb "info->mcs.mcs" = znth fb 2.
Proof. repeat split. Qed.

(* ---------------------------------------------------------------- 6. "not stuck" bounds the reads: with the LAST octet of the
   argument missing the turn is stuck, for every field number whose case reads its argument *)
Definition sample12 : list byte := [108; 9; 160; 0; 5; 6; 7; 8; 9; 10; 11; 12].
Definition sample_env (k : Z) : env :=
  env_of [("it.this_arg_index", k); ("it.this_arg", 1000); ("info->antenna_count", 1)].
Definition run_with (k n : Z) : xresult :=
  exec 30 (mem_at 1000 (firstn (Z.to_nat n) sample12)) (sample_env k) [] [rt_switch].
Definition is_stuck (o : xresult) : bool := match o with Stuck _ => true | _ => false end.
Definition is_fell (o : xresult) : bool := match o with Fell _ _ => true | _ => false end.

Example code_rtap_switch_last_octet_needed :
  forallb (fun k => is_fell (run_with k (rt_size k)) && is_stuck (run_with k (rt_size k - 1)))
          [3; 2; 5; 11; 1; 31; 14; 15; 19; 10; 22; 16; 17] = true.
Proof. vm_compute. reflexivity. Qed.
Example code_rtap_channel_3_octets_stuck : run_with 3 3 = Stuck "call:__uint16_identity#1".
Proof. vm_compute. reflexivity. Qed.
Example code_rtap_timestamp_11_octets_stuck : run_with 22 11 = Stuck "set:info->timestamp.flags#0".
Proof. vm_compute. reflexivity. Qed.
Example code_rtap_mcs_2_octets_stuck : run_with 19 2 = Stuck "set:info->mcs.mcs#0".
Proof. vm_compute. reflexivity. Qed.

(* AS TRANSLATED the second and later DBM_ANTSIGNAL turns read NOTHING: with no readable memory at all the turn is not stuck
   and only counts the antenna.  (struct libwifi_radiotap_info has room for a signal per antenna, and Model/Radiotap.v records
   one: the statement that stores *it.this_arg there is not an integer assignment and does not appear in body_...; this read is
   therefore NOT covered by "not stuck".) *)
Lemma code_rtap_later_antsignal_reads_nothing rho tr :
  wrap (mkty true 32) (rho "it.this_arg_index") = 5 -> wrap (mkty true 32) (rho "skipped_antenna") <> 0 ->
  exec 30 (fun _ => None) rho tr [rt_switch] =
    Fell (let c := wrap (mkty false 8) (rho "info->antenna_count") in if c <? 16 then upd rho "info->antenna_count" (c + 1) else rho) tr.
Proof.
  intros Hk Hs. rewrite (exec_one_switch _ _ _ _ 5 Hk).
  let c := eval cbv in (pick_case 5 rt_cases []) in change (pick_case 5 rt_cases []) with c.
  pose proof (wrap_u8_range (rho "info->antenna_count")) as Rc.
  pose proof (wrap_s32_range (rho "skipped_antenna")) as Rs. cbv zeta.
  erewrite exec_if_false by (ceval_unfold; decide_bools; reflexivity). rewrite exec_nil.
  destruct (Z.ltb_spec (wrap (mkty false 8) (rho "info->antenna_count")) 16) as [C | C].
  - erewrite exec_if_true; [ | ceval_unfold; wrap_ids; decide_bools; reflexivity | discriminate ].
    erewrite exec_set by (ceval_unfold; wrap_ids; reflexivity). rewrite exec_nil, exec_break. reflexivity.
  - erewrite exec_if_false by (ceval_unfold; wrap_ids; decide_bools; reflexivity). rewrite exec_nil, exec_break. reflexivity.
Qed.

(* ---------------------------------------------------------------- 7. the turn computes the Spec's per-field decoding (THEOREM 3)
   Spec/RadiotapChainSpec.v: s_apply buf (info, seen) (bit, offset) is what one field adds to the record decoded so far.
   The record keeps octets as unsigned values; int8_t members (rate_raw, signal, tx_power) hold the same octet read as signed.
   The array info->antennas[] is not an lvalue of the environment: of the antenna list only the count is related (and the number
   given to the last entry, code_rtap_antenna_number). *)
Definition info_rel (rho : env) (x : rt_info) (sk : bool) : Prop :=
  rho "info->channel.flags" = i_chan_flags x /\ rho "info->channel.freq" = i_chan_freq x /\
  rho "info->channel.center" = i_chan_center x /\ rho "info->channel.band" = i_chan_band x /\
  rho "info->rate_raw" = s8_of (i_rate_raw x) /\ rho "info->antenna_count" = zlen (i_antennas x) /\
  rho "info->signal" = s8_of (i_signal x) /\ rho "info->flags" = i_flags x /\
  rho "info->extended_flags" = i_ext_flags x /\ rho "info->rx_flags" = i_rx_flags x /\
  rho "info->tx_flags" = i_tx_flags x /\ rho "info->mcs.known" = i_mcs_known x /\
  rho "info->mcs.flags" = i_mcs_flags x /\ rho "info->mcs.mcs" = i_mcs_mcs x /\
  rho "info->tx_power" = s8_of (i_tx_power x) /\ rho "info->timestamp.timestamp" = i_ts x /\
  rho "info->timestamp.accuracy" = i_ts_accuracy x /\ rho "info->timestamp.unit" = i_ts_unit x /\
  rho "info->timestamp.flags" = i_ts_flags x /\ rho "info->rts_retries" = i_rts_retries x /\
  rho "info->data_retries" = i_data_retries x /\ rho "info->length" = i_length x /\
  rho "skipped_antenna" = b2z sk /\
  0 <= i_chan_band x < 256 /\ zlen (i_antennas x) <= 16.

Lemma zlen_set_last_antenna l b : zlen (set_last_antenna l b) = zlen l.
Proof.
  induction l as [ | [n s] r IH]; [reflexivity | ].
  destruct r as [ | y r']; [reflexivity | ].
  change (set_last_antenna ((n, s) :: y :: r') b) with ((n, s) :: set_last_antenna (y :: r') b).
  rewrite !zlen_cons with (x := (n, s)). rewrite IH. reflexivity.
Qed.

Lemma s_band_center_cases f :
  s_band_center f =
    if (2412 <=? f) && (f <=? 2484) then ((if f =? 2484 then 14 else (f - 2407) / 5), 1)
    else if (5160 <=? f) && (f <=? 5885) then ((f - 5000) / 5, 2)
    else if (5955 <=? f) && (f <=? 7115) then ((f - 5950) / 5, 4)
    else (0, 0).
Proof. unfold s_band_center. destruct (Z.eqb_spec f 2484) as [-> | E]; reflexivity. Qed.

Ltac rel_goal :=
  unfold info_rel;
  cbn [fst snd i_chan_flags i_chan_freq i_chan_center i_chan_band i_rate_raw i_antennas i_signal i_flags i_ext_flags i_rx_flags
       i_tx_flags i_mcs_known i_mcs_flags i_mcs_mcs i_tx_power i_ts i_ts_accuracy i_ts_unit i_ts_flags i_rts_retries
       i_data_retries i_length];
  env_simpl; repeat split; try assumption; try reflexivity; try lia.

Theorem code_rtap_switch_refines_spec fb rho k x sk :
  k <> 31 -> info_rel rho x sk ->
  info_rel (rt_turn_env k fb rho) (fst (s_apply fb (x, sk) (k, 0))) (snd (s_apply fb (x, sk) (k, 0))).
Proof.
  intros H31 Hrel.
  assert (Hrel' := Hrel). unfold info_rel in Hrel'. decompose [and] Hrel'. clear Hrel'.
  pose proof (zlen_nonneg (i_antennas x)) as Hn.
  destruct (in_dec Z.eq_dec k rt_labels) as [I | N].
  - rewrite rt_labels_are in I. cbn [In] in I.
    repeat (destruct I as [I | I]; [rewrite <- I in *; clear I; unfold rt_turn_env; cbn [sel Z.eqb Pos.eqb];
                                    cbv beta iota zeta delta [s_apply Z.eqb Pos.eqb] | ]); try contradiction; try lia.
    + (* CHANNEL *)
      rewrite s_band_center_cases. unfold chan_env. cbv zeta.
      match goal with Hb : rho "info->channel.band" = _ |- _ => rewrite Hb end.
      rewrite wrap_u8_id by lia.
      pose proof (lor_u8 (i_chan_band x) 1 ltac:(lia) ltac:(lia)).
      pose proof (lor_u8 (i_chan_band x) 2 ltac:(lia) ltac:(lia)).
      pose proof (lor_u8 (i_chan_band x) 4 ltac:(lia) ltac:(lia)).
      destruct ((2412 <=? le16 fb 0) && (le16 fb 0 <=? 2484)); [unfold set_chan; rel_goal | ].
      destruct ((5160 <=? le16 fb 0) && (le16 fb 0 <=? 5885)); [unfold set_chan; rel_goal | ].
      destruct ((5955 <=? le16 fb 0) && (le16 fb 0 <=? 7115)); [unfold set_chan; rel_goal | ].
      unfold set_chan. cbn [Z.eqb]. rewrite Z.lor_0_r. rel_goal.
    + unfold set_rate. rel_goal.
    + (* DBM_ANTSIGNAL *)
      unfold antsig_env.
      match goal with Hs : rho "skipped_antenna" = _ |- _ => rewrite Hs end.
      match goal with Hc : rho "info->antenna_count" = _ |- _ => rewrite Hc end.
      rewrite wrap_u8_id by lia. change s_max_antennas with 16.
      destruct sk; cbn [negb b2z].
      * change (wrap (mkty true 32) 1 =? 0) with false. cbv iota.
        destruct (Z.ltb_spec (zlen (i_antennas x)) 16) as [C | C].
        -- unfold set_antennas. rel_goal; rewrite zlen_app; change (zlen [(zlen (i_antennas x), znth fb 0)]) with 1; lia.
        -- rel_goal.
      * change (wrap (mkty true 32) 0 =? 0) with true. cbv iota. unfold set_signal. rel_goal.
    + (* ANTENNA *)
      unfold antenna_env, set_antennas.
      destruct (0 <? wrap (mkty false 8) (rho "info->antenna_count")); rel_goal; rewrite zlen_set_last_antenna; assumption.
    + rel_goal.
    + unfold set_flags. rel_goal.
    + unfold set_rx_flags. rel_goal.
    + unfold set_tx_flags. rel_goal.
    + unfold set_mcs, mcs_env. rel_goal.
    + unfold set_tx_power. rel_goal.
    + unfold set_ts, ts_env. rel_goal.
    + unfold set_rts_retries. rel_goal.
    + unfold set_data_retries. rel_goal.
  - unfold rt_turn_env. rewrite sel_none by exact N.
    rewrite rt_labels_are in N. cbn [In] in N.
    unfold s_apply. decide_bools. exact Hrel.
Qed.

(* the turn as executed and the Spec's decoding, in one statement *)
Theorem code_rtap_turn_refines_spec p fb rho tr k x sk F :
  0 < p -> p + zlen fb < 2 ^ 62 -> wfbytes fb -> rho "it.this_arg" = p ->
  wrap (mkty true 32) (rho "it.this_arg_index") = k -> rt_size k <= zlen fb -> (30 <= F)%nat ->
  k <> 31 -> info_rel rho x sk ->
  exists rho',
    exec F (mem_at p fb) rho tr [rt_switch] = Fell rho' (tr ++ rt_turn_calls k p fb rho)%list /\
    info_rel rho' (fst (s_apply fb (x, sk) (k, 0))) (snd (s_apply fb (x, sk) (k, 0))).
Proof.
  intros. exists (rt_turn_env k fb rho). split.
  - apply code_rtap_switch_field; assumption.
  - apply code_rtap_switch_refines_spec; assumption.
Qed.

(* the octets a case reads are the field's size in the Spec's table (radiotap.org) and in the library's own table *)
Lemma rt_size_is_spec_size :
  forallb (fun k => (rt_size k =? snd (nth (Z.to_nat k) s_align_size (0, 0))) && (rt_size k =? snd (table_entry k)))
          [3; 2; 5; 11; 6; 1; 14; 15; 19; 10; 22; 16; 17] = true.
Proof. vm_compute. reflexivity. Qed.

(* ... and the hand-written model of the switch (Model/Radiotap.v, rt_field, reading the argument through the strict oracle):
   for a field number of the radiotap namespace whose whole field is readable *)
Corollary code_rtap_switch_refines_model fb rho k x sk :
  wfbytes fb -> 0 <= k < 23 -> snd (table_entry k) <= zlen fb -> info_rel rho x sk ->
  exists x' sk', rt_field (rd_strict fb) x sk k 0 = Done (x', sk') /\ info_rel (rt_turn_env k fb rho) x' sk'.
Proof.
  intros Hwf Hk Hsz Hrel.
  exists (fst (s_apply fb (x, sk) (k, 0))), (snd (s_apply fb (x, sk) (k, 0))). split.
  - rewrite (field_apply fb (rd_strict fb) Hwf (agrees_strict fb) 0 x sk k 0 Hk ltac:(lia) ltac:(lia)).
    destruct (s_apply fb (x, sk) (k, 0)); reflexivity.
  - apply code_rtap_switch_refines_spec; [lia | exact Hrel].
Qed.

(* case 31 (IEEE80211_RADIOTAP_EXT) is in the code only: it stores octet 0 of the argument in info->extended_flags, the Spec
   and the model leave the record alone (the iterator consumes bit 31 itself and never reports it as a field) *)
Lemma code_rtap_switch_ext_not_in_spec fb rho x sk :
  info_rel rho x sk -> znth fb 0 <> i_ext_flags x ->
  s_apply fb (x, sk) (31, 0) = (x, sk) /\
  rt_turn_env 31 fb rho "info->extended_flags" = znth fb 0 /\
  ~ info_rel (rt_turn_env 31 fb rho) (fst (s_apply fb (x, sk) (31, 0))) (snd (s_apply fb (x, sk) (31, 0))).
Proof.
  intros Hrel Hne. split; [reflexivity | ]. split; [reflexivity | ].
  intros H. unfold info_rel in H. decompose [and] H.
  match goal with He : rt_turn_env 31 fb rho "info->extended_flags" = _ |- _ => apply Hne; exact He end.
Qed.

(* ANTENNA: the name assigned is the number of the last per-antenna entry of the Spec *)
Lemma last_set_last_antenna l b d : l <> [] -> last (set_last_antenna l b) d = (b, snd (last l d)).
Proof.
  induction l as [ | [n s] r IH]; intros H; [contradiction | ].
  destruct r as [ | y r']; [reflexivity | ].
  change (set_last_antenna ((n, s) :: y :: r') b) with ((n, s) :: set_last_antenna (y :: r') b).
  assert (Hne : set_last_antenna (y :: r') b <> []).
  { intros E. apply (f_equal zlen) in E. rewrite zlen_set_last_antenna, zlen_cons, zlen_nil in E.
    pose proof (zlen_nonneg r'). lia. }
  change (last ((n, s) :: y :: r') d) with (last (y :: r') d).
  rewrite <- IH by discriminate.
  destruct (set_last_antenna (y :: r') b); [contradiction | reflexivity].
Qed.

Lemma code_rtap_antenna_number fb rho x sk :
  info_rel rho x sk -> i_antennas x <> [] ->
  rt_turn_env 11 fb rho "info->antennas[info->antenna_count-1].antenna_number" =
    fst (last (i_antennas (fst (s_apply fb (x, sk) (11, 0)))) (0, 0)).
Proof.
  intros Hrel Hne. assert (Hrel' := Hrel). unfold info_rel in Hrel'. decompose [and] Hrel'. clear Hrel'.
  cbv beta iota zeta delta [s_apply Z.eqb Pos.eqb]. cbn [fst set_antennas i_antennas].
  rewrite last_set_last_antenna by exact Hne. cbn [fst].
  unfold rt_turn_env; cbn [sel Z.eqb Pos.eqb]. unfold antenna_env.
  match goal with Hc : rho "info->antenna_count" = _ |- _ => rewrite Hc end.
  assert (0 < zlen (i_antennas x)).
  { destruct (i_antennas x); [contradiction | rewrite zlen_cons; pose proof (zlen_nonneg l); lia]. }
  rewrite wrap_u8_id by lia. rewrite ltb_true by lia. reflexivity.
Qed.

(* the loop is entered (Theorem 1) in the Spec's initial accumulator: everything 0 but the length, no signal seen *)
Lemma rt_entry_env_rel rho a L : info_rel (rt_entry_env rho a L) (s_info0 L) false.
Proof. unfold rt_entry_env, s_info0. rel_goal. rewrite zlen_nil. lia. Qed.

(* ---------------------------------------------------------------- 8. the pieces together on one frame (by computation)
   header (version 0, it_len 12, present = bit 3) + CHANNEL 2412 MHz / flags 0x00a0; the iterator answers 0 to init, reports
   field 3 at frame + 8 (the names the clobber of `it` after the 2 calls made so far gives its members), then answers -2
   (-ENOENT) to next: the routine returns 0 after memset, init, the two byte-order identities and next, with the channel decoded. *)
Definition demo_frame : list byte := [0; 0; 12; 0; 8; 0; 0; 0; 108; 9; 160; 0].
Definition demo_env : env :=
  env_of [("frame", 1000); ("frame_len", 12); ("info", 5000); ("&it", 6000);
          ("ret:ieee80211_radiotap_iterator_init", 0); ("ret:ieee80211_radiotap_iterator_next", -2);
          ("havoc:it.this_arg_index''", 3); ("havoc:it.this_arg''", 1008)].
Example code_rtap_demo :
  match exec 40 (mem_at 1000 demo_frame) demo_env [] body_libwifi_parse_radiotap_info with
  | Returned (Some v) rho tr =>
      v = 0 /\
      tr = [("memset", [5000; 0; 77]); ("ieee80211_radiotap_iterator_init", [6000; 1000; 12; 0]);
            ("__uint16_identity", [2412]); ("__uint16_identity", [160]); ("ieee80211_radiotap_iterator_next", [6000])] /\
      map rho ["info->length"; "info->channel.freq"; "info->channel.flags"; "info->channel.band"; "info->channel.center";
               "info->rate_raw"; "info->signal"; "ret"] = [12; 2412; 160; 1; 1; 0; 0; -2]
  | _ => False
  end.
Proof. vm_compute. repeat split. Qed.

(* the same frame cut after 11 octets: the CHANNEL flags cannot be read *)
Example code_rtap_demo_cut :
  exec 40 (mem_at 1000 (firstn 11 demo_frame)) demo_env [] body_libwifi_parse_radiotap_info = Stuck "call:__uint16_identity#1".
Proof. vm_compute. reflexivity. Qed.

Print Assumptions code_rtap_header_guards.
Print Assumptions code_rtap_header_guards_int_refuted.
Print Assumptions code_rtap_switch_field.
Print Assumptions rt_turn_env_frame.
Print Assumptions code_rtap_switch_last_octet_needed.
Print Assumptions code_rtap_later_antsignal_reads_nothing.
Print Assumptions code_rtap_switch_refines_spec.
Print Assumptions code_rtap_turn_refines_spec.
Print Assumptions code_rtap_switch_refines_model.
Print Assumptions code_rtap_switch_ext_not_in_spec.
Print Assumptions code_rtap_antenna_number.
Print Assumptions code_rtap_loop_exit.
Print Assumptions rt_entry_env_facts.
Print Assumptions rt_entry_env_rel.
Print Assumptions code_rtap_demo.
