(* libwifi_crc32 AS TRANSLATED from core/frame/crc.c (Gen/Sites.v: body_libwifi_crc32) computes the hand-written model
   Model/CRC.v (crc32_list) on every message, when the only readable memory is the message itself: the translated code
   never reads outside it (execution would be Stuck), no signed operation overflows (the evaluator would give None), and
   the value returned is exactly the model's. *)
From Coq Require Import ZArith String List Bool Lia.
From LW Require Import Base.Bytes Base.CExpr Gen.Arith Gen.Sites Proofs.SitesLemmas Proofs.CodeIter Model.CRC.
Import ListNotations.
Local Open Scope string_scope.
Local Open Scope Z_scope.

(* ---------------------------------------------------------------- the pieces of the translated routine *)
Definition crc_outer_loop : cstmt := nth 2 body_libwifi_crc32 (SOther "").
Definition crc_outer_cond : cexpr := match crc_outer_loop with SLoop _ _ c _ _ => c | _ => CUnknown end.
Definition crc_outer_body : list cstmt := match crc_outer_loop with SLoop _ _ _ b _ => b | _ => [] end.
Definition crc_inner_loop : cstmt := nth 3 crc_outer_body (SOther "").
Definition crc_inner_cond : cexpr := match crc_inner_loop with SLoop _ _ c _ _ => c | _ => CUnknown end.
Definition crc_inner_body : list cstmt := match crc_inner_loop with SLoop _ _ _ b _ => b | _ => [] end.
Definition crc_inner_step : list cstmt := match crc_inner_loop with SLoop _ _ _ _ s => s | _ => [] end.

Lemma crc_inner_loop_eq : crc_inner_loop = SLoop "loop#1" true crc_inner_cond crc_inner_body crc_inner_step.
Proof. reflexivity. Qed.
Lemma crc_outer_loop_eq : crc_outer_loop = SLoop "loop#0" true crc_outer_cond crc_outer_body [].
Proof. reflexivity. Qed.
(* the inner body is exactly the two assignments  mask = -(crc & 1);  crc = (crc >> 1) ^ (0xEDB88320 & mask); *)
Lemma crc_inner_body_keys : exists e1 e2, crc_inner_body = [SSet "set:mask#0" "mask" e1; SSet "set:crc#2" "crc" e2].
Proof. repeat eexists. Qed.

(* ---------------------------------------------------------------- facts about the integers involved *)
Lemma lxor_u32 a b : 0 <= a < 4294967296 -> 0 <= b < 4294967296 -> 0 <= Z.lxor a b < 4294967296.
Proof.
  change 4294967296 with (2 ^ 32).
  intros Ha Hb. assert (Hn : 0 <= Z.lxor a b) by (apply Z.lxor_nonneg; lia).
  split; [exact Hn | ].
  destruct (Z.eq_dec (Z.lxor a b) 0) as [E | E]; [rewrite E; reflexivity | ].
  apply Z.log2_lt_pow2; [lia | ].
  eapply Z.le_lt_trans; [apply Z.log2_lxor; lia | ].
  apply Z.max_lub_lt.
  - destruct (Z.eq_dec a 0) as [Ea | Ea]; [rewrite Ea; reflexivity | apply Z.log2_lt_pow2; lia].
  - destruct (Z.eq_dec b 0) as [Eb | Eb]; [rewrite Eb; reflexivity | apply Z.log2_lt_pow2; lia].
Qed.

Lemma crc_shift_range c : 0 <= c < 4294967296 -> 0 <= crc_shift c < 4294967296.
Proof.
  intros Hc. unfold crc_shift. apply lxor_u32.
  - rewrite Z.shiftr_div_pow2 by lia. change (2 ^ 1) with 2.
    split; [apply Z.div_pos; lia | apply Z.div_lt_upper_bound; lia].
  - destruct (Z.odd c); unfold crc_poly; lia.
Qed.

Lemma crc_shifts_range n : forall c, 0 <= c < 4294967296 -> 0 <= crc_shifts n c < 4294967296.
Proof. induction n as [ | n IH]; intros c Hc; cbn [crc_shifts]; [exact Hc | apply IH, crc_shift_range, Hc]. Qed.

Lemma crc_byte_range c b : 0 <= c < 4294967296 -> 0 <= b < 256 -> 0 <= crc_byte c b < 4294967296.
Proof.
  intros Hc Hb. unfold crc_byte. apply crc_shifts_range. apply lxor_u32; [exact Hc | lia].
Qed.

(* (stated for an abstract f: the kernel must not be asked to compare [crc_byte c b] with anything by unfolding it) *)
Lemma fold_left_cons_eq {A B} (f : A -> B -> A) b l a : fold_left f (b :: l) a = fold_left f l (f a b).
Proof. reflexivity. Qed.

Lemma crc_fold_range : forall msg c, wfbytes msg -> 0 <= c < 4294967296 -> 0 <= fold_left crc_byte msg c < 4294967296.
Proof.
  induction msg as [ | b msg IH]; intros c Hwf Hc; [exact Hc | ].
  rewrite fold_left_cons_eq.
  pose proof (wfbytes_In (b :: msg) b Hwf (or_introl eq_refl)) as Hb.
  apply IH; [ | apply crc_byte_range; assumption].
  unfold wfbytes in *. exact (Forall_inv_tail Hwf).
Qed.

Lemma land_1 c : Z.land c 1 = c mod 2.
Proof. change 1 with (Z.ones 1) at 1. rewrite Z.land_ones by lia. reflexivity. Qed.

(* mask = -(crc & 1) in unsigned int *)
Definition crc_mask (c : Z) : Z := if Z.odd c then 4294967295 else 0.
Lemma neg_land_1 c : (- Z.land c 1) mod 4294967296 = crc_mask c.
Proof. rewrite land_1, Zmod_odd. unfold crc_mask. destruct (Z.odd c); reflexivity. Qed.
Lemma land_poly_mask c : Z.land 3988292384 (crc_mask c) = if Z.odd c then crc_poly else 0.
Proof. unfold crc_mask. destruct (Z.odd c); reflexivity. Qed.
Lemma crc_mask_range c : 0 <= crc_mask c < 4294967296.
Proof. unfold crc_mask. destruct (Z.odd c); lia. Qed.

(* ~crc in unsigned int is crc ^ 0xFFFFFFFF *)
Lemma lnot_u32 c : 0 <= c < 4294967296 -> Z.lnot c mod 4294967296 = Z.lxor c 4294967295.
Proof.
  change 4294967296 with (2 ^ 32).
  intros Hc. change 4294967295 with (Z.ones 32).
  apply Z.bits_inj'. intros n Hn.
  rewrite Z.lxor_spec.
  destruct (Z_lt_le_dec n 32) as [Hlo | Hhi].
  - rewrite Z.mod_pow2_bits_low by lia. rewrite Z.lnot_spec by lia.
    rewrite Z.ones_spec_low by lia. destruct (Z.testbit c n); reflexivity.
  - rewrite Z.mod_pow2_bits_high by lia. rewrite Z.ones_spec_high by lia.
    replace (Z.testbit c n) with false; [reflexivity | ].
    symmetry. rewrite <- (Z.mod_small c (2 ^ 32)) by exact Hc. apply Z.mod_pow2_bits_high. lia.
Qed.

Lemma arith_u32 v : arith (mkty false 32) v = Some (v mod 4294967296).
Proof. reflexivity. Qed.
Lemma wrap_u32_mod v : wrap (mkty false 32) v = v mod 4294967296.
Proof. reflexivity. Qed.

(* ---------------------------------------------------------------- 1. one turn of the inner loop *)
Theorem code_crc_shift f m rho tr crc :
  0 <= crc < 2 ^ 32 -> rho "crc" = crc -> (3 <= f)%nat ->
  exec f m rho tr crc_inner_body = Fell (upd (upd rho "mask" (crc_mask crc)) "crc" (crc_shift crc)) tr.
Proof.
  intros Hc Hrho Hf. destruct f as [ | [ | [ | f]]]; try lia.
  change (2 ^ 32) with 4294967296 in *.
  unfold crc_inner_body, crc_inner_loop, crc_outer_body, crc_outer_loop, body_libwifi_crc32. cbn [nth].
  pose proof (crc_mask_range crc) as Hm.
  erewrite exec_set with (v := crc_mask crc).
  2:{ ceval_unfold. rewrite Hrho. wrap_ids. rewrite land_1.
      rewrite (wrap_u32_id (crc mod 2)) by (pose proof (Z.mod_pos_bound crc 2); lia).
      rewrite arith_u32. rewrite <- land_1, neg_land_1. wrap_ids. reflexivity. }
  erewrite exec_set with (v := crc_shift crc).
  2:{ ceval_unfold. rewrite Hrho. wrap_ids.
      change ((1 <? 0) || (32 <=? 1)) with false. cbv beta iota.
      rewrite land_poly_mask.
      rewrite (wrap_u32_id (if Z.odd crc then crc_poly else 0)) by (destruct (Z.odd crc); unfold crc_poly; lia).
      change (Z.lxor (Z.shiftr crc 1) (if Z.odd crc then crc_poly else 0)) with (crc_shift crc).
      pose proof (crc_shift_range crc Hc) as Hs. wrap_ids. reflexivity. }
  reflexivity.
Qed.

(* ---------------------------------------------------------------- 2. the inner loop and the body of the outer loop *)
Lemma upd_other rho x v y : y <> x -> upd rho x v y = rho y.
Proof. intros H. unfold upd. destruct (String.eqb_spec y x); [contradiction | reflexivity]. Qed.

Lemma exec_nil_ge f m rho tr : (1 <= f)%nat -> exec f m rho tr [] = Fell rho tr.
Proof. intros H. destruct f; [lia | reflexivity]. Qed.

(* for (...; j >= 0; j--) with n turns left, that is j = n - 1: n shifts, and j, mask, crc are the only names assigned *)
Lemma code_crc_inner_loop m tr r : forall n f rho c,
  0 <= c < 4294967296 -> rho "crc" = c -> rho "j" = Z.of_nat n - 1 -> (n <= 8)%nat ->
  exists rho', exec (S (S (S (S (n + f))))) m rho tr (crc_inner_loop :: r) = exec (S (S (S f))) m rho' tr r
     /\ rho' "crc" = crc_shifts n c
     /\ (forall x, x <> "crc" -> x <> "mask" -> x <> "j" -> rho' x = rho x).
Proof.
  induction n as [ | n IH]; intros f rho c Hc Hcrc Hj Hn.
  - exists rho. split; [ | split; [exact Hcrc | reflexivity]].
    rewrite crc_inner_loop_eq. cbn [Nat.add]. apply exec_loop_exit.
    unfold crc_inner_cond, crc_inner_loop, crc_outer_body, crc_outer_loop, body_libwifi_crc32. cbn [nth].
    ceval_unfold. rewrite Hj. wrap_ids. reflexivity.
  - rewrite crc_inner_loop_eq. cbn [Nat.add].
    erewrite exec_loop_enter with (v := 1); [ | | discriminate].
    2:{ unfold crc_inner_cond, crc_inner_loop, crc_outer_body, crc_outer_loop, body_libwifi_crc32. cbn [nth].
        ceval_unfold. rewrite Hj. wrap_ids.
        destruct (Z.geb_spec (Z.of_nat (S n) - 1) 0); [reflexivity | lia]. }
    rewrite (code_crc_shift _ m rho tr c Hc Hcrc) by lia. cbv beta iota.
    unfold crc_inner_step at 1. unfold crc_inner_loop, crc_outer_body, crc_outer_loop, body_libwifi_crc32. cbn [nth].
    erewrite exec_set.
    2:{ ceval_unfold. rewrite Hj. wrap_ids. reflexivity. }
    rewrite exec_nil.
    change (SLoop "loop#1" true crc_inner_cond crc_inner_body crc_inner_step) with crc_inner_loop.
    match goal with |- context [exec _ m ?rho1 tr (crc_inner_loop :: r)] =>
      destruct (IH f rho1 (crc_shift c)) as (rho' & He & Hc' & Hfr) end.
    + apply crc_shift_range; exact Hc.
    + reflexivity.
    + cbv beta iota zeta delta [upd String.eqb Ascii.eqb Bool.eqb]. lia.
    + lia.
    + exists rho'. split; [exact He | ]. split; [exact Hc' | ].
      intros x H1 H2 H3. rewrite (Hfr x H1 H2 H3). rewrite !upd_other by assumption. reflexivity.
Qed.

Definition crc_set_byte : cstmt := nth 0 crc_outer_body (SOther "").
Definition crc_xor_byte : cstmt := nth 1 crc_outer_body (SOther "").
Definition crc_set_j : cstmt := nth 2 crc_outer_body (SOther "").
Definition crc_incr_i : cstmt := nth 4 crc_outer_body (SOther "").
Lemma crc_outer_body_list : crc_outer_body = [crc_set_byte; crc_xor_byte; crc_set_j; crc_inner_loop; crc_incr_i].
Proof. reflexivity. Qed.

Lemma crc_byte_eq c b : crc_byte c b = crc_shifts 8 (Z.lxor c b).
Proof. reflexivity. Qed.

(* byte = message[i]; crc = crc ^ byte; for (j = 7; j >= 0; j--) {...}; i = i + 1;   with the octet b readable at message + i *)
Theorem code_crc_byte f m rho tr start i c b :
  0 <= c < 2 ^ 32 -> 0 <= b < 256 -> 0 <= start -> 0 <= i -> start + i < 2 ^ 62 -> i + 1 < 2 ^ 31 ->
  m (start + i) = Some b ->
  rho "message" = start -> rho "i" = i -> rho "crc" = c ->
  (15 <= f)%nat ->
  exists rho', exec f m rho tr crc_outer_body = Fell rho' tr
     /\ rho' "crc" = crc_byte c b /\ rho' "i" = i + 1
     /\ (forall x, x <> "crc" -> x <> "mask" -> x <> "j" -> x <> "byte" -> x <> "i" -> rho' x = rho x).
Proof.
  intros Hc Hb Hs Hi Hend Hi1 Hm Hmsg Hri Hcrc Hf.
  change (2 ^ 32) with 4294967296 in *. change (2 ^ 62) with 4611686018427387904 in *. change (2 ^ 31) with 2147483648 in *.
  replace f with (15 + (f - 15))%nat by lia. generalize (f - 15)%nat as g. clear f Hf. intros g. cbn [Nat.add].
  rewrite crc_outer_body_list.
  unfold crc_set_byte, crc_xor_byte, crc_set_j, crc_incr_i, crc_outer_body, crc_outer_loop, body_libwifi_crc32. cbn [nth].
  assert (Hld : load_le m (start + i) (Z.to_nat (8 / 8)) = Some b).
  { change (Z.to_nat (8 / 8)) with 1%nat. cbn [load_le]. rewrite Hm. f_equal. lia. }
  pose proof (lxor_u32 c b Hc ltac:(lia)) as Hx.
  erewrite exec_set with (v := b).
  2:{ ceval_unfold. rewrite Hmsg, Hri. wrap_ids. cbv beta iota. rewrite Hld. wrap_ids. reflexivity. }
  erewrite exec_set with (v := Z.lxor c b).
  2:{ ceval_unfold. rewrite Hcrc. wrap_ids. reflexivity. }
  erewrite exec_set with (v := 7).
  2:{ ceval_now. }
  match goal with |- context [exec _ m ?rho3 tr (crc_inner_loop :: ?r)] =>
    destruct (code_crc_inner_loop m tr r 8 g rho3 (Z.lxor c b)) as (rho' & He & Hc' & Hfr) end.
  - exact Hx.
  - reflexivity.
  - reflexivity.
  - lia.
  - cbn [Nat.add] in He. rewrite He. clear He.
    assert (Hi' : rho' "i" = i).
    { rewrite Hfr by discriminate. cbv beta iota zeta delta [upd String.eqb Ascii.eqb Bool.eqb]. exact Hri. }
    erewrite exec_set with (v := i + 1).
    2:{ ceval_unfold. rewrite Hi'. wrap_ids. reflexivity. }
    rewrite exec_nil. eexists. split; [reflexivity | ]. split; [ | split].
    + rewrite upd_other by discriminate. rewrite Hc'. symmetry. apply crc_byte_eq.
    + reflexivity.
    + intros x H1 H2 H3 H4 H5. rewrite upd_other by assumption. rewrite (Hfr x H1 H2 H3).
      rewrite !upd_other by assumption. reflexivity.
Qed.

(* ---------------------------------------------------------------- 3. the whole routine *)
Definition crc_set_i0 : cstmt := nth 0 body_libwifi_crc32 (SOther "").
Definition crc_set_crc0 : cstmt := nth 1 body_libwifi_crc32 (SOther "").
Definition crc_ret : cstmt := nth 3 body_libwifi_crc32 (SOther "").
Lemma crc_body_list : body_libwifi_crc32 = [crc_set_i0; crc_set_crc0; crc_outer_loop; crc_ret].
Proof. reflexivity. Qed.

(* while (i < message_len) with n octets still to read, i = k: one unit of fuel per octet (the body runs on what is left,
   which must be at least 15), one for the failing test *)
Lemma code_crc_outer_loop msg start tr r :
  wfbytes msg -> 0 < start -> start + zlen msg < 2 ^ 62 -> zlen msg < 2 ^ 31 ->
  forall n k f rho c, (k + n = length msg)%nat -> 0 <= c < 4294967296 ->
    rho "message" = start -> rho "message_len" = zlen msg -> rho "i" = Z.of_nat k -> rho "crc" = c ->
    exists rho', exec (n + f + 16) (mem_at start msg) rho tr (crc_outer_loop :: r) = exec (f + 15) (mem_at start msg) rho' tr r
      /\ rho' "crc" = fold_left crc_byte (skipn k msg) c.
Proof.
  intros Hwf Hs Hend Hlen.
  change (2 ^ 62) with 4611686018427387904 in *. change (2 ^ 31) with 2147483648 in *.
  induction n as [ | n IH]; intros k f rho c Hk Hc Hmsg Hml Hi Hcrc.
  - exists rho. split.
    + cbn [Nat.add]. replace (f + 16)%nat with (S (f + 15)) by lia.
      rewrite crc_outer_loop_eq. apply exec_loop_exit.
      unfold crc_outer_cond, crc_outer_loop, body_libwifi_crc32. cbn [nth].
      ceval_unfold. rewrite Hi, Hml. unfold zlen in *. wrap_ids.
      destruct (Z.ltb_spec (Z.of_nat k) (Z.of_nat (length msg))); [lia | reflexivity].
    + replace k with (length msg) by lia. rewrite skipn_all. exact Hcrc.
  - cbn [Nat.add]. rewrite crc_outer_loop_eq.
    assert (Hkz : 0 <= Z.of_nat k < zlen msg) by (unfold zlen; lia).
    pose proof (wfbytes_znth msg (Z.of_nat k) Hwf Hkz) as Hb.
    erewrite exec_loop_enter with (v := 1); [ | | discriminate].
    2:{ unfold crc_outer_cond, crc_outer_loop, body_libwifi_crc32. cbn [nth].
        ceval_unfold. rewrite Hi, Hml. wrap_ids.
        destruct (Z.ltb_spec (Z.of_nat k) (zlen msg)); [reflexivity | lia]. }
    destruct (code_crc_byte (n + f + 16) (mem_at start msg) rho tr start (Z.of_nat k) c (znth msg (Z.of_nat k)))
      as (rho1 & He & Hc1 & Hi1 & Hfr); try assumption; try lia.
    { apply mem_at_in. exact Hkz. }
    rewrite He. cbv beta iota. rewrite exec_nil_ge by lia.
    rewrite <- crc_outer_loop_eq.
    destruct (IH (S k) f rho1 (crc_byte c (znth msg (Z.of_nat k)))) as (rho' & He' & Hc').
    + lia.
    + apply crc_byte_range; assumption.
    + rewrite Hfr by discriminate. exact Hmsg.
    + rewrite Hfr by discriminate. exact Hml.
    + rewrite Hi1. lia.
    + exact Hc1.
    + exists rho'. split; [exact He' | ]. rewrite Hc'.
      pose proof (skipn_cons_znth msg (Z.of_nat k) Hkz) as Hsk.
      rewrite Nat2Z.id in Hsk. replace (Z.to_nat (Z.of_nat k + 1)) with (S k) in Hsk by lia.
      rewrite Hsk. rewrite fold_left_cons_eq. reflexivity.
Qed.

Theorem code_crc32_refines msg start rho :
  wfbytes msg -> 0 < start -> start + zlen msg < 2 ^ 62 -> zlen msg < 2 ^ 31 ->
  observe (exec (60 * length msg + 60) (mem_at start msg) (upd (upd rho "message" start) "message_len" (zlen msg)) []
                body_libwifi_crc32) = Some (Some (crc32_list msg), []).
Proof.
  intros Hwf Hs Hend Hlen.
  replace (60 * length msg + 60)%nat with (S (S (length msg + (59 * length msg + 42) + 16))) by lia.
  rewrite crc_body_list. unfold crc_set_i0, crc_set_crc0, crc_ret, body_libwifi_crc32. cbn [nth].
  erewrite exec_set with (v := 0) by ceval_now.
  erewrite exec_set with (v := 4294967295) by ceval_now.
  match goal with |- context [exec _ _ ?rho2 [] (crc_outer_loop :: ?r)] =>
    destruct (code_crc_outer_loop msg start [] r Hwf Hs Hend Hlen (length msg) 0%nat (59 * length msg + 42)%nat rho2 4294967295)
      as (rho' & He & Hc') end; try reflexivity; try lia.
  rewrite He. clear He. cbn [skipn] in Hc'.
  pose proof (crc_fold_range msg 4294967295 Hwf ltac:(lia)) as Hr.
  replace (59 * length msg + 42 + 15)%nat with (S (59 * length msg + 56)) by lia.
  erewrite exec_ret with (v := Z.lxor (fold_left crc_byte msg 4294967295) 4294967295).
  2:{ ceval_unfold. rewrite Hc'. wrap_ids. rewrite wrap_u32_mod. rewrite lnot_u32 by exact Hr. reflexivity. }
  reflexivity.
Qed.

(* ---------------------------------------------------------------- 4. nothing is read when the length is not positive *)
Theorem code_crc32_nonpositive_length_mem m start n rho :
  - 2 ^ 31 <= n <= 0 ->
  observe (exec 10 m (upd (upd rho "message" start) "message_len" n) [] body_libwifi_crc32) = Some (Some 0, []).
Proof.
  intros Hn. change (2 ^ 31) with 2147483648 in *.
  rewrite crc_body_list. unfold crc_set_i0, crc_set_crc0, crc_ret, body_libwifi_crc32. cbn [nth].
  erewrite exec_set with (v := 0) by ceval_now.
  erewrite exec_set with (v := 4294967295) by ceval_now.
  rewrite crc_outer_loop_eq. rewrite exec_loop_exit.
  2:{ unfold crc_outer_cond, crc_outer_loop, body_libwifi_crc32. cbn [nth].
      ceval_unfold. wrap_ids. destruct (Z.ltb_spec 0 n); [lia | reflexivity]. }
  erewrite exec_ret with (v := 0) by (ceval_unfold; wrap_ids; reflexivity).
  reflexivity.
Qed.

Theorem code_crc32_nonpositive_length start n rho :
  - 2 ^ 31 <= n <= 0 ->
  observe (exec 10 (fun _ => None) (upd (upd rho "message" start) "message_len" n) [] body_libwifi_crc32) = Some (Some 0, []).
Proof. apply code_crc32_nonpositive_length_mem. Qed.

(* the value returned then is the model's CRC of the empty message *)
Lemma crc32_list_nil : crc32_list [] = 0.
Proof. reflexivity. Qed.

(* not vacuous, and the translated routine is CRC-32: the check value of "123456789" is 0xCBF43926 *)
Example code_crc32_check_value :
  let msg := [49; 50; 51; 52; 53; 54; 55; 56; 57] in
  observe (exec (60 * length msg + 60) (mem_at 4096 msg) (upd (upd (fun _ => 0) "message" 4096) "message_len" (zlen msg)) []
                body_libwifi_crc32) = Some (Some 3421780262, [])
  /\ crc32_list msg = 3421780262.
Proof. split; vm_compute; reflexivity. Qed.

Print Assumptions code_crc_shift.
Print Assumptions code_crc_byte.
Print Assumptions code_crc32_refines.
Print Assumptions code_crc32_nonpositive_length_mem.
Print Assumptions code_crc32_nonpositive_length.
