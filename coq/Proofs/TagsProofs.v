(* Proofs for C05: the tag-list editing functions (Model/Tags.v) keep the stored bytes a well-formed
   encoding and refine the reference list operations of Spec.TagSpec. *)
From Coq Require Import List ZArith Lia Bool.
From LW Require Import Base.Bytes Model.TagIter Spec.TagSpec Model.Tags Gen.Consts Gen.Layout
  Proofs.TagIterProofs.
Import ListNotations.
Local Open Scope Z_scope.

(* restated verbatim from Properties_C05.v (that file cannot be imported here) *)
Definition Inv (s : tags) : Prop :=
  exists l, wf_tags l /\ t_bytes s = enc l /\ t_len s = zlen (t_bytes s).
Definition wf_op (o : tag_op) : Prop :=
  match o with
  | OpAdd n b => wf_tag (n, b)
  | OpSetSsid b => wf_tag (c_TAG_SSID, b)
  | OpSetChannel c => 0 <= c < 256
  | OpRemove _ | OpCheck _ => True
  end.

(* ---------- list algebra ---------- *)
Lemma to_nat_zlen {A} (l : list A) : Z.to_nat (zlen l) = length l.
Proof. unfold zlen. apply Nat2Z.id. Qed.
Lemma skipn_zlen_app {A} (a b : list A) : skipn (Z.to_nat (zlen a)) (a ++ b) = b.
Proof.
  rewrite to_nat_zlen. rewrite skipn_app, skipn_all, Nat.sub_diag. reflexivity.
Qed.
Lemma firstn_zlen_app {A} (a b : list A) : firstn (Z.to_nat (zlen a)) (a ++ b) = a.
Proof.
  rewrite to_nat_zlen. rewrite firstn_app, firstn_all, Nat.sub_diag. cbn [firstn]. apply app_nil_r.
Qed.
Lemma firstn_zlen {A} (a : list A) : firstn (Z.to_nat (zlen a)) a = a.
Proof. rewrite to_nat_zlen. apply firstn_all. Qed.

Lemma app_inj_len {A} : forall (a b c d : list A), length a = length b ->
  a ++ c = b ++ d -> a = b /\ c = d.
Proof.
  induction a as [|x a IH]; intros [|y b] c d Hl E; cbn in *; try discriminate.
  - auto.
  - injection E as E1 E2. destruct (IH b c d ltac:(lia) E2) as [H1 H2]. subst. auto.
Qed.

(* ---------- the encoding ---------- *)
Lemma enc_cons t r : enc (t :: r) = fst t :: zlen (snd t) :: snd t ++ enc r.
Proof. reflexivity. Qed.
Lemma enc_cons1 t r : enc (t :: r) = enc1 t ++ enc r.
Proof. reflexivity. Qed.
Lemma enc_app a b : enc (a ++ b) = enc a ++ enc b.
Proof. unfold enc. apply flat_map_app. Qed.
Lemma zlen_enc1 t : zlen (enc1 t) = 2 + zlen (snd t).
Proof. unfold enc1. rewrite !zlen_cons. lia. Qed.
Lemma enc_single n b : enc [(n, b)] = [n; zlen b] ++ b.
Proof. rewrite enc_cons. cbn [fst snd enc flat_map app]. rewrite app_nil_r. reflexivity. Qed.

Lemma enc_wf l : wf_tags l -> wfbytes (enc l).
Proof.
  induction l as [|t r IH]; intros H.
  - constructor.
  - inversion H as [|? ? Ht Hr]; subst. destruct Ht as (H1 & H2 & H3).
    rewrite enc_cons. constructor; [exact H1|]. constructor.
    + pose proof (zlen_nonneg (snd t)). lia.
    + apply wfbytes_app; auto.
Qed.

Lemma enc_inj : forall l1 l2, wf_tags l1 -> wf_tags l2 -> enc l1 = enc l2 -> l1 = l2.
Proof.
  induction l1 as [|t1 r1 IH]; intros [|t2 r2] H1 H2 E.
  - reflexivity.
  - rewrite enc_cons in E. discriminate.
  - rewrite enc_cons in E. discriminate.
  - rewrite !enc_cons in E. injection E as Ef El Eb.
    assert (Hlen : length (snd t1) = length (snd t2)) by (unfold zlen in El; lia).
    destruct (app_inj_len (snd t1) (snd t2) (enc r1) (enc r2) Hlen Eb) as [Es Er].
    inversion H1; inversion H2; subst.
    f_equal.
    + destruct t1, t2; cbn [fst snd] in *; subst; reflexivity.
    + apply IH; assumption.
Qed.

(* ---------- what the spec sees on an encoding ---------- *)
Fixpoint elems_of (l : list tag) (off : Z) : list elem :=
  match l with
  | [] => []
  | t :: r => {| e_off := off; e_num := fst t; e_len := zlen (snd t) |}
              :: elems_of r (off + 2 + zlen (snd t))
  end.

Lemma chain_enc : forall l cf off, (length (enc l) < cf)%nat -> chain cf (enc l) off = elems_of l off.
Proof.
  induction l as [|t r IH]; intros cf off Hf.
  - destruct cf; reflexivity.
  - destruct cf as [|cf]; [lia|].
    rewrite enc_cons in *. cbn [chain elems_of].
    pose proof (zlen_nonneg (enc r)) as Hr.
    destruct (zlen (snd t ++ enc r) <? zlen (snd t)) eqn:C.
    + apply Z.ltb_lt in C. rewrite zlen_app in C. lia.
    + rewrite skipn_zlen_app. rewrite IH; [reflexivity|].
      cbn [length] in Hf. rewrite app_length in Hf. lia.
Qed.

Lemma elements_enc l : elements (enc l) = elems_of l 0.
Proof. unfold elements. apply chain_enc. lia. Qed.

(* the iterator reports every element of an encoding, empty ones included (finding F44) *)
Lemma reported_enc l : reported (enc l) = elems_of l 0.
Proof. rewrite reported_all. apply elements_enc. Qed.

(* the element found in a prefix of the elements is the first one carrying that number *)
Lemma find_prefix : forall l pre tl off n e,
  elems_of l off = pre ++ tl -> find_num n pre = Some e ->
  exists a t b, l = a ++ t :: b /\ e_off e = off + zlen (enc a) /\ e_len e = zlen (snd t) /\
                remove_first n l = a ++ b.
Proof.
  induction l as [|t r IH]; intros pre tl off n e Hp Hf.
  - cbn [elems_of] in Hp. destruct pre; [discriminate Hf | discriminate Hp].
  - destruct pre as [|x pre]; [discriminate Hf|].
    cbn [elems_of app] in Hp. injection Hp as Hx Hp.
    cbn [find_num] in Hf. cbn [remove_first]. subst x. cbn [e_num] in Hf.
    destruct (fst t =? n) eqn:C.
    + injection Hf as Hf. subst e. exists [], t, r. cbn [app e_off e_len enc flat_map].
      rewrite zlen_nil. repeat split; lia.
    + destruct (IH pre tl _ n e Hp Hf) as (a & t' & b & Hl & Ho & Hlen & Hr).
      exists (t :: a), t', b. rewrite Hl. cbn [app]. repeat split.
      * rewrite Ho. rewrite (enc_cons1 t a), zlen_app, zlen_enc1. lia.
      * exact Hlen.
      * rewrite <- Hl, Hr. reflexivity.
Qed.

Lemma find_none : forall l off n, find_num n (elems_of l off) = None -> remove_first n l = l.
Proof.
  induction l as [|t r IH]; intros off n H; [reflexivity|].
  cbn [elems_of find_num e_num] in H. cbn [remove_first].
  destruct (fst t =? n); [discriminate|]. f_equal. eapply IH; eauto.
Qed.

Lemma count_elems_of : forall l off n,
  zlen (filter (fun e => e_num e =? n) (elems_of l off)) = count_num n l.
Proof.
  unfold count_num. induction l as [|t r IH]; intros off n; [reflexivity|].
  cbn [elems_of filter e_num]. destruct (fst t =? n); rewrite ?zlen_cons, IH; reflexivity.
Qed.

(* ---------- the model functions on an encoding ---------- *)
Lemma iter_of_enc s l : wf_tags l -> t_bytes s = enc l -> t_len s = zlen (enc l) ->
  iter_of s = Done (match l with [] => Err (- EINVAL) | _ => Ok (elems_of l 0) end).
Proof.
  intros Hwf Hb Hl. unfold iter_of. rewrite Hl, Hb.
  rewrite (iterate_exact (enc l) (rd_strict (enc l)) (enc_wf l Hwf) (agrees_strict (enc l))).
  unfold spec_iterate. rewrite reported_enc, elements_enc. destruct l; reflexivity.
Qed.

Lemma quick_add_enc s l n b : wf_tag (n, b) -> t_bytes s = enc l -> t_len s = zlen (enc l) ->
  exists s', quick_add_tag s n b = (s', 0) /\
             t_bytes s' = enc (l ++ [(n, b)]) /\ t_len s' = zlen (enc (l ++ [(n, b)])).
Proof.
  intros (H1 & H2 & H3) Hb Hl. cbn [fst snd] in *.
  unfold quick_add_tag, add_tag. eexists. split; [reflexivity|].
  pose proof (zlen_nonneg b) as Hb0.
  cbn [t_bytes t_len]. rewrite !Z.mod_small by lia.
  unfold zfirstn. rewrite firstn_zlen. rewrite enc_app, enc_single, Hb, Hl.
  split; [reflexivity|].
  change sizeof_libwifi_tag_header with 2.
  rewrite !zlen_app, !zlen_cons, zlen_nil. lia.
Qed.

Lemma remove_alg a t b :
  zfirstn (zlen (enc a)) (enc (a ++ t :: b)) ++
  slice (zlen (enc a) + (zlen (snd t) + sizeof_libwifi_tag_header))
        (zlen (enc (a ++ t :: b)) - zlen (enc a) - (zlen (snd t) + sizeof_libwifi_tag_header))
        (enc (a ++ t :: b)) = enc (a ++ b) /\
  zlen (enc (a ++ t :: b)) - (zlen (snd t) + sizeof_libwifi_tag_header) = zlen (enc (a ++ b)).
Proof.
  change sizeof_libwifi_tag_header with 2.
  rewrite !enc_app, enc_cons1. rewrite !zlen_app, zlen_enc1.
  split; [|lia].
  unfold zfirstn, slice, zfirstn, zskipn. rewrite firstn_zlen_app. f_equal.
  replace (zlen (enc a) + (zlen (snd t) + 2)) with (zlen (enc a ++ enc1 t))
    by (rewrite zlen_app, zlen_enc1; lia).
  replace (enc a ++ enc1 t ++ enc b) with ((enc a ++ enc1 t) ++ enc b) by (rewrite app_assoc; reflexivity).
  rewrite skipn_zlen_app.
  replace (zlen (enc a) + (2 + zlen (snd t) + zlen (enc b)) - zlen (enc a) - (zlen (snd t) + 2))
    with (zlen (enc b)) by lia.
  apply firstn_zlen.
Qed.

Lemma zlen_enc_0 l : zlen (enc l) = 0 -> l = [].
Proof.
  destruct l as [|t r]; [reflexivity|]. rewrite enc_cons1, zlen_app, zlen_enc1.
  pose proof (zlen_nonneg (snd t)). pose proof (zlen_nonneg (enc r)). lia.
Qed.
Lemma zlen_enc_pos t r : (zlen (enc (t :: r)) =? 0) = false.
Proof.
  apply Z.eqb_neq. intros H. apply zlen_enc_0 in H. discriminate.
Qed.

Lemma wf_tags_snoc l t : wf_tags l -> wf_tag t -> wf_tags (l ++ [t]).
Proof. intros H1 H2. apply Forall_app. split; [exact H1 | constructor; [exact H2 | constructor]]. Qed.
Lemma wf_remove_first n : forall l, wf_tags l -> wf_tags (remove_first n l).
Proof.
  induction l as [|t r IH]; intros H; [exact H|].
  inversion H; subst. cbn [remove_first]. destruct (fst t =? n); [assumption|].
  constructor; [assumption | apply IH; assumption].
Qed.
Lemma wf_spec_set l num data : wf_tags l -> wf_tag (num, data) -> wf_tags (spec_set l num data).
Proof. intros H1 H2. apply wf_tags_snoc; [apply wf_remove_first; exact H1 | exact H2]. Qed.

(* removal on an encoding is the reference removal, for every list (the empty one included: finding F50) and
   whatever the lengths of its elements (finding F44); the return value is always 0 *)
Lemma remove_tag_enc s l n : wf_tags l -> t_bytes s = enc l -> t_len s = zlen (enc l) ->
  exists s', remove_tag s n = Done (s', 0) /\
    t_bytes s' = enc (remove_first n l) /\ t_len s' = zlen (enc (remove_first n l)).
Proof.
  intros Hwf Hb Hl. unfold remove_tag.
  destruct (t_len s =? 0) eqn:C.
  - apply Z.eqb_eq in C. rewrite Hl in C. apply zlen_enc_0 in C. subst l. exists s. auto.
  - assert (Hne : l <> []) by (intros E; rewrite Hl, E in C; discriminate C).
    rewrite (iter_of_enc s l Hwf Hb Hl).
    destruct l as [|t0 r0] eqn:EL; [contradiction|]. rewrite <- EL in *. cbn [bind].
    destruct (find_num n (elems_of l 0)) as [e|] eqn:F.
    + destruct (find_prefix l _ [] 0 n e (eq_sym (app_nil_r _)) F) as (a & t & b & Hlab & Ho & Hlen & Hr).
      rewrite Z.add_0_l in Ho.
      destruct (remove_alg a t b) as [A1 A2].
      eexists. split; [reflexivity|]. cbn [t_bytes t_len].
      rewrite Hr, Hb, Hl, Ho, Hlen, Hlab. split; [exact A1 | exact A2].
    + exists s. rewrite (find_none l 0 n F). auto.
Qed.

(* counting on an encoding is the reference count, for every list *)
Lemma check_tag_enc s l n : wf_tags l -> t_bytes s = enc l -> t_len s = zlen (enc l) ->
  check_tag s n = Done (count_num n l).
Proof.
  intros Hwf Hb Hl. unfold check_tag.
  destruct (t_len s =? 0) eqn:C.
  - apply Z.eqb_eq in C. rewrite Hl in C. apply zlen_enc_0 in C. subst l. reflexivity.
  - assert (Hne : l <> []) by (intros E; rewrite Hl, E in C; discriminate C).
    rewrite (iter_of_enc s l Hwf Hb Hl).
    destruct l as [|t0 r0] eqn:EL; [contradiction|]. rewrite <- EL in *. cbn [bind].
    rewrite count_elems_of. reflexivity.
Qed.

Lemma count_num_cons t r n :
  count_num n (t :: r) = (if fst t =? n then 1 else 0) + count_num n r.
Proof.
  unfold count_num. cbn [filter]. destruct (fst t =? n); [rewrite zlen_cons|]; reflexivity.
Qed.
Lemma count_num_nonneg n l : 0 <= count_num n l.
Proof. apply zlen_nonneg. Qed.

(* the count is a count *)
Lemma check_tag_nonneg s l n c : wf_tags l -> t_bytes s = enc l -> t_len s = zlen (enc l) ->
  check_tag s n = Done c -> 0 <= c.
Proof.
  intros Hwf Hb Hl. rewrite (check_tag_enc s l n Hwf Hb Hl). intros H. inversion H. apply count_num_nonneg.
Qed.

Lemma count_zero_remove : forall l n, count_num n l = 0 -> remove_first n l = l.
Proof.
  induction l as [|t r IH]; intros n H; [reflexivity|].
  rewrite count_num_cons in H. pose proof (count_num_nonneg n r). cbn [remove_first].
  destruct (fst t =? n); [lia|]. f_equal. apply IH. lia.
Qed.

Lemma remove_first_snoc : forall l n x, 0 < count_num n l ->
  remove_first n (l ++ [x]) = remove_first n l ++ [x].
Proof.
  induction l as [|t r IH]; intros n x H.
  - change (count_num n []) with 0 in H. lia.
  - rewrite count_num_cons in H. cbn [app remove_first].
    destruct (fst t =? n); [reflexivity|]. cbn [app]. f_equal. apply IH. lia.
Qed.

(* the setters: count, add, then remove the first (= old) element when there was one.  They are the reference
   'set' on every list and always return 0 *)
Lemma set_tag_enc s l num data : wf_tags l -> t_bytes s = enc l -> t_len s = zlen (enc l) ->
  wf_tag (num, data) ->
  exists s', set_tag s num data = Done (s', 0) /\
    t_bytes s' = enc (spec_set l num data) /\ t_len s' = zlen (enc (spec_set l num data)).
Proof.
  intros Hwf Hb Hl Ht. unfold set_tag, spec_set.
  destruct (quick_add_enc s l num data Ht Hb Hl) as (s1 & Q & Qb & Ql).
  assert (W1 : wf_tags (l ++ [(num, data)])) by (apply wf_tags_snoc; assumption).
  assert (P : (if t_len s =? 0 then Done 0 else check_tag s num) = Done (count_num num l)).
  { destruct (t_len s =? 0) eqn:C; [|apply check_tag_enc; assumption].
    apply Z.eqb_eq in C. rewrite Hl in C. apply zlen_enc_0 in C. subst l. reflexivity. }
  rewrite P. cbn [bind].
  pose proof (count_num_nonneg num l) as C0.
  replace (count_num num l <? 0) with false by lia. rewrite Q.
  change (negb (0 =? 0)) with false. cbv iota.
  destruct (0 <? count_num num l) eqn:Cp.
  - apply Z.ltb_lt in Cp.
    destruct (remove_tag_enc s1 (l ++ [(num, data)]) num W1 Qb Ql) as (s' & R & B' & L').
    pose proof (remove_first_snoc l num (num, data) Cp) as XX.
    exists s'. split; [exact R|]. split.
    + rewrite B'. apply (f_equal enc). exact XX.
    + rewrite L'. apply (f_equal (fun x => zlen (enc x))). exact XX.
  - apply Z.ltb_ge in Cp.
    exists s1. rewrite count_zero_remove by lia. auto.
Qed.

Lemma wf_channel c : 0 <= c < 256 -> wf_tag (c_TAG_DS_PARAMETER, [c]).
Proof.
  intros H. unfold wf_tag, c_TAG_DS_PARAMETER. cbn [fst snd].
  change (zlen [c]) with 1. repeat split; try lia. constructor; [exact H | constructor].
Qed.

(* one step: total, keeps the encoding shape, and is exactly the reference step (which is total as well) *)
Lemma step_enc s l o : wf_tags l -> t_bytes s = enc l -> t_len s = zlen (enc l) -> wf_op o ->
  exists s' r l', spec_step c_TAG_SSID c_TAG_DS_PARAMETER l o = Some (l', r) /\
    step s o = Done (s', r) /\
    wf_tags l' /\ t_bytes s' = enc l' /\ t_len s' = zlen (enc l').
Proof.
  intros Hwf Hb Hl Ho. destruct o as [n b | n | b | c | n]; cbn [step wf_op spec_step] in *.
  - destruct (quick_add_enc s l n b Ho Hb Hl) as (s' & Q & Qb & Ql).
    rewrite Q. exists s', 0, (l ++ [(n, b)]). repeat split; auto.
    apply wf_tags_snoc; assumption.
  - destruct (remove_tag_enc s l n Hwf Hb Hl) as (s1 & R & B1 & L1).
    rewrite R. exists s1, 0, (remove_first n l). repeat split; auto.
    apply wf_remove_first; assumption.
  - unfold set_ssid.
    destruct (set_tag_enc s l c_TAG_SSID b Hwf Hb Hl Ho) as (s' & S & B & L).
    rewrite S. exists s', 0, (spec_set l c_TAG_SSID b). repeat split; auto.
    apply wf_spec_set; assumption.
  - unfold set_channel.
    destruct (set_tag_enc s l c_TAG_DS_PARAMETER [c] Hwf Hb Hl (wf_channel c Ho)) as (s' & S & B & L).
    rewrite S. exists s', 0, (spec_set l c_TAG_DS_PARAMETER [c]). repeat split; auto.
    apply wf_spec_set; [assumption | apply wf_channel; assumption].
  - rewrite (check_tag_enc s l n Hwf Hb Hl). cbn [bind]. exists s, (count_num n l), l. repeat split; auto.
Qed.

(* the reference step is defined for every list and every operation *)
Lemma spec_step_total : forall l o, exists l' r, spec_step c_TAG_SSID c_TAG_DS_PARAMETER l o = Some (l', r).
Proof. intros l o. destruct o; cbn [spec_step]; eauto. Qed.

(* ---------- the C05 lemmas ---------- *)
Lemma step_refines : forall s l o l' r,
  wf_tags l -> t_bytes s = enc l -> t_len s = zlen (enc l) -> wf_op o ->
  spec_step c_TAG_SSID c_TAG_DS_PARAMETER l o = Some (l', r) ->
  exists s', step s o = Done (s', r) /\ t_bytes s' = enc l' /\ t_len s' = zlen (enc l').
Proof.
  intros s l o l' r Hwf Hb Hl Ho Hs.
  destruct (step_enc s l o Hwf Hb Hl Ho) as (s' & r1 & l1 & Sp & S & W & B & L).
  rewrite Hs in Sp. injection Sp as E1 E2. subst l1 r1. exists s'. auto.
Qed.

(* the same without the escape: EVERY operation on EVERY well-formed list is the reference step *)
Lemma step_refines_total : forall s l o,
  wf_tags l -> t_bytes s = enc l -> t_len s = zlen (enc l) -> wf_op o ->
  exists s' l' r, spec_step c_TAG_SSID c_TAG_DS_PARAMETER l o = Some (l', r) /\
    step s o = Done (s', r) /\ wf_tags l' /\ t_bytes s' = enc l' /\ t_len s' = zlen (enc l').
Proof.
  intros s l o Hwf Hb Hl Ho.
  destruct (step_enc s l o Hwf Hb Hl Ho) as (s' & r & l' & H). exists s', l', r. exact H.
Qed.

Lemma inv_empty : Inv tags_empty.
Proof. exists []. repeat split. constructor. Qed.

Lemma run_inv : forall ops s, Inv s -> Forall wf_op ops -> exists s', run s ops = Done s' /\ Inv s'.
Proof.
  induction ops as [|o ops IH]; intros s HI Hops.
  - exists s. split; [reflexivity | exact HI].
  - inversion Hops as [|? ? Ho Hr]; subst.
    destruct HI as (l & Hwf & Hb & Hl). rewrite Hb in Hl.
    destruct (step_enc s l o Hwf Hb Hl Ho) as (s1 & r1 & l1 & _ & S & W & B & L).
    cbn [run]. rewrite S. cbn [bind].
    apply IH; [|exact Hr]. exists l1. rewrite B. auto.
Qed.
