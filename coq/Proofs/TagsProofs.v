(* Proofs for C05: the tag-list editing functions (Model/Tags.v) keep the stored bytes a well-formed
   encoding and refine the reference list operations of Spec.TagSpec. *)
From Coq Require Import List ZArith Lia Bool.
From LW Require Import Base.Bytes Model.TagIter Spec.TagSpec Model.Tags Gen.Consts Gen.Layout
  Proofs.TagIterProofs.
Import ListNotations.
Local Open Scope Z_scope.

(* restated verbatim from Properties_C05.v (that file cannot be imported here) *)
Definition Inv (s : tags) : Prop :=
  exists l, wf_tags l /\ t_bytes s = enc l /\ t_len s = zlen (t_bytes s).
Definition wf_op (o : tag_op) : Prop :=
  match o with
  | OpAdd n b => wf_tag (n, b)
  | OpSetSsid b => wf_tag (c_TAG_SSID, b)
  | OpSetChannel c => 0 <= c < 256
  | OpRemove _ | OpCheck _ => True
  end.

(* ---------- list algebra ---------- *)
Lemma to_nat_zlen {A} (l : list A) : Z.to_nat (zlen l) = length l.
Proof. unfold zlen. apply Nat2Z.id. Qed.
Lemma skipn_zlen_app {A} (a b : list A) : skipn (Z.to_nat (zlen a)) (a ++ b) = b.
Proof.
  rewrite to_nat_zlen. rewrite skipn_app, skipn_all, Nat.sub_diag. reflexivity.
Qed.
Lemma firstn_zlen_app {A} (a b : list A) : firstn (Z.to_nat (zlen a)) (a ++ b) = a.
Proof.
  rewrite to_nat_zlen. rewrite firstn_app, firstn_all, Nat.sub_diag. cbn [firstn]. apply app_nil_r.
Qed.
Lemma firstn_zlen {A} (a : list A) : firstn (Z.to_nat (zlen a)) a = a.
Proof. rewrite to_nat_zlen. apply firstn_all. Qed.

Lemma app_inj_len {A} : forall (a b c d : list A), length a = length b ->
  a ++ c = b ++ d -> a = b /\ c = d.
Proof.
  induction a as [|x a IH]; intros [|y b] c d Hl E; cbn in *; try discriminate.
  - auto.
  - injection E as E1 E2. destruct (IH b c d ltac:(lia) E2) as [H1 H2]. subst. auto.
Qed.

(* ---------- the encoding ---------- *)
Lemma enc_cons t r : enc (t :: r) = fst t :: zlen (snd t) :: snd t ++ enc r.
Proof. reflexivity. Qed.
Lemma enc_cons1 t r : enc (t :: r) = enc1 t ++ enc r.
Proof. reflexivity. Qed.
Lemma enc_app a b : enc (a ++ b) = enc a ++ enc b.
Proof. unfold enc. apply flat_map_app. Qed.
Lemma zlen_enc1 t : zlen (enc1 t) = 2 + zlen (snd t).
Proof. unfold enc1. rewrite !zlen_cons. lia. Qed.
Lemma enc_single n b : enc [(n, b)] = [n; zlen b] ++ b.
Proof. rewrite enc_cons. cbn [fst snd enc flat_map app]. rewrite app_nil_r. reflexivity. Qed.

Lemma enc_wf l : wf_tags l -> wfbytes (enc l).
Proof.
  induction l as [|t r IH]; intros H.
  - constructor.
  - inversion H as [|? ? Ht Hr]; subst. destruct Ht as (H1 & H2 & H3).
    rewrite enc_cons. constructor; [exact H1|]. constructor.
    + pose proof (zlen_nonneg (snd t)). lia.
    + apply wfbytes_app; auto.
Qed.

Lemma enc_inj : forall l1 l2, wf_tags l1 -> wf_tags l2 -> enc l1 = enc l2 -> l1 = l2.
Proof.
  induction l1 as [|t1 r1 IH]; intros [|t2 r2] H1 H2 E.
  - reflexivity.
  - rewrite enc_cons in E. discriminate.
  - rewrite enc_cons in E. discriminate.
  - rewrite !enc_cons in E. injection E as Ef El Eb.
    assert (Hlen : length (snd t1) = length (snd t2)) by (unfold zlen in El; lia).
    destruct (app_inj_len (snd t1) (snd t2) (enc r1) (enc r2) Hlen Eb) as [Es Er].
    inversion H1; inversion H2; subst.
    f_equal.
    + destruct t1, t2; cbn [fst snd] in *; subst; reflexivity.
    + apply IH; assumption.
Qed.

(* ---------- what the spec sees on an encoding ---------- *)
Fixpoint elems_of (l : list tag) (off : Z) : list elem :=
  match l with
  | [] => []
  | t :: r => {| e_off := off; e_num := fst t; e_len := zlen (snd t) |}
              :: elems_of r (off + 2 + zlen (snd t))
  end.

Lemma chain_enc : forall l cf off, (length (enc l) < cf)%nat -> chain cf (enc l) off = elems_of l off.
Proof.
  induction l as [|t r IH]; intros cf off Hf.
  - destruct cf; reflexivity.
  - destruct cf as [|cf]; [lia|].
    rewrite enc_cons in *. cbn [chain elems_of].
    pose proof (zlen_nonneg (enc r)) as Hr.
    destruct (zlen (snd t ++ enc r) <? zlen (snd t)) eqn:C.
    + apply Z.ltb_lt in C. rewrite zlen_app in C. lia.
    + rewrite skipn_zlen_app. rewrite IH; [reflexivity|].
      cbn [length] in Hf. rewrite app_length in Hf. lia.
Qed.

Lemma elements_enc l : elements (enc l) = elems_of l 0.
Proof. unfold elements. apply chain_enc. lia. Qed.

Lemma cut_empty_elems_of : forall r off,
  forallb (fun t : tag => negb (zlen (snd t) =? 0)) r = true ->
  cut_empty (elems_of r off) = elems_of r off.
Proof.
  induction r as [|t r IH]; intros off H; [reflexivity|].
  cbn [forallb] in H. apply andb_true_iff in H. destruct H as [H1 H2].
  cbn [elems_of cut_empty e_len].
  destruct (zlen (snd t) =? 0); [discriminate|]. rewrite IH by assumption. reflexivity.
Qed.

Lemma reported_enc_full l : nonleading_nonemptyb l = true -> reported (enc l) = elems_of l 0.
Proof.
  intros H. unfold reported. rewrite elements_enc. destruct l as [|t r]; [reflexivity|].
  cbn [elems_of]. cbn [nonleading_nonemptyb] in H. rewrite cut_empty_elems_of by assumption.
  reflexivity.
Qed.

Lemma reported_enc_prefix l : exists tl, elems_of l 0 = reported (enc l) ++ tl.
Proof.
  destruct (reported_prefix (enc l)) as (tl & H & _). exists tl. rewrite <- elements_enc. exact H.
Qed.

(* the element found in a prefix of the elements is the first one carrying that number *)
Lemma find_prefix : forall l pre tl off n e,
  elems_of l off = pre ++ tl -> find_num n pre = Some e ->
  exists a t b, l = a ++ t :: b /\ e_off e = off + zlen (enc a) /\ e_len e = zlen (snd t) /\
                remove_first n l = a ++ b.
Proof.
  induction l as [|t r IH]; intros pre tl off n e Hp Hf.
  - cbn [elems_of] in Hp. destruct pre; [discriminate Hf | discriminate Hp].
  - destruct pre as [|x pre]; [discriminate Hf|].
    cbn [elems_of app] in Hp. injection Hp as Hx Hp.
    cbn [find_num] in Hf. cbn [remove_first]. subst x. cbn [e_num] in Hf.
    destruct (fst t =? n) eqn:C.
    + injection Hf as Hf. subst e. exists [], t, r. cbn [app e_off e_len enc flat_map].
      rewrite zlen_nil. repeat split; lia.
    + destruct (IH pre tl _ n e Hp Hf) as (a & t' & b & Hl & Ho & Hlen & Hr).
      exists (t :: a), t', b. rewrite Hl. cbn [app]. repeat split.
      * rewrite Ho. rewrite (enc_cons1 t a), zlen_app, zlen_enc1. lia.
      * exact Hlen.
      * rewrite <- Hl, Hr. reflexivity.
Qed.

Lemma find_none : forall l off n, find_num n (elems_of l off) = None -> remove_first n l = l.
Proof.
  induction l as [|t r IH]; intros off n H; [reflexivity|].
  cbn [elems_of find_num e_num] in H. cbn [remove_first].
  destruct (fst t =? n); [discriminate|]. f_equal. eapply IH; eauto.
Qed.

Lemma count_elems_of : forall l off n,
  zlen (filter (fun e => e_num e =? n) (elems_of l off)) = count_num n l.
Proof.
  unfold count_num. induction l as [|t r IH]; intros off n; [reflexivity|].
  cbn [elems_of filter e_num]. destruct (fst t =? n); rewrite ?zlen_cons, IH; reflexivity.
Qed.

(* ---------- the model functions on an encoding ---------- *)
Lemma iter_of_enc s l : wf_tags l -> t_bytes s = enc l -> t_len s = zlen (enc l) ->
  iter_of s = Done (match l with [] => Err (- EINVAL) | _ => Ok (reported (enc l)) end).
Proof.
  intros Hwf Hb Hl. unfold iter_of. rewrite Hl, Hb.
  rewrite (iterate_exact (enc l) (rd_strict (enc l)) (enc_wf l Hwf) (agrees_strict (enc l))).
  unfold spec_iterate. rewrite elements_enc. destruct l; reflexivity.
Qed.

Lemma quick_add_enc s l n b : wf_tag (n, b) -> t_bytes s = enc l -> t_len s = zlen (enc l) ->
  exists s', quick_add_tag s n b = (s', 0) /\
             t_bytes s' = enc (l ++ [(n, b)]) /\ t_len s' = zlen (enc (l ++ [(n, b)])).
Proof.
  intros (H1 & H2 & H3) Hb Hl. cbn [fst snd] in *.
  unfold quick_add_tag, add_tag. eexists. split; [reflexivity|].
  pose proof (zlen_nonneg b) as Hb0.
  cbn [t_bytes t_len]. rewrite !Z.mod_small by lia.
  unfold zfirstn. rewrite firstn_zlen. rewrite enc_app, enc_single, Hb, Hl.
  split; [reflexivity|].
  change sizeof_libwifi_tag_header with 2.
  rewrite !zlen_app, !zlen_cons, zlen_nil. lia.
Qed.

Lemma remove_alg a t b :
  zfirstn (zlen (enc a)) (enc (a ++ t :: b)) ++
  slice (zlen (enc a) + (zlen (snd t) + sizeof_libwifi_tag_header))
        (zlen (enc (a ++ t :: b)) - zlen (enc a) - (zlen (snd t) + sizeof_libwifi_tag_header))
        (enc (a ++ t :: b)) = enc (a ++ b) /\
  zlen (enc (a ++ t :: b)) - (zlen (snd t) + sizeof_libwifi_tag_header) = zlen (enc (a ++ b)).
Proof.
  change sizeof_libwifi_tag_header with 2.
  rewrite !enc_app, enc_cons1. rewrite !zlen_app, zlen_enc1.
  split; [|lia].
  unfold zfirstn, slice, zfirstn, zskipn. rewrite firstn_zlen_app. f_equal.
  replace (zlen (enc a) + (zlen (snd t) + 2)) with (zlen (enc a ++ enc1 t))
    by (rewrite zlen_app, zlen_enc1; lia).
  replace (enc a ++ enc1 t ++ enc b) with ((enc a ++ enc1 t) ++ enc b) by (rewrite app_assoc; reflexivity).
  rewrite skipn_zlen_app.
  replace (zlen (enc a) + (2 + zlen (snd t) + zlen (enc b)) - zlen (enc a) - (zlen (snd t) + 2))
    with (zlen (enc b)) by lia.
  apply firstn_zlen.
Qed.

(* removal on an encoding; the result is the reference one whenever the iterator sees every element, and
   also whenever it gets as far as an element with that number (elements after it may then be empty) *)
Lemma remove_tag_enc_found s l n : wf_tags l -> t_bytes s = enc l -> t_len s = zlen (enc l) ->
  exists s' l', remove_tag s n = Done (s', match l with [] => - EINVAL | _ => 0 end) /\
    wf_tags l' /\ t_bytes s' = enc l' /\ t_len s' = zlen (enc l') /\
    (nonleading_nonemptyb l = true \/ find_num n (reported (enc l)) <> None -> l' = remove_first n l).
Proof.
  intros Hwf Hb Hl. unfold remove_tag. rewrite (iter_of_enc s l Hwf Hb Hl).
  destruct l as [|t0 r0] eqn:EL.
  - cbn [bind]. exists s, []. repeat split; auto.
  - rewrite <- EL in *. cbn [bind].
    destruct (find_num n (reported (enc l))) as [e|] eqn:F.
    + destruct (reported_enc_prefix l) as (tl & Hp).
      destruct (find_prefix l _ tl 0 n e Hp F) as (a & t & b & Hlab & Ho & Hlen & Hr).
      rewrite Z.add_0_l in Ho.
      destruct (remove_alg a t b) as [A1 A2].
      eexists. exists (a ++ b). split; [reflexivity|]. cbn [t_bytes t_len].
      rewrite Hb, Hl, Ho, Hlen, Hlab.
      split; [|split; [exact A1 | split; [exact A2|]]].
      * unfold wf_tags in *. rewrite Hlab in Hwf. apply Forall_app in Hwf. destruct Hwf as [Wa Wb].
        inversion Wb; subst. apply Forall_app. split; assumption.
      * intros _. rewrite <- Hlab. symmetry. exact Hr.
    + exists s, l. repeat split; auto.
      intros [Hn|Hn]; [|exfalso; apply Hn; reflexivity].
      rewrite (reported_enc_full l Hn) in F. symmetry. eapply find_none; eauto.
Qed.

Lemma remove_tag_enc s l n : wf_tags l -> t_bytes s = enc l -> t_len s = zlen (enc l) ->
  exists s' l', remove_tag s n = Done (s', match l with [] => - EINVAL | _ => 0 end) /\
    wf_tags l' /\ t_bytes s' = enc l' /\ t_len s' = zlen (enc l') /\
    (nonleading_nonemptyb l = true -> l' = remove_first n l).
Proof.
  intros Hwf Hb Hl.
  destruct (remove_tag_enc_found s l n Hwf Hb Hl) as (s' & l' & R & W & B & L & N).
  exists s', l'. repeat split; auto.
Qed.

Lemma zlen_enc_0 l : zlen (enc l) = 0 -> l = [].
Proof.
  destruct l as [|t r]; [reflexivity|]. rewrite enc_cons1, zlen_app, zlen_enc1.
  pose proof (zlen_nonneg (snd t)). pose proof (zlen_nonneg (enc r)). lia.
Qed.

Lemma wf_tags_snoc l t : wf_tags l -> wf_tag t -> wf_tags (l ++ [t]).
Proof. intros H1 H2. apply Forall_app. split; [exact H1 | constructor; [exact H2 | constructor]]. Qed.

Lemma check_tag_enc s l n : wf_tags l -> t_bytes s = enc l -> t_len s = zlen (enc l) ->
  exists c, check_tag s n = Done c /\
    (nonleading_nonemptyb l = true -> c = match l with [] => - EINVAL | _ => count_num n l end).
Proof.
  intros Hwf Hb Hl. unfold check_tag. rewrite (iter_of_enc s l Hwf Hb Hl).
  destruct l as [|t0 r0] eqn:EL.
  - cbn [bind]. eexists. split; [reflexivity|]. auto.
  - rewrite <- EL in *. cbn [bind]. eexists. split; [reflexivity|].
    intros Hn. rewrite (reported_enc_full l Hn). apply count_elems_of.
Qed.

(* on a non-empty list the count is a count *)
Lemma check_tag_nonneg s l n c : wf_tags l -> t_bytes s = enc l -> t_len s = zlen (enc l) ->
  l <> [] -> check_tag s n = Done c -> 0 <= c.
Proof.
  intros Hwf Hb Hl Hne. unfold check_tag. rewrite (iter_of_enc s l Hwf Hb Hl).
  destruct l as [|t0 r0]; [contradiction|]. cbn [bind]. intros H. inversion H. apply zlen_nonneg.
Qed.

(* ---------- the list extended by one element (what the setters iterate over after the add) ---------- *)
Lemma cut_empty_elems_of_app : forall r q off,
  forallb (fun t : tag => negb (zlen (snd t) =? 0)) r = true ->
  exists tl, cut_empty (elems_of (r ++ q) off) = elems_of r off ++ tl.
Proof.
  induction r as [|t r IH]; intros q off H.
  - eexists. reflexivity.
  - cbn [forallb] in H. apply andb_true_iff in H. destruct H as [H1 H2].
    cbn [app elems_of cut_empty e_len].
    destruct (zlen (snd t) =? 0); [discriminate|].
    destruct (IH q (off + 2 + zlen (snd t)) H2) as (tl & E). rewrite E. exists tl. reflexivity.
Qed.

(* every element of l is still reported after one more element, of any length, has been appended *)
Lemma reported_snoc l x : l <> [] -> nonleading_nonemptyb l = true ->
  exists tl, reported (enc (l ++ [x])) = elems_of l 0 ++ tl.
Proof.
  intros Hne Hn. unfold reported. rewrite elements_enc.
  destruct l as [|t r]; [contradiction|]. cbn [nonleading_nonemptyb] in Hn.
  cbn [app elems_of].
  destruct (cut_empty_elems_of_app r [x] (0 + 2 + zlen (snd t)) Hn) as (tl & E).
  rewrite E. exists tl. reflexivity.
Qed.

Lemma find_app_some : forall a b n, find_num n a <> None -> find_num n (a ++ b) <> None.
Proof.
  induction a as [|e a IH]; intros b n H; [exfalso; apply H; reflexivity|].
  cbn [app find_num] in *. destruct (e_num e =? n); [discriminate|]. apply IH. exact H.
Qed.

Lemma count_num_cons t r n :
  count_num n (t :: r) = (if fst t =? n then 1 else 0) + count_num n r.
Proof.
  unfold count_num. cbn [filter]. destruct (fst t =? n); [rewrite zlen_cons|]; reflexivity.
Qed.
Lemma count_num_nonneg n l : 0 <= count_num n l.
Proof. apply zlen_nonneg. Qed.

Lemma count_pos_find : forall l off n, 0 < count_num n l -> find_num n (elems_of l off) <> None.
Proof.
  induction l as [|t r IH]; intros off n H.
  - change (count_num n []) with 0 in H. lia.
  - rewrite count_num_cons in H. cbn [elems_of find_num e_num].
    destruct (fst t =? n); [discriminate|]. apply IH. lia.
Qed.

Lemma count_zero_remove : forall l n, count_num n l = 0 -> remove_first n l = l.
Proof.
  induction l as [|t r IH]; intros n H; [reflexivity|].
  rewrite count_num_cons in H. pose proof (count_num_nonneg n r). cbn [remove_first].
  destruct (fst t =? n); [lia|]. f_equal. apply IH. lia.
Qed.

Lemma remove_first_snoc : forall l n x, 0 < count_num n l ->
  remove_first n (l ++ [x]) = remove_first n l ++ [x].
Proof.
  induction l as [|t r IH]; intros n x H.
  - change (count_num n []) with 0 in H. lia.
  - rewrite count_num_cons in H. cbn [app remove_first].
    destruct (fst t =? n); [reflexivity|]. cbn [app]. f_equal. apply IH. lia.
Qed.

(* the setters: count, add, then remove the first (= old) element when there was one *)
Lemma set_tag_enc s l num data : wf_tags l -> t_bytes s = enc l -> t_len s = zlen (enc l) ->
  wf_tag (num, data) ->
  exists s' r l', set_tag s num data = Done (s', r) /\
    wf_tags l' /\ t_bytes s' = enc l' /\ t_len s' = zlen (enc l') /\
    (nonleading_nonemptyb l = true -> l' = spec_set l num data /\ r = 0).
Proof.
  intros Hwf Hb Hl Ht. unfold set_tag, spec_set.
  destruct (quick_add_enc s l num data Ht Hb Hl) as (s1 & Q & Qb & Ql).
  assert (W1 : wf_tags (l ++ [(num, data)])) by (apply wf_tags_snoc; assumption).
  destruct (t_len s =? 0) eqn:C.
  - apply Z.eqb_eq in C. rewrite Hl in C. apply zlen_enc_0 in C. subst l.
    cbn [bind]. change (0 <? 0) with false. cbv iota. rewrite Q.
    change (negb (0 =? 0)) with false. cbv iota.
    exists s1, 0, ([] ++ [(num, data)]). repeat split; auto.
  - apply Z.eqb_neq in C.
    assert (Hne : l <> []) by (intros E; apply C; rewrite Hl, E; reflexivity).
    destruct (check_tag_enc s l num Hwf Hb Hl) as (c & Cc & CN).
    pose proof (check_tag_nonneg s l num c Hwf Hb Hl Hne Cc) as C0.
    rewrite Cc. cbn [bind].
    replace (c <? 0) with false by lia. rewrite Q.
    change (negb (0 =? 0)) with false. cbv iota.
    destruct (0 <? c) eqn:Cp.
    + apply Z.ltb_lt in Cp.
      destruct (remove_tag_enc_found s1 (l ++ [(num, data)]) num W1 Qb Ql)
        as (s' & l' & R & W' & B' & L' & N').
      assert (E0 : match l ++ [(num, data)] with [] => - EINVAL | _ :: _ => 0 end = 0)
        by (destruct l; reflexivity).
      rewrite E0 in R. rewrite R. exists s', 0, l'. repeat split; auto.
      pose proof (CN H) as Ec. destruct l as [|t0 r0] eqn:EL; [contradiction|]. rewrite <- EL in *.
      subst c. rewrite N'; [apply remove_first_snoc; exact Cp|].
      right. destruct (reported_snoc l (num, data) Hne H) as (tl & E).
      assert (Hc : find_num num (elems_of l 0 ++ tl) <> None)
        by (apply find_app_some, count_pos_find; exact Cp).
      rewrite <- E in Hc. exact Hc.
    + apply Z.ltb_ge in Cp.
      exists s1, 0, (l ++ [(num, data)]). repeat split; auto.
      pose proof (CN H) as Ec. destruct l as [|t0 r0] eqn:EL; [contradiction|]. rewrite <- EL in *.
      rewrite count_zero_remove; [reflexivity | lia].
Qed.

Lemma wf_channel c : 0 <= c < 256 -> wf_tag (c_TAG_DS_PARAMETER, [c]).
Proof.
  intros H. unfold wf_tag, c_TAG_DS_PARAMETER. cbn [fst snd].
  change (zlen [c]) with 1. repeat split; try lia. constructor; [exact H | constructor].
Qed.

(* one step: total, keeps the encoding shape, and follows the reference list when it is constrained *)
Lemma step_enc s l o : wf_tags l -> t_bytes s = enc l -> t_len s = zlen (enc l) -> wf_op o ->
  exists s' r l', step s o = Done (s', r) /\
    wf_tags l' /\ t_bytes s' = enc l' /\ t_len s' = zlen (enc l') /\
    (forall l2 r2, spec_step c_TAG_SSID c_TAG_DS_PARAMETER l o = Some (l2, r2) -> l' = l2 /\ r = r2).
Proof.
  intros Hwf Hb Hl Ho. destruct o as [n b | n | b | c | n]; cbn [step wf_op spec_step] in *.
  - destruct (quick_add_enc s l n b Ho Hb Hl) as (s' & Q & Qb & Ql).
    rewrite Q. exists s', 0, (l ++ [(n, b)]). repeat split; auto.
    + apply wf_tags_snoc; assumption.
    + congruence.
    + congruence.
  - destruct (remove_tag_enc s l n Hwf Hb Hl) as (s1 & l1 & R & W1 & B1 & L1 & N1).
    rewrite R. exists s1, (match l with [] => - EINVAL | _ => 0 end), l1. repeat split; auto.
    + destruct (nonleading_nonemptyb l); [|discriminate]. rewrite N1 by reflexivity. congruence.
    + destruct (nonleading_nonemptyb l); [|discriminate]. congruence.
  - unfold set_ssid.
    destruct (set_tag_enc s l c_TAG_SSID b Hwf Hb Hl Ho) as (s' & r & l' & S & W & B & L & N).
    rewrite S. exists s', r, l'. repeat split; auto.
    + destruct (nonleading_nonemptyb l); [|discriminate]. destruct (N eq_refl). congruence.
    + destruct (nonleading_nonemptyb l); [|discriminate]. destruct (N eq_refl). congruence.
  - unfold set_channel.
    destruct (set_tag_enc s l c_TAG_DS_PARAMETER [c] Hwf Hb Hl (wf_channel c Ho))
      as (s' & r & l' & S & W & B & L & N).
    rewrite S. exists s', r, l'. repeat split; auto.
    + destruct (nonleading_nonemptyb l); [|discriminate]. destruct (N eq_refl). congruence.
    + destruct (nonleading_nonemptyb l); [|discriminate]. destruct (N eq_refl). congruence.
  - destruct (check_tag_enc s l n Hwf Hb Hl) as (c & Cc & N).
    rewrite Cc. cbn [bind]. exists s, c, l. repeat split; auto.
    + destruct (nonleading_nonemptyb l); [|discriminate]. congruence.
    + destruct (nonleading_nonemptyb l); [|discriminate]. rewrite N by reflexivity. congruence.
Qed.

(* ---------- the C05 lemmas ---------- *)
Lemma step_refines : forall s l o l' r,
  wf_tags l -> t_bytes s = enc l -> t_len s = zlen (enc l) -> wf_op o ->
  spec_step c_TAG_SSID c_TAG_DS_PARAMETER l o = Some (l', r) ->
  exists s', step s o = Done (s', r) /\ t_bytes s' = enc l' /\ t_len s' = zlen (enc l').
Proof.
  intros s l o l' r Hwf Hb Hl Ho Hs.
  destruct (step_enc s l o Hwf Hb Hl Ho) as (s' & r1 & l1 & S & W & B & L & N).
  destruct (N l' r Hs) as [E1 E2]. subst l1 r1. exists s'. auto.
Qed.

Lemma inv_empty : Inv tags_empty.
Proof. exists []. repeat split. constructor. Qed.

Lemma run_inv : forall ops s, Inv s -> Forall wf_op ops -> exists s', run s ops = Done s' /\ Inv s'.
Proof.
  induction ops as [|o ops IH]; intros s HI Hops.
  - exists s. split; [reflexivity | exact HI].
  - inversion Hops as [|? ? Ho Hr]; subst.
    destruct HI as (l & Hwf & Hb & Hl). rewrite Hb in Hl.
    destruct (step_enc s l o Hwf Hb Hl Ho) as (s1 & r1 & l1 & S & W & B & L & _).
    cbn [run]. rewrite S. cbn [bind].
    apply IH; [|exact Hr]. exists l1. rewrite B. auto.
Qed.
