(* Proofs for C12: the EAPOL routines (Model/Eapol.v) return exactly Spec/EapolSpec.v. *)
From LW Require Import Base.Bytes Base.Sweep Gen.Consts Gen.Layout Gen.Tables Model.Radiotap Model.Frame
  Model.Eapol Spec.FrameSpec Spec.EapolSpec Proofs.FrameProofs.
From Coq Require Import Lia ZifyBool.
Local Open Scope Z_scope.

(* ---------- reads inside the body ---------- *)
Lemma rdb_slice b n off : 0 <= off -> 0 <= n -> off + n <= zlen b ->
  rd_bytes (rd_strict b) (Z.to_nat n) off = Done (slice off n b).
Proof.
  intros Ho Hn Hl. rewrite (rd_bytes_agrees _ b (agrees_strict b)) by lia. reflexivity.
Qed.

Lemma rdb_be16 b off : 0 <= off -> off + 2 <= zlen b ->
  rd_be (rd_strict b) 2 off = Done (be16 b off).
Proof.
  intros Ho Hl. unfold rd_be. change 2%nat with (Z.to_nat 2).
  rewrite rdb_slice by zl. reflexivity.
Qed.

Lemma rdb_be64 b off : 0 <= off -> off + 8 <= zlen b ->
  rd_be (rd_strict b) 8 off = Done (be64 b off).
Proof.
  intros Ho Hl. unfold rd_be. change 8%nat with (Z.to_nat 8).
  rewrite rdb_slice by zl. reflexivity.
Qed.

Lemma rdb_one b off : 0 <= off < zlen b -> rd_strict b off = Done (znth b off).
Proof. intros H. apply agrees_strict. exact H. Qed.

Lemma slice3 b off : 0 <= off -> off + 3 <= zlen b ->
  slice off 3 b = [znth b off; znth b (off + 1); znth b (off + 1 + 1)].
Proof.
  intros Ho Hl. unfold slice, zfirstn, zskipn.
  rewrite (skipn_cons_znth b off) by lia.
  rewrite (skipn_cons_znth b (off + 1)) by lia.
  rewrite (skipn_cons_znth b (off + 1 + 1)) by lia.
  reflexivity.
Qed.

Lemma le_dec_nonneg l : wfbytes l -> 0 <= le_dec l.
Proof. intros H. pose proof (le_dec_bound l H). lia. Qed.

Lemma wfbytes_rev l : wfbytes l -> wfbytes (rev l).
Proof.
  unfold wfbytes. rewrite !Forall_forall. intros H x Hx. apply H. apply in_rev. exact Hx.
Qed.

Lemma be_dec_nonneg l : wfbytes l -> 0 <= be_dec l.
Proof. intros H. unfold be_dec. apply le_dec_nonneg, wfbytes_rev, H. Qed.

Lemma be16_nonneg b off : wfbytes b -> 0 <= be16 b off.
Proof.
  intros H. unfold be16, slice, zfirstn, zskipn.
  apply be_dec_nonneg, wfbytes_firstn, wfbytes_skipn, H.
Qed.

Lemma kdl_eq d av : 0 <= d -> 0 <= av ->
  (if 0 <? d
   then (if av <? (if 1024 <? d then 1024 else d) then av else (if 1024 <? d then 1024 else d))
   else d) = Z.min d (Z.min 1024 av).
Proof.
  intros Hd Ha.
  destruct (0 <? d) eqn:E0; [|lia].
  destruct (1024 <? d) eqn:E1.
  - destruct (av <? 1024) eqn:E2; lia.
  - destruct (av <? d) eqn:E2; lia.
Qed.

(* ---------- the frame control of an ok frame ---------- *)
Lemma frame_type_ok f : frame_ok f -> fc_type (f_fc f) = s_frame_type f.
Proof.
  intros (_ & Hwfc & Hfcl & _ & _). unfold s_frame_type.
  destruct (f_fc f) as [|fc0 [|fc1 [|fc2 tl]]];
    try (exfalso; unfold zlen in Hfcl; cbn [length] in Hfcl; lia).
  assert (H0 : 0 <= fc0 < 256) by (apply (wfbytes_In _ _ Hwfc); left; reflexivity).
  assert (H1 : 0 <= fc1 < 256) by (apply (wfbytes_In _ _ Hwfc); right; left; reflexivity).
  destruct (fc_ok fc0 fc1 H0 H1) as (Ht & _ & _). exact Ht.
Qed.

Ltac consts :=
  change llc_len with 8 in *; change desc_len with 99 in *; change ki_off with 13 in *;
  change (8 + 99) with 107 in *.

(* ---------- recognition ---------- *)
Lemma recognise_exact : forall f, frame_ok f ->
  check_wpa_handshake f = Done (if s_is_handshake f then Ok 1 else Err (- EINVAL)).
Proof.
  intros f Hok. pose proof (frame_type_ok f Hok) as Hty.
  destruct Hok as (Hwb & _ & _ & Hhl & Hlen).
  unfold check_wpa_handshake, s_is_handshake, body_rd. rewrite Hty, Hlen.
  change c_TYPE_DATA with 2. change T_DATA with 2.
  set (b := f_body f) in *. set (hl := f_header_len f) in *.
  destruct (s_frame_type f =? 2); cbn [negb andb]; [|reflexivity].
  consts.
  change (Z.to_nat fsz_libwifi_logical_link_ctrl__oui) with (Z.to_nat 3).
  change off_libwifi_logical_link_ctrl__oui with 3.
  change off_libwifi_logical_link_ctrl__type with 6.
  change c_XEROX_OUI with [0; 0; 0]. change c_LLC_TYPE_AUTH with 34958.
  change ETHERTYPE_EAPOL with 34958. change EAPOL_KEY_MIN with 107.
  unfold byte in *.
  destruct (hl + zlen b <? hl + 8) eqn:E1.
  - replace (8 <=? zlen b) with false by lia. reflexivity.
  - replace (8 <=? zlen b) with true by lia. cbn [andb].
    change off_libwifi_logical_link_ctrl__dsap with 0.
    change off_libwifi_logical_link_ctrl__ssap with 1.
    change off_libwifi_logical_link_ctrl__control with 2.
    rewrite (rdb_one b 0), (rdb_one b 1), (rdb_one b 2) by zl. cbn [bind].
    destruct (znth b 0 =? 170); cbn [negb andb]; [|reflexivity].
    destruct (znth b 1 =? 170); cbn [negb andb]; [|reflexivity].
    destruct (znth b 2 =? 3); cbn [negb andb]; [|reflexivity].
    rewrite rdb_slice by zl. cbn [bind].
    rewrite slice3 by zl. change (3 + 1 + 1) with 5. change (3 + 1) with 4.
    destruct (list_eq_dec Z.eq_dec [znth b 3; znth b 4; znth b 5] [0; 0; 0]) as [e|ne].
    + injection e as e3 e4 e5. rewrite e3, e4, e5. change (0 =? 0) with true. cbn [negb andb].
      rewrite rdb_be16 by zl. cbn [bind].
      destruct (be16 b 6 =? 34958); cbn [negb andb]; [|reflexivity].
      destruct (hl + zlen b <? hl + 107) eqn:E2.
      * replace (107 <=? zlen b) with false by lia. reflexivity.
      * replace (107 <=? zlen b) with true by lia. reflexivity.
    + cbn [negb].
      destruct (znth b 3 =? 0) eqn:A3; cbn [andb]; [|reflexivity].
      destruct (znth b 4 =? 0) eqn:A4; cbn [andb]; [|reflexivity].
      destruct (znth b 5 =? 0) eqn:A5; cbn [andb]; [|reflexivity].
      exfalso. apply ne. apply Z.eqb_eq in A3, A4, A5. rewrite A3, A4, A5. reflexivity.
Qed.

(* ---------- message number ---------- *)
Lemma message_exact : forall f, frame_ok f -> check_wpa_message f = Done (s_message f).
Proof.
  intros f (Hwb & _ & _ & Hhl & Hlen).
  unfold check_wpa_message, s_message, body_rd. rewrite Hlen.
  set (b := f_body f) in *. set (hl := f_header_len f) in *.
  consts. change off_libwifi_wpa_key_info__information with 0. change (13 + 0) with 13.
  change EAPOL_KEY_MIN with 107. change c_HANDSHAKE_INVALID with 16. change MINVALID with 16.
  change eapol_msg_default with 16.
  change eapol_msg_table with [(138, 1); (266, 2); (5066, 4); (778, 8)].
  change M1 with 1. change M2 with 2. change M3 with 4. change M4 with 8.
  unfold byte in *.
  destruct (hl + zlen b <? hl + 107) eqn:E1.
  - replace (zlen b <? 107) with true by lia. reflexivity.
  - replace (zlen b <? 107) with false by lia.
    rewrite rdb_be16 by zl. cbn [bind]. cbv zeta.
    cbn [lookup_z].
    rewrite (Z.eqb_sym 138), (Z.eqb_sym 266), (Z.eqb_sym 5066), (Z.eqb_sym 778).
    destruct (be16 b 13 =? 138); [reflexivity|].
    destruct (be16 b 13 =? 266); [reflexivity|].
    destruct (be16 b 13 =? 5066); [reflexivity|].
    destruct (be16 b 13 =? 778); reflexivity.
Qed.

Lemma message_values :
  c_HANDSHAKE_M1 = M1 /\ c_HANDSHAKE_M2 = M2 /\ c_HANDSHAKE_M3 = M3 /\ c_HANDSHAKE_M4 = M4 /\
  c_HANDSHAKE_INVALID = MINVALID /\ eapol_keydata_cap = KEY_DATA_CAP /\
  c_EAPOL_KEY_INFO_M1 = 138 /\ c_EAPOL_KEY_INFO_M2 = 266 /\ c_EAPOL_KEY_INFO_M3 = 5066 /\ c_EAPOL_KEY_INFO_M4 = 778.
Proof. repeat split; reflexivity. Qed.

(* ---------- what a recognised handshake guarantees ---------- *)
Lemma handshake_len f : s_is_handshake f = true -> 107 <= zlen (f_body f).
Proof.
  unfold s_is_handshake. intros H. apply andb_prop in H as [_ H].
  change EAPOL_KEY_MIN with 107 in H. lia.
Qed.

(* ---------- key data length ---------- *)
Lemma key_data_length_exact : forall f, frame_ok f ->
  get_wpa_key_data_length f = Done (if s_is_handshake f then be16 (f_body f) 105 else - EINVAL).
Proof.
  intros f Hok. unfold get_wpa_key_data_length. rewrite (recognise_exact f Hok).
  destruct (s_is_handshake f) eqn:Hs; cbn [bind]; [|reflexivity].
  apply handshake_len in Hs. unfold body_rd. consts.
  change off_libwifi_wpa_key_info__key_data_length with 92. change (13 + 92) with 105.
  apply rdb_be16; zl.
Qed.

(* ---------- extraction ---------- *)
Ltac rd_step :=
  first [ rewrite rdb_one by zl | rewrite rdb_be16 by zl | rewrite rdb_be64 by zl
        | rewrite rdb_slice by zl ]; cbn [bind].

Lemma extract_exact : forall f, frame_ok f -> get_wpa_data f = Done (s_wpa_data f).
Proof.
  intros f Hok. unfold get_wpa_data, s_wpa_data. rewrite (recognise_exact f Hok).
  destruct (s_is_handshake f) eqn:Hs; cbn [bind negb]; [|reflexivity].
  apply handshake_len in Hs.
  destruct Hok as (Hwb & _ & _ & Hhl & Hlen).
  unfold s_key_data_len, body_rd. rewrite Hlen.
  set (b := f_body f) in *. set (hl := f_header_len f) in *.
  consts. cbv zeta.
  change off_libwifi_wpa_auth_data__version with 0.
  change off_libwifi_wpa_auth_data__type with 1.
  change off_libwifi_wpa_auth_data__length with 2.
  change off_libwifi_wpa_auth_data__descriptor with 4.
  change off_libwifi_wpa_key_info__information with 0.
  change off_libwifi_wpa_key_info__key_length with 2.
  change off_libwifi_wpa_key_info__replay_counter with 4.
  change off_libwifi_wpa_key_info__nonce with 12.
  change off_libwifi_wpa_key_info__iv with 44.
  change off_libwifi_wpa_key_info__rsc with 60.
  change off_libwifi_wpa_key_info__id with 68.
  change off_libwifi_wpa_key_info__mic with 76.
  change off_libwifi_wpa_key_info__key_data_length with 92.
  change fsz_libwifi_wpa_key_info__nonce with 32.
  change fsz_libwifi_wpa_key_info__iv with 16.
  change fsz_libwifi_wpa_key_info__rsc with 8.
  change fsz_libwifi_wpa_key_info__id with 8.
  change fsz_libwifi_wpa_key_info__mic with 16.
  change eapol_keydata_cap with 1024. change KEY_DATA_CAP with 1024. change EAPOL_KEY_MIN with 107.
  change (8 + 0) with 8. change (8 + 1) with 9. change (8 + 2) with 10. change (8 + 4) with 12.
  change (13 + 0) with 13. change (13 + 2) with 15. change (13 + 4) with 17. change (13 + 12) with 25.
  change (13 + 44) with 57. change (13 + 60) with 73. change (13 + 68) with 81.
  change (13 + 76) with 89. change (13 + 92) with 105.
  unfold byte in *.
  do 13 rd_step.
  pose proof (be16_nonneg b 105 Hwb) as Hd.
  replace (hl + zlen b - hl - 107) with (zlen b - 107) by lia.
  rewrite kdl_eq by lia.
  rewrite rdb_slice by zl. cbn [bind]. reflexivity.
Qed.

(* ---------- classified frames are ok ---------- *)
Lemma classified_ok : forall buf rtres f, wfbytes buf -> spec_classify buf rtres = Ok f ->
  (forall info, rtres = Some (Ok info) -> 0 <= i_length info <= zlen buf) -> frame_ok f.
Proof.
  intros buf rtres f Hwf Hc _. rewrite spec_classify_eq in Hc.
  destruct (spec_pre buf rtres) as [[[rest fl0] rt]|c] eqn:Hpre; [|discriminate].
  pose proof (spec_pre_wf _ _ _ _ _ Hwf Hpre) as Hwr. clear Hpre.
  unfold spec_k in Hc. destruct rest as [|fc0 [|fc1 tl]] eqn:Hrest; try discriminate.
  rewrite <- Hrest in *.
  assert (H0 : 0 <= fc0 < 256).
  { apply (wfbytes_In rest); [exact Hwr|]. rewrite Hrest. left; reflexivity. }
  assert (H1 : 0 <= fc1 < 256).
  { apply (wfbytes_In rest); [exact Hwr|]. rewrite Hrest. right; left; reflexivity. }
  unfold spec_k2 in Hc.
  destruct (s_hdr_len (s_type fc0) (s_subtype fc0) (s_ordered fc1)) as [hl|] eqn:Hh; [|discriminate].
  apply s_hdr_len_pos in Hh.
  destruct (zlen rest <? hl) eqn:E; [discriminate|].
  injection Hc as <-.
  unfold frame_ok. cbn [f_fc f_body f_len f_header_len].
  split; [unfold zskipn; apply wfbytes_skipn, Hwr|].
  split; [repeat constructor; lia|].
  split; [reflexivity|].
  split; [lia|].
  unfold zskipn. rewrite zlen_skipn by lia. lia.
Qed.
