(* The two suite-enumeration routines of parse/misc/security.c AS TRANSLATED (Gen/Sites.v: body_libwifi_enumerate_rsn_suites,
   body_libwifi_enumerate_wpa_suites) against Model/Security.v (enumerate_rsn / enumerate_wpa, tables of Gen/Tables.v). *)
From Coq Require Import ZArith String Ascii List Bool Lia.
From LW Require Import Base.Bytes Base.Sweep Base.CExpr Gen.Sites Gen.Tables Spec.CodeSpec Proofs.SitesLemmas Proofs.CodeIter.
From LW Require Model.Security.
Import ListNotations.
Local Open Scope string_scope.
Local Open Scope list_scope.
Local Open Scope Z_scope.

Ltac nums :=
  change (2 ^ 64) with 18446744073709551616 in *; change (2 ^ 63) with 9223372036854775808 in *;
  change (2 ^ 32) with 4294967296 in *; change (2 ^ 31) with 2147483648 in *.

Ltac upd_red := cbv beta iota delta [upd String.eqb Ascii.eqb Bool.eqb].
Ltac cev_go := repeat (progress (wrap_ids; decide_bools; cbv beta iota; cbn [orb andb])).

Definition ENC : string := "bss->encryption_info".

(* ---------------------------------------------------------------- 1. the shape of a case:  bss->encryption_info |= 1ULL << sh;  (one or two of them)  break; *)
Definition or_expr (sh : Z) : cexpr :=
  CCast (mkty false 64) (CBin OOr (mkty false 64) (CCast (mkty false 64) (CVar (mkty false 64) "bss->encryption_info"))
       (CBin OShl (mkty false 64) (CLit (mkty false 64) 1) (CLit (mkty true 32) sh))).
Definition or_stmt (ks : string * Z) : cstmt := SSet (fst ks) "bss->encryption_info" (or_expr (snd ks)).

(* a case as data: its label, then (key, shift count) of each assignment *)
Definition cdesc := (Z * list (string * Z))%type.
Definition case_of (d : cdesc) : list Z * list cstmt := ([fst d], map or_stmt (snd d) ++ [SBreak]).
Definition flag_of (l : list (string * Z)) : Z := fold_left (fun a ks => Z.lor a (2 ^ snd ks)) l 0.
Definition table_of (ds : list cdesc) : list (Z * Z) := map (fun d => (fst d, flag_of (snd d))) ds.

(* reading the data back from a translated case (no check here: the check is the equality [cases = map case_of (map desc_of cases)]) *)
Definition shift_of (s : cstmt) : string * Z :=
  match s with
  | SSet k _ (CCast _ (CBin _ _ _ (CBin _ _ _ (CLit _ sh)))) => (k, sh)
  | _ => ("", -1)
  end.
Definition desc_of (c : list Z * list cstmt) : cdesc := (hd (-1) (fst c), map shift_of (removelast (snd c))).

Definition sh_ok (ks : string * Z) : bool := (0 <=? snd ks) && (snd ks <? 64).
Definition ds_ok (ds : list cdesc) : bool :=
  forallb (fun d => (length (snd d) <=? 2)%nat && forallb sh_ok (snd d)) ds.

Definition flagv (tbl : list (Z * Z)) (t : Z) : Z := match lookup_z t tbl with Some f => f | None => 0 end.

Lemma lor_u64_range a b : 0 <= a < 18446744073709551616 -> 0 <= b < 18446744073709551616 -> 0 <= Z.lor a b < 18446744073709551616.
Proof.
  intros Ha Hb. assert (H0 : 0 <= Z.lor a b) by (apply Z.lor_nonneg; lia).
  split; [ exact H0 | ].
  destruct (Z.eq_dec (Z.lor a b) 0) as [E | E]; [ lia | ].
  change 18446744073709551616 with (2 ^ 64). apply Z.log2_lt_pow2; [ lia | ].
  rewrite (Z.log2_lor a b) by lia.
  assert (La : Z.log2 a < 64).
  { destruct (Z.eq_dec a 0) as [-> | Na]; [ cbn; lia | ]. apply Z.log2_lt_pow2; [ lia | ]. change (2 ^ 64) with 18446744073709551616. lia. }
  assert (Lb : Z.log2 b < 64).
  { destruct (Z.eq_dec b 0) as [-> | Nb]; [ cbn; lia | ]. apply Z.log2_lt_pow2; [ lia | ]. change (2 ^ 64) with 18446744073709551616. lia. }
  lia.
Qed.

Lemma pow2_u64 sh : 0 <= sh < 64 -> 0 < 2 ^ sh < 18446744073709551616.
Proof.
  intros H. split; [ apply Z.pow_pos_nonneg; lia | ]. change 18446744073709551616 with (2 ^ 64). apply Z.pow_lt_mono_r; lia.
Qed.

Lemma ceval_or R m e sh : R "bss->encryption_info" = e -> 0 <= e < 18446744073709551616 -> 0 <= sh < 64 ->
  ceval R m (or_expr sh) = Some (Z.lor e (2 ^ sh)).
Proof.
  intros HR He Hsh. pose proof (pow2_u64 sh Hsh) as Hp. pose proof (lor_u64_range e (2 ^ sh) He ltac:(lia)) as Hl.
  unfold or_expr. ceval_unfold. rewrite HR. wrap_ids. decide_bools. cbn [orb]. rewrite Z.mul_1_l.
  rewrite ?(arith_u64 (2 ^ sh)) by lia. cbv beta iota. rewrite ?(wrap_u64_id (Z.lor e (2 ^ sh))) by lia. reflexivity.
Qed.

Definition frame2 (rho' rho : env) : Prop :=
  forall y, String.eqb y "i" = false -> String.eqb y "bss->encryption_info" = false -> rho' y = rho y.

Lemma frame2_refl rho : frame2 rho rho.
Proof. intros y _ _. reflexivity. Qed.
Lemma frame2_trans a b c : frame2 a b -> frame2 b c -> frame2 a c.
Proof. intros H1 H2 y Hi He. rewrite H1, H2 by assumption. reflexivity. Qed.
Lemma frame2_upd_enc rho v : frame2 (upd rho "bss->encryption_info" v) rho.
Proof. intros y _ He. unfold upd. rewrite He. reflexivity. Qed.
Lemma frame2_upd_i rho v : frame2 (upd rho "i" v) rho.
Proof. intros y Hi _. unfold upd. rewrite Hi. reflexivity. Qed.

(* the assignments of one case, then break *)
Lemma exec_flags m tr : forall l F rho e acc,
  forallb sh_ok l = true -> (length l < F)%nat ->
  rho "bss->encryption_info" = Z.lor e acc -> 0 <= e < 18446744073709551616 -> 0 <= acc < 18446744073709551616 ->
  exists rho', exec F m rho tr (map or_stmt l ++ [SBreak]) = Broke rho' tr /\
    rho' "bss->encryption_info" = Z.lor e (fold_left (fun a ks => Z.lor a (2 ^ snd ks)) l acc) /\
    rho' "i" = rho "i" /\ frame2 rho' rho.
Proof.
  induction l as [ | ks l IH]; intros F rho e acc Hok HF HR He Hacc.
  - destruct F as [ | F]; [ cbn in HF; lia | ]. cbn [map app fold_left]. rewrite exec_break.
    exists rho. split; [ reflexivity | ]. split; [ exact HR | ]. split; [ reflexivity | apply frame2_refl ].
  - cbn [forallb] in Hok. apply andb_true_iff in Hok. destruct Hok as [Hk Hok].
    unfold sh_ok in Hk. apply andb_true_iff in Hk. destruct Hk as [Hk1 Hk2]. apply Z.leb_le in Hk1. apply Z.ltb_lt in Hk2.
    destruct F as [ | F]; [ cbn in HF; lia | ]. cbn [length] in HF. cbn [map app fold_left]. unfold or_stmt at 1.
    pose proof (pow2_u64 (snd ks) ltac:(lia)) as Hp.
    pose proof (lor_u64_range e acc He Hacc) as Hea.
    rewrite (exec_set _ m rho tr _ _ _ _ _ (ceval_or rho m _ (snd ks) HR Hea ltac:(lia))).
    destruct (IH F (upd rho "bss->encryption_info" (Z.lor (Z.lor e acc) (2 ^ snd ks))) e (Z.lor acc (2 ^ snd ks)))
      as (rho' & Hrun & Henc & Hi & Hfr); try assumption; try lia.
    + upd_red. rewrite Z.lor_assoc. reflexivity.
    + apply lor_u64_range; lia.
    + exists rho'. split; [ exact Hrun | ]. split; [ exact Henc | ]. split.
      * rewrite Hi. reflexivity.
      * eapply frame2_trans; [ exact Hfr | apply frame2_upd_enc ].
Qed.

Lemma pick_map v dflt : forall ds,
  pick_case v (map case_of ds) dflt = match lookup_z v ds with Some l => map or_stmt l ++ [SBreak] | None => dflt end.
Proof.
  induction ds as [ | [k l] ds IH]; [ reflexivity | ].
  cbn [map case_of pick_case lookup_z fst snd existsb]. rewrite orb_false_r, (Z.eqb_sym v k).
  destruct (k =? v); [ reflexivity | exact IH ].
Qed.

Lemma lookup_table v : forall ds, lookup_z v (table_of ds) = option_map flag_of (lookup_z v ds).
Proof.
  induction ds as [ | [k l] ds IH]; [ reflexivity | ].
  cbn [table_of map lookup_z fst snd]. destruct (k =? v); [ reflexivity | exact IH ].
Qed.

Lemma lookup_ok v : forall ds l, ds_ok ds = true -> lookup_z v ds = Some l -> (length l <= 2)%nat /\ forallb sh_ok l = true.
Proof.
  induction ds as [ | [k l0] ds IH]; intros l Hok Hl; [ discriminate | ].
  cbn [ds_ok forallb snd] in Hok. apply andb_true_iff in Hok. destruct Hok as [H0 Hok]. apply andb_true_iff in H0. destruct H0 as [Hlen Hsh].
  cbn [lookup_z] in Hl. destruct (k =? v).
  - injection Hl as <-. split; [ apply Nat.leb_le; exact Hlen | exact Hsh ].
  - apply IH; assumption.
Qed.

Lemma flag_of_range l : forallb sh_ok l = true -> 0 <= flag_of l < 18446744073709551616.
Proof.
  unfold flag_of. assert (H : forall l acc, forallb sh_ok l = true -> 0 <= acc < 18446744073709551616 ->
                              0 <= fold_left (fun a ks => Z.lor a (2 ^ snd ks)) l acc < 18446744073709551616).
  { clear l. induction l as [ | ks l IH]; intros acc Hok Hacc; [ exact Hacc | ].
    cbn [forallb] in Hok. apply andb_true_iff in Hok. destruct Hok as [Hk Hok].
    unfold sh_ok in Hk. apply andb_true_iff in Hk. destruct Hk as [Hk1 Hk2]. apply Z.leb_le in Hk1. apply Z.ltb_lt in Hk2.
    cbn [fold_left]. apply IH; [ exact Hok | ]. pose proof (pow2_u64 (snd ks) ltac:(lia)). apply lor_u64_range; lia. }
  intros Hok. apply H; [ exact Hok | lia ].
Qed.

(* a switch all of whose cases have that shape; the default is [break] or missing *)
Lemma exec_enum_switch m k ex ds dflt r v e F rho tr :
  ds_ok ds = true -> dflt = [SBreak] \/ dflt = [] -> (3 <= F)%nat ->
  ceval rho m ex = Some v -> rho "bss->encryption_info" = e -> 0 <= e < 18446744073709551616 ->
  exists rho', exec (S F) m rho tr (SSwitch k ex (map case_of ds) dflt :: r) = exec F m rho' tr r /\
    rho' "bss->encryption_info" = Z.lor e (flagv (table_of ds) v) /\ rho' "i" = rho "i" /\ frame2 rho' rho /\
    0 <= Z.lor e (flagv (table_of ds) v) < 18446744073709551616.
Proof.
  intros Hok Hd HF Hv HR He. rewrite (exec_switch _ m rho tr k ex _ dflt r v Hv). rewrite pick_map.
  unfold flagv. rewrite lookup_table.
  destruct (lookup_z v ds) as [l | ] eqn:El; cbn [option_map].
  - destruct (lookup_ok v ds l Hok El) as [Hlen Hsh].
    destruct (exec_flags m tr l F rho e 0 Hsh ltac:(lia) ltac:(rewrite Z.lor_0_r; exact HR) He ltac:(lia)) as (rho' & Hrun & Henc & Hi & Hfr).
    exists rho'. rewrite Hrun. split; [ reflexivity | ]. split; [ exact Henc | ]. split; [ exact Hi | ]. split; [ exact Hfr | ].
    apply lor_u64_range; [ exact He | apply flag_of_range; exact Hsh ].
  - exists rho. rewrite Z.lor_0_r.
    destruct F as [ | F]; [ lia | ].
    split; [ destruct Hd as [-> | ->]; [ rewrite exec_break | rewrite exec_nil ]; reflexivity | ].
    split; [ exact HR | ]. split; [ reflexivity | ]. split; [ apply frame2_refl | exact He ].
Qed.

(* ---------------------------------------------------------------- 2. one enumeration loop
   for (int i = 0; i < cnt; i++) { if (memcmp(arr[i].oui, str, 3) == 0) { switch (arr[i].suite_type) { cases } } }
   arr[i] is 4 octets: the OUI at +0 (handed to memcmp), the type octet at +3 (loaded) *)
Definition addr_expr (arr : string) (off : Z) : cexpr :=
  CBin OAdd s64 (CBin OAdd s64 (CVar u64 arr) (CBin OMul s64 (CCast s64 (CVar (mkty true 32) "i")) (CLit s64 4))) (CLit s64 off).
Definition cmp_args (arr str : string) : list cexpr :=
  [CCast u64 (addr_expr arr 0); CVar u64 str; CCast (mkty false 64) (CLit (mkty true 32) 3)].
Definition cmp_test (arr str : string) : cexpr :=
  CBin OEq (mkty true 32) (CCall (mkty true 32) "memcmp" (cmp_args arr str)) (CLit (mkty true 32) 0).
Definition type_expr (arr : string) : cexpr := CCast (mkty true 32) (CLoad (mkty false 8) (addr_expr arr 3)).
Definition incr_i : cexpr := CCast (mkty true 32) (CBin OAdd (mkty true 32) (CCast (mkty true 32) (CVar (mkty true 32) "i")) (CLit (mkty true 32) 1)).
Definition enum_loop (kl kc ki ks ku : string) (cnt : cexpr) (arr str : string) (ds : list cdesc) (dflt : list cstmt) : cstmt :=
  SLoop kl true (CBin OLt (mkty true 32) (CVar (mkty true 32) "i") cnt)
    [SCall kc "memcmp" (cmp_args arr str);
     SIf ki (cmp_test arr str) [SSwitch ks (type_expr arr) (map case_of ds) dflt] []]
    [SSet ku "i" incr_i].

(* the type octets of consecutive 4-octet suites starting at address a are readable and are the octets of tys *)
Fixpoint types_at (m : memory) (a : Z) (tys : list Z) : Prop :=
  match tys with
  | [] => True
  | t :: r => m (a + 3) = Some t /\ 0 <= t < 256 /\ types_at m (a + 4) r
  end.

Definition cmp_ev (s P j : Z) : event := ("memcmp", [P + 4 * j; s; 3]).
Definition zrange (i : Z) (n : nat) : list Z := map (fun k => i + Z.of_nat k) (seq 0 n).
Lemma zrange_S i n : zrange i (S n) = i :: zrange (i + 1) n.
Proof.
  unfold zrange. cbn [seq map]. f_equal; [ lia | ]. rewrite <- seq_shift, map_map. apply map_ext. intros k. lia.
Qed.

Lemma ceval_addr R m arr off P0 P i :
  R arr = P0 -> wrap (mkty false 64) P0 = P -> R "i" = i -> 0 <= P -> 0 <= i < 2147483648 -> 0 <= off < 4 ->
  P + 4 * i + off < 9223372036854775808 ->
  ceval R m (addr_expr arr off) = Some (P + 4 * i + off).
Proof.
  intros HP HP' Hi HP0 Hir Hoff Hend. unfold addr_expr. ceval_unfold. rewrite HP, HP', Hi.
  cev_go. f_equal. lia.
Qed.

Lemma ceval_type R m arr P0 P i t :
  R arr = P0 -> wrap (mkty false 64) P0 = P -> R "i" = i -> 0 <= P -> 0 <= i < 2147483648 ->
  P + 4 * i + 3 < 9223372036854775808 -> m (P + 4 * i + 3) = Some t -> 0 <= t < 256 ->
  ceval R m (type_expr arr) = Some t.
Proof.
  intros HP HP' Hi HP0 Hir Hend Hm Ht. unfold type_expr.
  cbn [ceval]. rewrite (ceval_addr R m arr 3 P0 P i HP HP' Hi HP0 Hir ltac:(lia) Hend).
  cbn [c_bits]. change (Z.to_nat (8 / 8)) with 1%nat. cbn [load_le]. rewrite Hm.
  replace (t + 256 * 0) with t by lia. wrap_ids. reflexivity.
Qed.

Lemma evals_cmp R m arr str P0 P i s0 :
  R arr = P0 -> wrap (mkty false 64) P0 = P -> R "i" = i -> R str = s0 -> 0 <= P -> 0 <= i < 2147483648 ->
  P + 4 * i < 9223372036854775808 ->
  evals R m (cmp_args arr str) = Some [P + 4 * i; wrap (mkty false 64) s0; 3].
Proof.
  intros HP HP' Hi Hs HP0 Hir Hend. unfold cmp_args. cbn [evals].
  cbn [ceval]. rewrite (ceval_addr R m arr 0 P0 P i HP HP' Hi HP0 Hir ltac:(lia) ltac:(lia)).
  ceval_unfold. rewrite Hs. cev_go. replace (P + 4 * i + 0) with (P + 4 * i) by lia. reflexivity.
Qed.

Lemma ceval_cmp_test R m arr str rv :
  R "ret:memcmp" = rv -> ceval R m (cmp_test arr str) = Some (b2z (wrap (mkty true 32) rv =? 0)).
Proof. intros Hr. unfold cmp_test. ceval_unfold. rewrite Hr. wrap_ids. reflexivity. Qed.

Lemma ceval_incr R m i : R "i" = i -> 0 <= i < 2147483647 -> ceval R m incr_i = Some (i + 1).
Proof. intros Hi Hr. unfold incr_i. ceval_unfold. rewrite Hi. cev_go. reflexivity. Qed.

(* the flags the loop ORs: those of the listed types when the comparison answers "equal", nothing otherwise *)
Definition fold_flags (hit : bool) (tbl : list (Z * Z)) (tys : list Z) (e : Z) : Z :=
  fold_left (fun a t => Z.lor a (if hit then flagv tbl t else 0)) tys e.

Section Loop.
  Variables (m : memory) (kl kc ki ks ku : string) (cnt : cexpr) (cname arr str : string) (ds : list cdesc) (dflt r : list cstmt).
  Variables (cv np P0 P s0 rv : Z).
  Hypothesis Hds : ds_ok ds = true.
  Hypothesis Hdflt : dflt = [SBreak] \/ dflt = [].
  Hypothesis Hcnt : forall R, R cname = cv -> ceval R m cnt = Some np.
  Hypothesis Hnp : np < 2147483648.
  Hypothesis HP' : wrap (mkty false 64) P0 = P.
  Hypothesis HP0 : 0 <= P.
  Hypothesis Hend : P + 4 * np <= 9223372036854775808.
  (* the names the loop reads are neither i nor the member it assigns *)
  Hypothesis Nc : String.eqb cname "i" = false /\ String.eqb cname "bss->encryption_info" = false.
  Hypothesis Na : String.eqb arr "i" = false /\ String.eqb arr "bss->encryption_info" = false.
  Hypothesis Ns : String.eqb str "i" = false /\ String.eqb str "bss->encryption_info" = false.

  Let hit := wrap (mkty true 32) rv =? 0.

  Lemma enum_loop_run : forall tys f rho tr i e,
    (6 <= f)%nat ->
    rho "i" = i -> rho cname = cv -> rho arr = P0 -> rho str = s0 -> rho "ret:memcmp" = rv ->
    rho "bss->encryption_info" = e -> 0 <= e < 18446744073709551616 ->
    0 <= i -> i + zlen tys = np ->
    (hit = true -> types_at m (P + 4 * i) tys) ->
    exists rho',
      exec (S (length tys + f)) m rho tr (enum_loop kl kc ki ks ku cnt arr str ds dflt :: r) =
        exec f m rho' (tr ++ map (cmp_ev (wrap (mkty false 64) s0) P) (zrange i (length tys))) r /\
      rho' "bss->encryption_info" = fold_flags hit (table_of ds) tys e /\
      0 <= fold_flags hit (table_of ds) tys e < 18446744073709551616 /\
      frame2 rho' rho.
  Proof.
    induction tys as [ | t tys IH]; intros f rho tr i e Hf Hi Hc Ha Hs Hr He Her Hi0 Hin Hm.
    - exists rho. cbn [length Nat.add]. unfold enum_loop. rewrite zlen_nil in Hin.
      rewrite exec_loop_exit.
      + unfold zrange. cbn [seq map fold_flags fold_left]. rewrite app_nil_r.
        split; [ reflexivity | ]. split; [ exact He | ]. split; [ exact Her | apply frame2_refl ].
      + cbn [ceval]. rewrite (Hcnt rho Hc). ceval_unfold. rewrite Hi. cev_go. reflexivity.
    - rewrite zlen_cons in Hin. pose proof (zlen_nonneg tys) as Hz.
      cbn [length Nat.add]. unfold enum_loop. rewrite exec_loop_enter with (v := 1); [ | | discriminate ].
      2:{ cbn [ceval]. rewrite (Hcnt rho Hc). ceval_unfold. rewrite Hi. cev_go. reflexivity. }
      fold (enum_loop kl kc ki ks ku cnt arr str ds dflt).
      destruct f as [ | [ | [ | [ | [ | [ | f]]]]]]; try (exfalso; lia).
      replace (length tys + S (S (S (S (S (S f))))))%nat with (S (S (S (S (S (S (length tys + f)))))))%nat by lia.
      rewrite (exec_call _ m rho tr kc "memcmp" _ _ _ (evals_cmp rho m arr str P0 P i s0 Ha HP' Hi Hs HP0 ltac:(lia) ltac:(lia))).
      set (tr1 := tr ++ [("memcmp", [P + 4 * i; wrap (mkty false 64) s0; 3])]).
      (* the body: the flags of this turn *)
      assert (Hbody : exists rho1,
                exec (S (S (S (S (S (S (length tys + f))))))) m rho tr1
                  [SIf ki (cmp_test arr str) [SSwitch ks (type_expr arr) (map case_of ds) dflt] []] = Fell rho1 tr1 /\
                rho1 "bss->encryption_info" = Z.lor e (if hit then flagv (table_of ds) t else 0) /\
                0 <= Z.lor e (if hit then flagv (table_of ds) t else 0) < 18446744073709551616 /\
                rho1 "i" = i /\ frame2 rho1 rho).
      { rewrite (exec_if_gen _ m rho tr1 ki _ _ _ _ _ (ceval_cmp_test rho m arr str rv Hr)). fold hit.
        destruct hit eqn:Eh.
        - specialize (Hm eq_refl). cbn [types_at] in Hm. destruct Hm as (Hmt & Ht & _).
          replace (P + 4 * i + 3) with (P + 4 * i + 3) in Hmt by lia.
          destruct (exec_enum_switch m ks (type_expr arr) ds dflt [] t e (S (S (S (S (length tys + f))))) rho tr1 Hds Hdflt ltac:(lia)
                      (ceval_type rho m arr P0 P i t Ha HP' Hi HP0 ltac:(lia) ltac:(lia) Hmt Ht) He Her)
            as (rho1 & Hrun & Henc & Hi1 & Hfr & Hrg).
          exists rho1. rewrite Hrun. rewrite !exec_nil.
          split; [ reflexivity | ]. split; [ exact Henc | ]. split; [ exact Hrg | ]. split; [ rewrite Hi1; exact Hi | exact Hfr ].
        - exists rho. rewrite !exec_nil. rewrite Z.lor_0_r.
          split; [ reflexivity | ]. split; [ exact He | ]. split; [ exact Her | ]. split; [ exact Hi | apply frame2_refl ]. }
      destruct Hbody as (rho1 & Hrun1 & Henc1 & Hrg1 & Hi1 & Hfr1).
      rewrite Hrun1.
      rewrite (exec_set _ m rho1 tr1 ku "i" _ _ _ (ceval_incr rho1 m i Hi1 ltac:(lia))). rewrite exec_nil.
      replace (S (S (S (S (S (S (S (length tys + f))))))))%nat with (S (length tys + S (S (S (S (S (S f)))))))%nat by lia.
      destruct Nc as [Nc1 Nc2]. destruct Na as [Na1 Na2]. destruct Ns as [Ns1 Ns2].
      destruct (IH (S (S (S (S (S (S f)))))) (upd rho1 "i" (i + 1)) tr1 (i + 1) (Z.lor e (if hit then flagv (table_of ds) t else 0)))
        as (rho' & Hrun & Henc & Hrg & Hfr); try lia; try exact Hrg1.
      + reflexivity.
      + unfold upd. rewrite Nc1. rewrite Hfr1 by assumption. exact Hc.
      + unfold upd. rewrite Na1. rewrite Hfr1 by assumption. exact Ha.
      + unfold upd. rewrite Ns1. rewrite Hfr1 by assumption. exact Hs.
      + unfold upd. cbn [String.eqb Ascii.eqb Bool.eqb]. rewrite Hfr1 by reflexivity. exact Hr.
      + unfold upd. cbn [String.eqb Ascii.eqb Bool.eqb]. exact Henc1.
      + intros Eh. specialize (Hm Eh). cbn [types_at] in Hm. destruct Hm as (_ & _ & Hm).
        replace (P + 4 * (i + 1)) with (P + 4 * i + 4) by lia. exact Hm.
      + exists rho'. split; [ | split; [ exact Henc | split; [ exact Hrg | ] ] ].
        * rewrite zrange_S. cbn [map]. unfold tr1 in Hrun. rewrite <- app_assoc in Hrun. cbn [app] in Hrun.
          exact Hrun.
        * eapply frame2_trans; [ exact Hfr | ]. eapply frame2_trans; [ apply frame2_upd_i | exact Hfr1 ].
  Qed.
End Loop.

(* ---------------------------------------------------------------- 3. the whole routine, for both element kinds *)
Lemma fold_flags_hit tbl : forall tys e,
  fold_flags true tbl tys e = Z.lor e (fold_left (fun a t => Z.lor a (flagv tbl t)) tys 0).
Proof.
  unfold fold_flags.
  assert (H : forall tys e acc, fold_left (fun a t => Z.lor a (flagv tbl t)) tys (Z.lor e acc)
                                = Z.lor e (fold_left (fun a t => Z.lor a (flagv tbl t)) tys acc)).
  { induction tys as [ | t tys IH]; intros e acc; [ reflexivity | ]. cbn [fold_left]. rewrite <- Z.lor_assoc. apply IH. }
  intros tys e. rewrite <- H, Z.lor_0_r. reflexivity.
Qed.

Lemma fold_flags_miss tbl : forall tys e, fold_flags false tbl tys e = e.
Proof. unfold fold_flags. induction tys as [ | t tys IH]; intros e; [ reflexivity | ]. cbn [fold_left]. rewrite Z.lor_0_r. apply IH. Qed.

Definition group_sel (gis gtype : string) : cexpr :=
  CCond (mkty true 32) (CVar (mkty true 32) gis) (CCast (mkty true 32) (CVar (mkty false 8) gtype)) (CUn UNeg (mkty true 32) (CLit (mkty true 32) 1)).
Definition zero_i : cexpr := CCast (mkty true 32) (CLit (mkty true 32) 0).
Definition group_args (goui str : string) : list cexpr := [CVar u64 goui; CVar u64 str; CCast (mkty false 64) (CLit (mkty true 32) 3)].

Definition enum_body (goui str gis gtype : string) (ds0 : list cdesc)
           (cnt1 : cexpr) (arr1 : string) (ds1 : list cdesc) (d1 : list cstmt)
           (cnt2 : cexpr) (arr2 : string) (ds2 : list cdesc) (d2 : list cstmt) : list cstmt :=
  [SCall "call:memcmp#0" "memcmp" (group_args goui str);
   SSet ("decl:" ++ gis ++ "#0") gis (CCast (mkty true 32) (CBin OEq (mkty true 32) (CCall (mkty true 32) "memcmp" (group_args goui str)) (CLit (mkty true 32) 0)));
   SSwitch "switch#0" (group_sel gis gtype) (map case_of ds0) [SBreak];
   SSet "decl:i#0" "i" zero_i;
   enum_loop "loop#0" "call:memcmp#1" "if#0" "switch#1" "upd:i#0" cnt1 arr1 str ds1 d1;
   SSet "decl:i#1" "i" zero_i;
   enum_loop "loop#1" "call:memcmp#2" "if#1" "switch#2" "upd:i#1" cnt2 arr2 str ds2 d2].

Definition enum_fuel (np na : nat) : nat := (S (S (S (S (S (np + S (S (na + 6))))))))%nat.

Section Whole.
  Variables (m : memory) (goui str gis gtype cname1 arr1 cname2 arr2 : string) (ds0 ds1 ds2 : list cdesc) (d1 d2 : list cstmt) (cnt1 cnt2 : cexpr).
  Variables (cv1 cv2 cmax : Z).
  Hypothesis Hds0 : ds_ok ds0 = true.
  Hypothesis Hds1 : ds_ok ds1 = true.
  Hypothesis Hds2 : ds_ok ds2 = true.
  Hypothesis Hd1 : d1 = [SBreak] \/ d1 = [].
  Hypothesis Hd2 : d2 = [SBreak] \/ d2 = [].
  Hypothesis Hcnt1 : forall R, R cname1 = cv1 -> ceval R m cnt1 = Some cv1.
  Hypothesis Hcnt2 : forall R, R cname2 = cv2 -> ceval R m cnt2 = Some cv2.
  Definition nm_ok (y : string) : Prop :=
    String.eqb y "i" = false /\ String.eqb y "bss->encryption_info" = false /\ String.eqb y gis = false.
  Hypothesis N1 : nm_ok cname1.
  Hypothesis N2 : nm_ok arr1.
  Hypothesis N3 : nm_ok cname2.
  Hypothesis N4 : nm_ok arr2.
  Hypothesis N5 : nm_ok str.
  Hypothesis N6 : nm_ok "ret:memcmp".
  Hypothesis N7 : String.eqb gtype gis = false.
  Hypothesis N8 : String.eqb "bss->encryption_info" gis = false.

  Definition frame3 (R' R : env) : Prop := forall y, nm_ok y -> R' y = R y.

  Theorem enum_body_run rho e g P A tp ta rv :
    rho "bss->encryption_info" = e -> 0 <= e < 18446744073709551616 ->
    wrap (mkty false 8) (rho gtype) = g ->
    rho cname1 = cv1 -> cv1 = zlen tp -> cv1 < 2147483648 ->
    rho cname2 = cv2 -> cv2 = zlen ta -> cv2 < 2147483648 ->
    wrap (mkty false 64) (rho arr1) = P -> P + 4 * zlen tp <= 9223372036854775808 ->
    wrap (mkty false 64) (rho arr2) = A -> A + 4 * zlen ta <= 9223372036854775808 ->
    rho "ret:memcmp" = rv ->
    let hit := wrap (mkty true 32) rv =? 0 in
    (hit = true -> types_at m P tp) -> (hit = true -> types_at m A ta) ->
    let s := wrap (mkty false 64) (rho str) in
    let e0 := Z.lor e (flagv (table_of ds0) (if hit then g else -1)) in
    exists rho',
      exec (enum_fuel (length tp) (length ta)) m rho []
           (enum_body goui str gis gtype ds0 cnt1 arr1 ds1 d1 cnt2 arr2 ds2 d2) =
        Fell rho' (("memcmp", [wrap (mkty false 64) (rho goui); s; 3]) ::
                   map (cmp_ev s P) (zrange 0 (length tp)) ++ map (cmp_ev s A) (zrange 0 (length ta))) /\
      rho' "bss->encryption_info" = fold_flags hit (table_of ds2) ta (fold_flags hit (table_of ds1) tp e0).
  Proof.
    intros He Her Hg Hc1 Hn1 Hr1 Hc2 Hn2 Hr2 HP HPe HA HAe Hrv hit Hm1 Hm2 s e0.
    destruct N1 as (N1a & N1b & N1c). destruct N2 as (N2a & N2b & N2c). destruct N3 as (N3a & N3b & N3c).
    destruct N4 as (N4a & N4b & N4c). destruct N5 as (N5a & N5b & N5c). destruct N6 as (N6a & N6b & N6c).
    assert (HP0 : 0 <= P) by (rewrite <- HP; unfold wrap, modulus; cbn [c_signed c_bits]; apply Z.mod_pos_bound; lia).
    assert (HA0 : 0 <= A) by (rewrite <- HA; unfold wrap, modulus; cbn [c_signed c_bits]; apply Z.mod_pos_bound; lia).
    unfold enum_body, enum_fuel.
    erewrite exec_call by (unfold group_args; ceval_unfold; cev_go; reflexivity).
    erewrite exec_set by (unfold group_args; ceval_unfold; rewrite Hrv; cev_go; reflexivity).
    fold hit. cbn [app].
    set (rho1 := upd rho gis _).
    assert (F1 : forall y, String.eqb y gis = false -> rho1 y = rho y) by (intros y Hy; unfold rho1, upd; rewrite Hy; reflexivity).
    assert (Hgis : rho1 gis = b2z hit).
    { unfold rho1, upd. rewrite String.eqb_refl. destruct hit; reflexivity. }
    assert (Hsel : ceval rho1 m (group_sel gis gtype) = Some (if hit then g else -1)).
    { unfold group_sel. cbn [ceval]. rewrite Hgis, (F1 gtype N7), Hg.
      assert (0 <= g < 256) by (rewrite <- Hg; unfold wrap, modulus; cbn [c_signed c_bits]; apply Z.mod_pos_bound; lia).
      destruct hit; cbn [b2z]; cev_go; reflexivity. }
    destruct (exec_enum_switch m "switch#0" (group_sel gis gtype) ds0 [SBreak]
                [SSet "decl:i#0" "i" zero_i;
                 enum_loop "loop#0" "call:memcmp#1" "if#0" "switch#1" "upd:i#0" cnt1 arr1 str ds1 d1;
                 SSet "decl:i#1" "i" zero_i;
                 enum_loop "loop#1" "call:memcmp#2" "if#1" "switch#2" "upd:i#1" cnt2 arr2 str ds2 d2]
                (if hit then g else -1) e (S (S (length tp + S (S (length ta + 6))))) rho1
                [("memcmp", [wrap (mkty false 64) (rho goui); wrap (mkty false 64) (rho str); 3])]
                Hds0 ltac:(left; reflexivity) ltac:(lia) Hsel ltac:(rewrite (F1 _ N8); exact He) Her)
      as (rho2 & Hrun2 & Henc2 & _ & Hfr2 & Hrg2).
    rewrite Hrun2. clear Hrun2. fold e0 in Henc2, Hrg2.
    erewrite exec_set by (unfold zero_i; ceval_unfold; cev_go; reflexivity).
    assert (K2 : forall y, nm_ok y -> upd rho2 "i" 0 y = rho y).
    { intros y (Ya & Yb & Yc). unfold upd. rewrite Ya. rewrite Hfr2 by assumption. apply F1; exact Yc. }
    destruct (enum_loop_run m "loop#0" "call:memcmp#1" "if#0" "switch#1" "upd:i#0" cnt1 cname1 arr1 str ds1 d1
                [SSet "decl:i#1" "i" zero_i; enum_loop "loop#1" "call:memcmp#2" "if#1" "switch#2" "upd:i#1" cnt2 arr2 str ds2 d2]
                cv1 cv1 (rho arr1) P (rho str) rv Hds1 Hd1 Hcnt1 Hr1 HP HP0 ltac:(lia)
                (conj N1a N1b) (conj N2a N2b) (conj N5a N5b)
                tp (S (S (length ta + 6))) (upd rho2 "i" 0)
                [("memcmp", [wrap (mkty false 64) (rho goui); wrap (mkty false 64) (rho str); 3])] 0 e0
                ltac:(lia) eq_refl)
      as (rho3 & Hrun3 & Henc3 & Hrg3 & Hfr3).
    { rewrite K2 by (repeat split; assumption). exact Hc1. }
    { apply K2; repeat split; assumption. }
    { apply K2; repeat split; assumption. }
    { rewrite K2 by (repeat split; assumption). exact Hrv. }
    { unfold upd. cbn [String.eqb Ascii.eqb Bool.eqb]. exact Henc2. }
    { exact Hrg2. }
    { lia. }
    { lia. }
    { intros Eh. replace (P + 4 * 0) with P by lia. apply Hm1. exact Eh. }
    rewrite Hrun3. clear Hrun3.
    erewrite exec_set by (unfold zero_i; ceval_unfold; cev_go; reflexivity).
    assert (K3 : forall y, nm_ok y -> upd rho3 "i" 0 y = rho y).
    { intros y (Ya & Yb & Yc). unfold upd. rewrite Ya. rewrite Hfr3 by assumption. apply K2. repeat split; assumption. }
    match goal with |- context [exec _ m (upd rho3 "i" 0) ?tr4 _] =>
    destruct (enum_loop_run m "loop#1" "call:memcmp#2" "if#1" "switch#2" "upd:i#1" cnt2 cname2 arr2 str ds2 d2 []
                cv2 cv2 (rho arr2) A (rho str) rv Hds2 Hd2 Hcnt2 Hr2 HA HA0 ltac:(lia)
                (conj N3a N3b) (conj N4a N4b) (conj N5a N5b)
                ta 6%nat (upd rho3 "i" 0)
                tr4 0
                (fold_flags hit (table_of ds1) tp e0) ltac:(lia) eq_refl)
      as (rho4 & Hrun4 & Henc4 & Hrg4 & Hfr4) end.
    { rewrite K3 by (repeat split; assumption). exact Hc2. }
    { apply K3; repeat split; assumption. }
    { apply K3; repeat split; assumption. }
    { rewrite K3 by (repeat split; assumption). exact Hrv. }
    { unfold upd. cbn [String.eqb Ascii.eqb Bool.eqb]. exact Henc3. }
    { exact Hrg3. }
    { lia. }
    { lia. }
    { intros Eh. replace (A + 4 * 0) with A by lia. apply Hm2. exact Eh. }
    rewrite Hrun4. rewrite exec_nil. exists rho4. split; [ | exact Henc4 ].
    unfold s. rewrite <- app_assoc. reflexivity.
  Qed.
End Whole.

(* ---------------------------------------------------------------- 4. the two translated bodies have that shape (D: the case tables) *)
Definition group_cases (b : list cstmt) : list (list Z * list cstmt) :=
  match nth 2 b (SOther "") with SSwitch _ _ cs _ => cs | _ => [] end.
Definition loop_cases (n : nat) (b : list cstmt) : list (list Z * list cstmt) :=
  match nth n b (SOther "") with SLoop _ _ _ [_; SIf _ _ [SSwitch _ _ cs _] _] _ => cs | _ => [] end.

Definition rsn_ds0 : list cdesc := Eval vm_compute in map desc_of (group_cases body_libwifi_enumerate_rsn_suites).
Definition rsn_ds1 : list cdesc := Eval vm_compute in map desc_of (loop_cases 4 body_libwifi_enumerate_rsn_suites).
Definition rsn_ds2 : list cdesc := Eval vm_compute in map desc_of (loop_cases 6 body_libwifi_enumerate_rsn_suites).
Definition wpa_ds0 : list cdesc := Eval vm_compute in map desc_of (group_cases body_libwifi_enumerate_wpa_suites).
Definition wpa_ds1 : list cdesc := Eval vm_compute in map desc_of (loop_cases 4 body_libwifi_enumerate_wpa_suites).
Definition wpa_ds2 : list cdesc := Eval vm_compute in map desc_of (loop_cases 6 body_libwifi_enumerate_wpa_suites).

Definition rsn_cnt1 : cexpr := CVar (mkty true 32) "rsn_info->num_pairwise_cipher_suites".
Definition rsn_cnt2 : cexpr := CVar (mkty true 32) "rsn_info->num_auth_key_mgmt_suites".
Definition wpa_cnt1 : cexpr := CCast (mkty true 32) (CVar (mkty false 16) "wpa_info->num_unicast_cipher_suites").
Definition wpa_cnt2 : cexpr := CCast (mkty true 32) (CVar (mkty false 16) "wpa_info->num_auth_key_mgmt_suites").

(* the translated bodies ARE the generic routine over the extracted case descriptions: every case is
   [case L: bss->encryption_info |= 1ULL << sh; (once or twice) break;], the selectors, counts, addresses and defaults are the ones below.
   The key-management switch of the WPA routine has no default (falls out of the switch), the five others have [default: break]. *)
Lemma rsn_body_shape :
  body_libwifi_enumerate_rsn_suites =
    enum_body "&rsn_info->group_cipher_suite.oui" "str:\x00\x0f\xac" "group_is_ieee" "rsn_info->group_cipher_suite.suite_type" rsn_ds0
      rsn_cnt1 "&rsn_info->pairwise_cipher_suites" rsn_ds1 [SBreak]
      rsn_cnt2 "&rsn_info->auth_key_mgmt_suites" rsn_ds2 [SBreak].
Proof. reflexivity. Qed.

Lemma wpa_body_shape :
  body_libwifi_enumerate_wpa_suites =
    enum_body "&wpa_info->multicast_cipher_suite.oui" "str:\x00P\xf2" "multicast_is_msft" "wpa_info->multicast_cipher_suite.suite_type" wpa_ds0
      wpa_cnt1 "&wpa_info->unicast_cipher_suites" wpa_ds1 [SBreak]
      wpa_cnt2 "&wpa_info->auth_key_mgmt_suites" wpa_ds2 [].
Proof. reflexivity. Qed.

(* D. suite type -> flags ORed, as the switches have them = the model's tables (Gen/Tables.v), entry by entry and in order *)
Theorem rsn_group_cases_match : table_of (map desc_of (group_cases body_libwifi_enumerate_rsn_suites)) = rsn_group_table.
Proof. reflexivity. Qed.
Theorem rsn_pairwise_cases_match : table_of (map desc_of (loop_cases 4 body_libwifi_enumerate_rsn_suites)) = rsn_pairwise_table.
Proof. reflexivity. Qed.
Theorem rsn_akm_cases_match : table_of (map desc_of (loop_cases 6 body_libwifi_enumerate_rsn_suites)) = rsn_akm_table.
Proof. reflexivity. Qed.
Theorem wpa_group_cases_match : table_of (map desc_of (group_cases body_libwifi_enumerate_wpa_suites)) = wpa_group_table.
Proof. reflexivity. Qed.
Theorem wpa_pairwise_cases_match : table_of (map desc_of (loop_cases 4 body_libwifi_enumerate_wpa_suites)) = wpa_pairwise_table.
Proof. reflexivity. Qed.
Theorem wpa_akm_cases_match : table_of (map desc_of (loop_cases 6 body_libwifi_enumerate_wpa_suites)) = wpa_akm_table.
Proof. reflexivity. Qed.
(* ... and the extraction loses nothing: the cases are rebuilt from the descriptions *)
Theorem rsn_cases_exact :
  group_cases body_libwifi_enumerate_rsn_suites = map case_of rsn_ds0 /\
  loop_cases 4 body_libwifi_enumerate_rsn_suites = map case_of rsn_ds1 /\
  loop_cases 6 body_libwifi_enumerate_rsn_suites = map case_of rsn_ds2.
Proof. repeat split; reflexivity. Qed.
Theorem wpa_cases_exact :
  group_cases body_libwifi_enumerate_wpa_suites = map case_of wpa_ds0 /\
  loop_cases 4 body_libwifi_enumerate_wpa_suites = map case_of wpa_ds1 /\
  loop_cases 6 body_libwifi_enumerate_wpa_suites = map case_of wpa_ds2.
Proof. repeat split; reflexivity. Qed.

Lemma rsn_t0 : table_of rsn_ds0 = rsn_group_table. Proof. reflexivity. Qed.
Lemma rsn_t1 : table_of rsn_ds1 = rsn_pairwise_table. Proof. reflexivity. Qed.
Lemma rsn_t2 : table_of rsn_ds2 = rsn_akm_table. Proof. reflexivity. Qed.
Lemma wpa_t0 : table_of wpa_ds0 = wpa_group_table. Proof. reflexivity. Qed.
Lemma wpa_t1 : table_of wpa_ds1 = wpa_pairwise_table. Proof. reflexivity. Qed.
Lemma wpa_t2 : table_of wpa_ds2 = wpa_akm_table. Proof. reflexivity. Qed.

(* ---------------------------------------------------------------- 5. the theorems *)
Definition flags_of (tbl : list (Z * Z)) (tys : list Z) : Z := fold_left (fun a t => Z.lor a (flagv tbl t)) tys 0.

Definition rsn_env (rho : env) (e g np na P A : Z) : env :=
  upd (upd (upd (upd (upd (upd rho "bss->encryption_info" e) "rsn_info->group_cipher_suite.suite_type" g)
    "rsn_info->num_pairwise_cipher_suites" np) "rsn_info->num_auth_key_mgmt_suites" na)
    "&rsn_info->pairwise_cipher_suites" P) "&rsn_info->auth_key_mgmt_suites" A.
Definition wpa_env (rho : env) (e g np na P A : Z) : env :=
  upd (upd (upd (upd (upd (upd rho "bss->encryption_info" e) "wpa_info->multicast_cipher_suite.suite_type" g)
    "wpa_info->num_unicast_cipher_suites" np) "wpa_info->num_auth_key_mgmt_suites" na)
    "&wpa_info->unicast_cipher_suites" P) "&wpa_info->auth_key_mgmt_suites" A.

(* the calls: the group suite's OUI, then the OUI of every listed suite (4 octets apart), all against the same 3-octet string *)
Definition enum_trace (G s P A : Z) (np na : nat) : list event :=
  ("memcmp", [G; s; 3]) :: map (cmp_ev s P) (zrange 0 np) ++ map (cmp_ev s A) (zrange 0 na).

Lemma rsn_gen rho m e g P A tp ta :
  0 <= e < 2 ^ 64 -> 0 <= g < 256 -> zlen tp < 2 ^ 31 -> zlen ta < 2 ^ 31 ->
  0 <= P -> P + 4 * zlen tp <= 2 ^ 63 -> 0 <= A -> A + 4 * zlen ta <= 2 ^ 63 ->
  let hit := wrap (mkty true 32) (rho "ret:memcmp") =? 0 in
  (hit = true -> types_at m P tp) -> (hit = true -> types_at m A ta) ->
  exists rho',
    exec (enum_fuel (length tp) (length ta)) m (rsn_env rho e g (zlen tp) (zlen ta) P A) [] body_libwifi_enumerate_rsn_suites =
      Fell rho' (enum_trace (wrap u64 (rho "&rsn_info->group_cipher_suite.oui")) (wrap u64 (rho "str:\x00\x0f\xac")) P A (length tp) (length ta)) /\
    rho' "bss->encryption_info" =
      fold_flags hit rsn_akm_table ta (fold_flags hit rsn_pairwise_table tp (Z.lor e (flagv rsn_group_table (if hit then g else -1)))).
Proof.
  intros He Hg Hnp Hna HP HPe HA HAe hit Hm1 Hm2. nums.
  pose proof (zlen_nonneg tp) as Hz1. pose proof (zlen_nonneg ta) as Hz2.
  rewrite rsn_body_shape. rewrite <- rsn_t0, <- rsn_t1, <- rsn_t2. unfold enum_trace.
  set (R0 := rsn_env rho e g (zlen tp) (zlen ta) P A).
  change (rho "&rsn_info->group_cipher_suite.oui") with (R0 "&rsn_info->group_cipher_suite.oui").
  change (rho "str:\x00\x0f\xac") with (R0 "str:\x00\x0f\xac").
  apply enum_body_run with (cname1 := "rsn_info->num_pairwise_cipher_suites") (cname2 := "rsn_info->num_auth_key_mgmt_suites")
                           (cv1 := zlen tp) (cv2 := zlen ta) (rv := rho "ret:memcmp") (g := g); try reflexivity; try (repeat split; reflexivity); try (left; reflexivity); try assumption; try lia.
  - intros R HR. unfold rsn_cnt1. ceval_unfold. rewrite HR. cev_go. reflexivity.
  - intros R HR. unfold rsn_cnt2. ceval_unfold. rewrite HR. cev_go. reflexivity.
  - unfold R0, rsn_env. upd_red. cev_go. reflexivity.
  - unfold R0, rsn_env. upd_red. cev_go. reflexivity.
  - unfold R0, rsn_env. upd_red. cev_go. reflexivity.
Qed.

Lemma wpa_gen rho m e g P A tp ta :
  0 <= e < 2 ^ 64 -> 0 <= g < 256 -> zlen tp < 65536 -> zlen ta < 65536 ->
  0 <= P -> P + 4 * zlen tp <= 2 ^ 63 -> 0 <= A -> A + 4 * zlen ta <= 2 ^ 63 ->
  let hit := wrap (mkty true 32) (rho "ret:memcmp") =? 0 in
  (hit = true -> types_at m P tp) -> (hit = true -> types_at m A ta) ->
  exists rho',
    exec (enum_fuel (length tp) (length ta)) m (wpa_env rho e g (zlen tp) (zlen ta) P A) [] body_libwifi_enumerate_wpa_suites =
      Fell rho' (enum_trace (wrap u64 (rho "&wpa_info->multicast_cipher_suite.oui")) (wrap u64 (rho "str:\x00P\xf2")) P A (length tp) (length ta)) /\
    rho' "bss->encryption_info" =
      fold_flags hit wpa_akm_table ta (fold_flags hit wpa_pairwise_table tp (Z.lor e (flagv wpa_group_table (if hit then g else -1)))).
Proof.
  intros He Hg Hnp Hna HP HPe HA HAe hit Hm1 Hm2. nums.
  pose proof (zlen_nonneg tp) as Hz1. pose proof (zlen_nonneg ta) as Hz2.
  rewrite wpa_body_shape. rewrite <- wpa_t0, <- wpa_t1, <- wpa_t2. unfold enum_trace.
  set (R0 := wpa_env rho e g (zlen tp) (zlen ta) P A).
  change (rho "&wpa_info->multicast_cipher_suite.oui") with (R0 "&wpa_info->multicast_cipher_suite.oui").
  change (rho "str:\x00P\xf2") with (R0 "str:\x00P\xf2").
  apply enum_body_run with (cname1 := "wpa_info->num_unicast_cipher_suites") (cname2 := "wpa_info->num_auth_key_mgmt_suites")
                           (cv1 := zlen tp) (cv2 := zlen ta) (rv := rho "ret:memcmp") (g := g); try reflexivity; try (repeat split; reflexivity); try (left; reflexivity); try (right; reflexivity);
    try assumption; try lia.
  - intros R HR. unfold wpa_cnt1. ceval_unfold. rewrite HR. cev_go. reflexivity.
  - intros R HR. unfold wpa_cnt2. ceval_unfold. rewrite HR. cev_go. reflexivity.
  - unfold R0, wpa_env. upd_red. cev_go. reflexivity.
  - unfold R0, wpa_env. upd_red. cev_go. reflexivity.
  - unfold R0, wpa_env. upd_red. cev_go. reflexivity.
Qed.

Lemma flagv_minus1 : flagv rsn_group_table (-1) = 0 /\ flagv wpa_group_table (-1) = 0.
Proof. split; reflexivity. Qed.

(* A (RSN). every OUI comparison answers "equal" (r = 0).  Memory: ANY memory m in which the type octets of the np pairwise suites at P and of
   the na key-management suites at A are readable and are the octets of tp / ta ([types_at]: octet +3 of each 4-octet suite; the OUI octets are
   only handed to memcmp, never loaded).  Counts: np = |tp|, na = |ta|, any value 0 .. 2^31 - 1 of the [int] members (no clamp to 6 in this
   routine: it reads as many suites as the count says).  Addresses: the arrays end at or below 2^63 (pointer arithmetic is evaluated in
   signed 64 bits by the translation). *)
Theorem code_enumerate_rsn_equal rho m e g P A tp ta :
  0 <= e < 2 ^ 64 -> 0 <= g < 256 -> zlen tp < 2 ^ 31 -> zlen ta < 2 ^ 31 ->
  0 <= P -> P + 4 * zlen tp <= 2 ^ 63 -> 0 <= A -> A + 4 * zlen ta <= 2 ^ 63 ->
  types_at m P tp -> types_at m A ta ->
  wrap s32 (rho "ret:memcmp") = 0 ->
  exists rho',
    exec (enum_fuel (length tp) (length ta)) m (rsn_env rho e g (zlen tp) (zlen ta) P A) [] body_libwifi_enumerate_rsn_suites =
      Fell rho' (enum_trace (wrap u64 (rho "&rsn_info->group_cipher_suite.oui")) (wrap u64 (rho "str:\x00\x0f\xac")) P A (length tp) (length ta)) /\
    rho' "bss->encryption_info" =
      Z.lor (Z.lor (Z.lor e (flagv rsn_group_table g)) (flags_of rsn_pairwise_table tp)) (flags_of rsn_akm_table ta).
Proof.
  intros He Hg Hnp Hna HP HPe HA HAe Hm1 Hm2 Hr.
  destruct (rsn_gen rho m e g P A tp ta He Hg Hnp Hna HP HPe HA HAe (fun _ => Hm1) (fun _ => Hm2)) as (rho' & Hrun & Henc).
  exists rho'. split; [ exact Hrun | ]. rewrite Henc. unfold s32 in Hr. rewrite Hr. change (0 =? 0) with true. cbv beta iota.
  rewrite !fold_flags_hit. reflexivity.
Qed.

Theorem code_enumerate_wpa_equal rho m e g P A tp ta :
  0 <= e < 2 ^ 64 -> 0 <= g < 256 -> zlen tp < 65536 -> zlen ta < 65536 ->
  0 <= P -> P + 4 * zlen tp <= 2 ^ 63 -> 0 <= A -> A + 4 * zlen ta <= 2 ^ 63 ->
  types_at m P tp -> types_at m A ta ->
  wrap s32 (rho "ret:memcmp") = 0 ->
  exists rho',
    exec (enum_fuel (length tp) (length ta)) m (wpa_env rho e g (zlen tp) (zlen ta) P A) [] body_libwifi_enumerate_wpa_suites =
      Fell rho' (enum_trace (wrap u64 (rho "&wpa_info->multicast_cipher_suite.oui")) (wrap u64 (rho "str:\x00P\xf2")) P A (length tp) (length ta)) /\
    rho' "bss->encryption_info" =
      Z.lor (Z.lor (Z.lor e (flagv wpa_group_table g)) (flags_of wpa_pairwise_table tp)) (flags_of wpa_akm_table ta).
Proof.
  intros He Hg Hnp Hna HP HPe HA HAe Hm1 Hm2 Hr.
  destruct (wpa_gen rho m e g P A tp ta He Hg Hnp Hna HP HPe HA HAe (fun _ => Hm1) (fun _ => Hm2)) as (rho' & Hrun & Henc).
  exists rho'. split; [ exact Hrun | ]. rewrite Henc. unfold s32 in Hr. rewrite Hr. change (0 =? 0) with true. cbv beta iota.
  rewrite !fold_flags_hit. reflexivity.
Qed.

(* B. the comparisons answer "different" (r <> 0): the same calls, nothing is ORed; no memory is read at all (m is arbitrary) *)
Lemma zlen_repeat (x : Z) n : zlen (repeat x n) = Z.of_nat n.
Proof. unfold zlen. rewrite repeat_length. reflexivity. Qed.

Theorem code_enumerate_rsn_differ rho m e g P A np na :
  0 <= e < 2 ^ 64 -> 0 <= g < 256 -> 0 <= np < 2 ^ 31 -> 0 <= na < 2 ^ 31 ->
  0 <= P -> P + 4 * np <= 2 ^ 63 -> 0 <= A -> A + 4 * na <= 2 ^ 63 ->
  wrap s32 (rho "ret:memcmp") <> 0 ->
  exists rho',
    exec (enum_fuel (Z.to_nat np) (Z.to_nat na)) m (rsn_env rho e g np na P A) [] body_libwifi_enumerate_rsn_suites =
      Fell rho' (enum_trace (wrap u64 (rho "&rsn_info->group_cipher_suite.oui")) (wrap u64 (rho "str:\x00\x0f\xac")) P A (Z.to_nat np) (Z.to_nat na)) /\
    rho' "bss->encryption_info" = e.
Proof.
  intros He Hg Hnp Hna HP HPe HA HAe Hr.
  assert (E1 : zlen (repeat 0 (Z.to_nat np)) = np) by (rewrite zlen_repeat; lia).
  assert (E2 : zlen (repeat 0 (Z.to_nat na)) = na) by (rewrite zlen_repeat; lia).
  pose proof (rsn_gen rho m e g P A (repeat 0 (Z.to_nat np)) (repeat 0 (Z.to_nat na))) as H.
  rewrite E1, E2, !repeat_length in H. cbv zeta in H. unfold s32 in Hr.
  rewrite (proj2 (Z.eqb_neq _ _) Hr) in H.
  destruct (H He Hg ltac:(lia) ltac:(lia) HP HPe HA HAe ltac:(discriminate) ltac:(discriminate)) as (rho' & Hrun & Henc).
  exists rho'. split; [ exact Hrun | ]. rewrite Henc, !fold_flags_miss. change (flagv rsn_group_table (-1)) with 0. apply Z.lor_0_r.
Qed.

Theorem code_enumerate_wpa_differ rho m e g P A np na :
  0 <= e < 2 ^ 64 -> 0 <= g < 256 -> 0 <= np < 65536 -> 0 <= na < 65536 ->
  0 <= P -> P + 4 * np <= 2 ^ 63 -> 0 <= A -> A + 4 * na <= 2 ^ 63 ->
  wrap s32 (rho "ret:memcmp") <> 0 ->
  exists rho',
    exec (enum_fuel (Z.to_nat np) (Z.to_nat na)) m (wpa_env rho e g np na P A) [] body_libwifi_enumerate_wpa_suites =
      Fell rho' (enum_trace (wrap u64 (rho "&wpa_info->multicast_cipher_suite.oui")) (wrap u64 (rho "str:\x00P\xf2")) P A (Z.to_nat np) (Z.to_nat na)) /\
    rho' "bss->encryption_info" = e.
Proof.
  intros He Hg Hnp Hna HP HPe HA HAe Hr.
  assert (E1 : zlen (repeat 0 (Z.to_nat np)) = np) by (rewrite zlen_repeat; lia).
  assert (E2 : zlen (repeat 0 (Z.to_nat na)) = na) by (rewrite zlen_repeat; lia).
  pose proof (wpa_gen rho m e g P A (repeat 0 (Z.to_nat np)) (repeat 0 (Z.to_nat na))) as H.
  rewrite E1, E2, !repeat_length in H. cbv zeta in H. unfold s32 in Hr.
  rewrite (proj2 (Z.eqb_neq _ _) Hr) in H.
  destruct (H He Hg ltac:(lia) ltac:(lia) HP HPe HA HAe ltac:(discriminate) ltac:(discriminate)) as (rho' & Hrun & Henc).
  exists rho'. split; [ exact Hrun | ]. rewrite Henc, !fold_flags_miss. change (flagv wpa_group_table (-1)) with 0. apply Z.lor_0_r.
Qed.

(* C. the model.  An rsn_info / wpa_info all of whose suites carry the element kind's OUI (that is what "every comparison answers equal" means)
   and whose type octets are the ones in memory: the member ends as  e | enumerate_rsn info  (resp. enumerate_wpa). *)
Import LW.Model.Security.

Lemma suite_flags_same oui tbl s : fst s = oui -> suite_flags oui tbl s = flagv tbl (snd s).
Proof.
  intros H. unfold suite_flags, oui_eqb, flagv. rewrite H. destruct (list_eq_dec Z.eq_dec oui oui) as [_ | N]; [ reflexivity | contradiction ].
Qed.

Lemma suites_flags_same oui tbl l : Forall (fun s => fst s = oui) l -> suites_flags oui tbl l = flags_of tbl (map snd l).
Proof.
  unfold suites_flags, flags_of. generalize 0. induction l as [ | s l IH]; intros acc Hl; [ reflexivity | ].
  apply Forall_cons_iff in Hl; destruct Hl as [Hs Hl']. cbn [map fold_left]. rewrite (suite_flags_same oui tbl s Hs). apply IH. exact Hl'.
Qed.

Theorem code_enumerate_rsn_refines_model rho m e P A (info : rsn_info) :
  let g := snd (r_group info) in let tp := map snd (r_pairwise info) in let ta := map snd (r_akms info) in
  fst (r_group info) = rsn_oui -> Forall (fun s => fst s = rsn_oui) (r_pairwise info) -> Forall (fun s => fst s = rsn_oui) (r_akms info) ->
  0 <= e < 2 ^ 64 -> 0 <= g < 256 -> zlen tp < 2 ^ 31 -> zlen ta < 2 ^ 31 ->
  0 <= P -> P + 4 * zlen tp <= 2 ^ 63 -> 0 <= A -> A + 4 * zlen ta <= 2 ^ 63 ->
  types_at m P tp -> types_at m A ta ->
  wrap s32 (rho "ret:memcmp") = 0 ->
  exists rho',
    exec (enum_fuel (length tp) (length ta)) m (rsn_env rho e g (zlen tp) (zlen ta) P A) [] body_libwifi_enumerate_rsn_suites =
      Fell rho' (enum_trace (wrap u64 (rho "&rsn_info->group_cipher_suite.oui")) (wrap u64 (rho "str:\x00\x0f\xac")) P A (length tp) (length ta)) /\
    rho' "bss->encryption_info" = Z.lor e (enumerate_rsn info).
Proof.
  intros g tp ta Hgo Hpo Hao He Hg Hnp Hna HP HPe HA HAe Hm1 Hm2 Hr.
  destruct (code_enumerate_rsn_equal rho m e g P A tp ta He Hg Hnp Hna HP HPe HA HAe Hm1 Hm2 Hr) as (rho' & Hrun & Henc).
  exists rho'. split; [ exact Hrun | ]. rewrite Henc. unfold enumerate_rsn.
  rewrite (suite_flags_same _ _ _ Hgo), (suites_flags_same _ _ _ Hpo), (suites_flags_same _ _ _ Hao).
  fold g tp ta. rewrite !Z.lor_assoc. reflexivity.
Qed.

Theorem code_enumerate_wpa_refines_model rho m e P A (info : wpa_info) :
  let g := snd (wi_multicast info) in let tp := map snd (wi_unicast info) in let ta := map snd (wi_akms info) in
  fst (wi_multicast info) = wpa_oui -> Forall (fun s => fst s = wpa_oui) (wi_unicast info) -> Forall (fun s => fst s = wpa_oui) (wi_akms info) ->
  0 <= e < 2 ^ 64 -> 0 <= g < 256 -> zlen tp < 65536 -> zlen ta < 65536 ->
  0 <= P -> P + 4 * zlen tp <= 2 ^ 63 -> 0 <= A -> A + 4 * zlen ta <= 2 ^ 63 ->
  types_at m P tp -> types_at m A ta ->
  wrap s32 (rho "ret:memcmp") = 0 ->
  exists rho',
    exec (enum_fuel (length tp) (length ta)) m (wpa_env rho e g (zlen tp) (zlen ta) P A) [] body_libwifi_enumerate_wpa_suites =
      Fell rho' (enum_trace (wrap u64 (rho "&wpa_info->multicast_cipher_suite.oui")) (wrap u64 (rho "str:\x00P\xf2")) P A (length tp) (length ta)) /\
    rho' "bss->encryption_info" = Z.lor e (enumerate_wpa info).
Proof.
  intros g tp ta Hgo Hpo Hao He Hg Hnp Hna HP HPe HA HAe Hm1 Hm2 Hr.
  destruct (code_enumerate_wpa_equal rho m e g P A tp ta He Hg Hnp Hna HP HPe HA HAe Hm1 Hm2 Hr) as (rho' & Hrun & Henc).
  exists rho'. split; [ exact Hrun | ]. rewrite Henc. unfold enumerate_wpa.
  rewrite (suite_flags_same _ _ _ Hgo), (suites_flags_same _ _ _ Hpo), (suites_flags_same _ _ _ Hao).
  fold g tp ta. rewrite !Z.lor_assoc. reflexivity.
Qed.

(* with r <> 0 no suite of the model carries the OUI either: enumerate_* of an info whose OUIs all differ is 0 (the model's side of B) *)
Lemma suites_flags_other oui tbl l : Forall (fun s => fst s <> oui) l -> suites_flags oui tbl l = 0.
Proof.
  unfold suites_flags. induction l as [ | s l IH]; intros Hl; [ reflexivity | ].
  apply Forall_cons_iff in Hl; destruct Hl as [Hs Hl']. cbn [fold_left]. unfold suite_flags at 2, oui_eqb.
  destruct (list_eq_dec Z.eq_dec (fst s) oui) as [E | _]; [ contradiction | ]. apply IH. exact Hl'.
Qed.

(* what [types_at] asks, index by index; in particular a [mem_at P buf] with the i-th type octet at buf[4 i + 3] satisfies it (mem_at_in) *)
Lemma znth_cons_succ t r j : 0 <= j -> znth (t :: r) (j + 1) = znth r j.
Proof. intros Hj. unfold znth. replace (Z.to_nat (j + 1)) with (S (Z.to_nat j)) by lia. reflexivity. Qed.

Lemma types_at_intro m : forall tys a,
  (forall j, 0 <= j < zlen tys -> m (a + 4 * j + 3) = Some (znth tys j) /\ 0 <= znth tys j < 256) -> types_at m a tys.
Proof.
  induction tys as [ | t tys IH]; intros a H; [ exact I | ].
  pose proof (zlen_nonneg tys) as Hz. cbn [types_at].
  destruct (H 0) as [H0 H0r]; [ rewrite zlen_cons; lia | ]. replace (a + 4 * 0 + 3) with (a + 3) in H0 by lia. change (znth (t :: tys) 0) with t in *.
  split; [ exact H0 | ]. split; [ exact H0r | ]. apply IH. intros j Hj.
  destruct (H (j + 1)) as [H1 H1r]; [ rewrite zlen_cons; lia | ]. rewrite znth_cons_succ in * by lia.
  replace (a + 4 + 4 * j + 3) with (a + 4 * (j + 1) + 3) by lia. split; assumption.
Qed.

Lemma types_at_mem_at start buf off tys :
  wfbytes buf -> 0 <= off -> off + 4 * zlen tys <= zlen buf -> (forall j, 0 <= j < zlen tys -> znth buf (off + 4 * j + 3) = znth tys j) ->
  types_at (mem_at start buf) (start + off) tys.
Proof.
  intros Hwf Hoff Hfit Hty. apply types_at_intro. intros j Hj.
  replace (start + off + 4 * j + 3) with (start + (off + 4 * j + 3)) by lia.
  rewrite mem_at_in by lia. rewrite <- Hty by lia. split; [ reflexivity | apply wfbytes_znth; [ exact Hwf | lia ] ].
Qed.

(* a run on concrete octets: RSN element of a WPA2/WPA3 transition network, group CCMP-128 (4), pairwise [CCMP-128 (4); GCMP-256 (9)],
   key management [PSK (2); SAE (8)]; the two arrays in one readable block at 4096 (6 suites each, as in the C structure) *)
Definition sample_block : list byte :=
  [0;15;172;4; 0;15;172;9; 0;0;0;0; 0;0;0;0; 0;0;0;0; 0;0;0;0;
   0;15;172;2; 0;15;172;8; 0;0;0;0; 0;0;0;0; 0;0;0;0; 0;0;0;0].
Definition sample_info : rsn_info :=
  {| r_version := 1; r_group := (rsn_oui, 4); r_pairwise := [(rsn_oui, 4); (rsn_oui, 9)]; r_akms := [(rsn_oui, 2); (rsn_oui, 8)]; r_caps := 0 |}.
Example enumerate_rsn_sample :
  match exec (enum_fuel 2 2) (mem_at 4096 sample_block) (rsn_env (fun _ => 0) 0 4 2 2 4096 4120) [] body_libwifi_enumerate_rsn_suites with
  | Fell rho' tr => Some (rho' "bss->encryption_info", tr)
  | _ => None
  end = Some (enumerate_rsn sample_info,
              [("memcmp", [0; 0; 3]); ("memcmp", [4096; 0; 3]); ("memcmp", [4100; 0; 3]); ("memcmp", [4120; 0; 3]); ("memcmp", [4124; 0; 3])]).
Proof. vm_compute. reflexivity. Qed.

(* the routine does not clamp the counts: with a count of 7 on the 6-suite array it asks for the type octet of a seventh suite, outside a
   memory that holds exactly the array (the parser libwifi_get_rsn_info stores at most 6 and the count it stores is clamped: Model/Security.v
   rd_suite_list; the hypothesis [types_at] for all the np suites is what this routine itself needs) *)
Example enumerate_rsn_count_beyond_array :
  exec 60 (mem_at 4096 (firstn 24 sample_block)) (rsn_env (fun _ => 0) 0 4 7 0 4096 8192) [] body_libwifi_enumerate_rsn_suites = Stuck "switch#1".
Proof. vm_compute. reflexivity. Qed.

(* the RSN counts are [int] members: a negative count (not what the parser stores) runs no turn of its loop; only the group suite is looked at *)
Example enumerate_rsn_negative_counts :
  match exec 20 (fun _ => None) (rsn_env (fun _ => 0) 0 4 (-1) (-5) 4096 8192) [] body_libwifi_enumerate_rsn_suites with
  | Fell rho' tr => Some (rho' "bss->encryption_info", tr)
  | _ => None
  end = Some (256, [("memcmp", [0; 0; 3])]).
Proof. vm_compute. reflexivity. Qed.

Print Assumptions enumerate_rsn_negative_counts.
Print Assumptions rsn_body_shape.
Print Assumptions wpa_body_shape.
Print Assumptions rsn_group_cases_match.
Print Assumptions rsn_pairwise_cases_match.
Print Assumptions rsn_akm_cases_match.
Print Assumptions wpa_group_cases_match.
Print Assumptions wpa_pairwise_cases_match.
Print Assumptions wpa_akm_cases_match.
Print Assumptions rsn_cases_exact.
Print Assumptions wpa_cases_exact.
Print Assumptions enum_loop_run.
Print Assumptions enum_body_run.
Print Assumptions code_enumerate_rsn_equal.
Print Assumptions code_enumerate_wpa_equal.
Print Assumptions code_enumerate_rsn_differ.
Print Assumptions code_enumerate_wpa_differ.
Print Assumptions code_enumerate_rsn_refines_model.
Print Assumptions code_enumerate_wpa_refines_model.
Print Assumptions suites_flags_other.
Print Assumptions types_at_mem_at.
Print Assumptions enumerate_rsn_sample.
Print Assumptions enumerate_rsn_count_beyond_array.
