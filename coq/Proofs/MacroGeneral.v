(* C18 - the capability test on ARBITRARY argument expressions.  Organisation:
   A. the parser: one-step equations, fuel monotonicity, a closing parenthesis after the input is never
      consumed (suffix extension), the consumed tokens are balanced and comma-free.
   B. parser parametricity: if every placeholder of a token list stands between parentheses, parsing the
      list with an expression's tokens in place of the placeholder gives the list's own AST with the
      expression's AST in place of the placeholder.
   C. the preprocessor: expansion commutes with the instantiation of placeholders by balanced, comma-free,
      macro-free token lists, provided no macro name ever gets to stand directly before a placeholder
      (checked along the run by an instrumented expansion, [expand_chk]).
   D. assembly: the macro is expanded ONCE, by computation, on two placeholders that are not C
      identifiers; B and C carry the result over to every argument expression; the bit semantics of the
      macro's own AST is [MacroProofs.macro_sem].  Nothing of the macro bodies is written down here. *)
From Coq Require Import List ZArith String Bool Lia Arith.
From LW Require Import Base.Tok Gen.Consts Gen.Macros Spec.CapSpec Spec.CapGeneralSpec Model.Macro
  Proofs.MacroProofs.
Import ListNotations.
Local Open Scope string_scope.
Local Open Scope list_scope.

(* ================= A. the parser ================= *)

Definition as_op (ts : list tok) : option (string * list tok) :=
  match ts with TOp o :: r => Some (o, r) | _ => None end.

Lemma parse_cond_S f ts : parse_cond (S f) ts =
  match parse_bin f 1%nat ts with
  | Some (c, rest) =>
    match as_op rest with
    | Some (o, rest1) =>
      if String.eqb o "?" then
        match parse_cond f rest1 with
        | Some (a, rest') =>
          match as_op rest' with
          | Some (o2, rest2) =>
            if String.eqb o2 ":" then
              match parse_cond f rest2 with
              | Some (b, rest3) => Some (ECond c a b, rest3)
              | None => None
              end
            else None
          | None => None
          end
        | None => None
        end
      else Some (c, rest)
    | None => Some (c, rest)
    end
  | None => None
  end.
Proof.
  cbn [parse_cond]. destruct (parse_bin f 1 ts) as [[c [|[s|z|o| | |] rest1]]|]; try reflexivity.
  cbn [as_op]. destruct (String.eqb o "?"); [|reflexivity].
  destruct (parse_cond f rest1) as [[a [|[s|z|o2| | |] rest2]]|]; reflexivity.
Qed.

Lemma parse_bin_S f p ts : parse_bin (S f) p ts =
  match parse_unary f ts with
  | Some (l, rest) => parse_loop f p l rest
  | None => None
  end.
Proof. reflexivity. Qed.

Lemma parse_loop_S f p lhs ts : parse_loop (S f) p lhs ts =
  match as_op ts with
  | Some (o, rest) =>
    match binop_of o with
    | Some (b, q) =>
      if Nat.leb p q then
        match parse_bin f (S q) rest with
        | Some (rhs, rest') => parse_loop f p (EBin b lhs rhs) rest'
        | None => None
        end
      else Some (lhs, ts)
    | None => Some (lhs, ts)
    end
  | None => Some (lhs, ts)
  end.
Proof. destruct ts as [|[s|z|o| | |] rest]; reflexivity. Qed.

Lemma parse_unary_S f ts : parse_unary (S f) ts =
  match as_op ts with
  | Some (o, rest) =>
    match unop_of o with
    | Some u =>
      match parse_unary f rest with
      | Some (e, rest') => Some (EUn u e, rest')
      | None => None
      end
    | None => None
    end
  | None => parse_primary f ts
  end.
Proof. destruct ts as [|[s|z|o| | |] rest]; reflexivity. Qed.

Lemma parse_primary_S f ts : parse_primary (S f) ts =
  match ts with
  | TId s :: rest => Some (EVar s, rest)
  | TNum z :: rest => Some (ELit z, rest)
  | TLParen :: rest =>
    match parse_cond f rest with
    | Some (e, TRParen :: rest') => Some (e, rest')
    | _ => None
    end
  | _ => None
  end.
Proof. reflexivity. Qed.

Lemma parse_cond_0 ts : parse_cond 0 ts = None. Proof. reflexivity. Qed.
Lemma parse_bin_0 p ts : parse_bin 0 p ts = None. Proof. reflexivity. Qed.
Lemma parse_loop_0 p l ts : parse_loop 0 p l ts = None. Proof. reflexivity. Qed.
Lemma parse_unary_0 ts : parse_unary 0 ts = None. Proof. reflexivity. Qed.
Lemma parse_primary_0 ts : parse_primary 0 ts = None. Proof. reflexivity. Qed.

Ltac parse_base :=
  repeat split; intros;
  rewrite ?parse_cond_0, ?parse_bin_0, ?parse_loop_0, ?parse_unary_0, ?parse_primary_0 in *; discriminate.

(* ---------- fuel monotonicity ---------- *)

Lemma parse_mono_all : forall f,
  (forall ts r f', parse_cond f ts = Some r -> (f <= f')%nat -> parse_cond f' ts = Some r) /\
  (forall p ts r f', parse_bin f p ts = Some r -> (f <= f')%nat -> parse_bin f' p ts = Some r) /\
  (forall p l ts r f', parse_loop f p l ts = Some r -> (f <= f')%nat -> parse_loop f' p l ts = Some r) /\
  (forall ts r f', parse_unary f ts = Some r -> (f <= f')%nat -> parse_unary f' ts = Some r) /\
  (forall ts r f', parse_primary f ts = Some r -> (f <= f')%nat -> parse_primary f' ts = Some r).
Proof.
  induction f as [|f IH]; [parse_base|].
  destruct IH as (IHc & IHb & IHl & IHu & IHp).
  repeat split.
  - intros ts r f' H Hle. destruct f' as [|f']; [lia|]. assert (f <= f')%nat as Hf by lia.
    rewrite parse_cond_S in H |- *.
    destruct (parse_bin f 1 ts) as [[c rest]|] eqn:Eb; [|discriminate H].
    rewrite (IHb _ _ _ _ Eb Hf).
    destruct (as_op rest) as [[o rest1]|]; [|exact H].
    destruct (String.eqb o "?"); [|exact H].
    destruct (parse_cond f rest1) as [[a rest']|] eqn:Ea; [|discriminate H].
    rewrite (IHc _ _ _ Ea Hf).
    destruct (as_op rest') as [[o2 rest2]|]; [|discriminate H].
    destruct (String.eqb o2 ":"); [|discriminate H].
    destruct (parse_cond f rest2) as [[b rest3]|] eqn:Ec; [|discriminate H].
    rewrite (IHc _ _ _ Ec Hf). exact H.
  - intros p ts r f' H Hle. destruct f' as [|f']; [lia|]. assert (f <= f')%nat as Hf by lia.
    rewrite parse_bin_S in H |- *.
    destruct (parse_unary f ts) as [[l rest]|] eqn:Eu; [|discriminate H].
    rewrite (IHu _ _ _ Eu Hf). exact (IHl _ _ _ _ _ H Hf).
  - intros p l ts r f' H Hle. destruct f' as [|f']; [lia|]. assert (f <= f')%nat as Hf by lia.
    rewrite parse_loop_S in H |- *.
    destruct (as_op ts) as [[o rest]|]; [|exact H].
    destruct (binop_of o) as [[b q]|]; [|exact H].
    destruct (Nat.leb p q); [|exact H].
    destruct (parse_bin f (S q) rest) as [[rhs rest']|] eqn:Eb; [|discriminate H].
    rewrite (IHb _ _ _ _ Eb Hf). exact (IHl _ _ _ _ _ H Hf).
  - intros ts r f' H Hle. destruct f' as [|f']; [lia|]. assert (f <= f')%nat as Hf by lia.
    rewrite parse_unary_S in H |- *.
    destruct (as_op ts) as [[o rest]|]; [|exact (IHp _ _ _ H Hf)].
    destruct (unop_of o) as [u|]; [|discriminate H].
    destruct (parse_unary f rest) as [[e rest']|] eqn:Eu; [|discriminate H].
    rewrite (IHu _ _ _ Eu Hf). exact H.
  - intros ts r f' H Hle. destruct f' as [|f']; [lia|]. assert (f <= f')%nat as Hf by lia.
    rewrite parse_primary_S in H |- *.
    destruct ts as [|[s|z|o| | |] rest]; try exact H.
    destruct (parse_cond f rest) as [[e rest0]|] eqn:Ec; [|discriminate H].
    rewrite (IHc _ _ _ Ec Hf). exact H.
Qed.

Lemma parse_cond_mono f f' ts r :
  parse_cond f ts = Some r -> (f <= f')%nat -> parse_cond f' ts = Some r.
Proof. apply (parse_mono_all f). Qed.

(* ---------- a closing parenthesis after the input is never consumed ---------- *)

Lemma as_op_app ts tail :
  as_op (ts ++ TRParen :: tail) =
  match as_op ts with Some (o, r) => Some (o, r ++ TRParen :: tail) | None => None end.
Proof. destruct ts as [|[s|z|o| | |] rest]; reflexivity. Qed.

Lemma parse_ext_all : forall f tail,
  (forall ts e rest, parse_cond f ts = Some (e, rest) ->
     parse_cond f (ts ++ TRParen :: tail) = Some (e, rest ++ TRParen :: tail)) /\
  (forall p ts e rest, parse_bin f p ts = Some (e, rest) ->
     parse_bin f p (ts ++ TRParen :: tail) = Some (e, rest ++ TRParen :: tail)) /\
  (forall p l ts e rest, parse_loop f p l ts = Some (e, rest) ->
     parse_loop f p l (ts ++ TRParen :: tail) = Some (e, rest ++ TRParen :: tail)) /\
  (forall ts e rest, parse_unary f ts = Some (e, rest) ->
     parse_unary f (ts ++ TRParen :: tail) = Some (e, rest ++ TRParen :: tail)) /\
  (forall ts e rest, parse_primary f ts = Some (e, rest) ->
     parse_primary f (ts ++ TRParen :: tail) = Some (e, rest ++ TRParen :: tail)).
Proof.
  intros f tail. induction f as [|f IH]; [parse_base|].
  destruct IH as (IHc & IHb & IHl & IHu & IHp).
  repeat split.
  - intros ts e rest H. rewrite parse_cond_S in H |- *.
    destruct (parse_bin f 1 ts) as [[c rest0]|] eqn:Eb; [|discriminate H].
    rewrite (IHb _ _ _ _ Eb), as_op_app.
    destruct (as_op rest0) as [[o rest1]|]; [|injection H as <- <-; reflexivity].
    destruct (String.eqb o "?"); [|injection H as <- <-; reflexivity].
    destruct (parse_cond f rest1) as [[a rest']|] eqn:Ea; [|discriminate H].
    rewrite (IHc _ _ _ Ea), as_op_app.
    destruct (as_op rest') as [[o2 rest2]|]; [|discriminate H].
    destruct (String.eqb o2 ":"); [|discriminate H].
    destruct (parse_cond f rest2) as [[b rest3]|] eqn:Ec; [|discriminate H].
    rewrite (IHc _ _ _ Ec). injection H as <- <-. reflexivity.
  - intros p ts e rest H. rewrite parse_bin_S in H |- *.
    destruct (parse_unary f ts) as [[l rest0]|] eqn:Eu; [|discriminate H].
    rewrite (IHu _ _ _ Eu). exact (IHl _ _ _ _ _ H).
  - intros p l ts e rest H. rewrite parse_loop_S in H |- *. rewrite as_op_app.
    destruct (as_op ts) as [[o rest0]|]; [|injection H as <- <-; reflexivity].
    destruct (binop_of o) as [[b q]|]; [|injection H as <- <-; reflexivity].
    destruct (Nat.leb p q); [|injection H as <- <-; reflexivity].
    destruct (parse_bin f (S q) rest0) as [[rhs rest']|] eqn:Eb; [|discriminate H].
    rewrite (IHb _ _ _ _ Eb). exact (IHl _ _ _ _ _ H).
  - intros ts e rest H. rewrite parse_unary_S in H |- *. rewrite as_op_app.
    destruct (as_op ts) as [[o rest0]|]; [|exact (IHp _ _ _ H)].
    destruct (unop_of o) as [u|]; [|discriminate H].
    destruct (parse_unary f rest0) as [[e0 rest']|] eqn:Eu; [|discriminate H].
    rewrite (IHu _ _ _ Eu). injection H as <- <-. reflexivity.
  - intros ts e rest H. rewrite parse_primary_S in H |- *.
    destruct ts as [|[s|z|o| | |] rest0]; try discriminate H;
      try (injection H as <- <-; reflexivity).
    cbn [app].
    destruct (parse_cond f rest0) as [[e0 [|[s|z|o| | |] rest1]]|] eqn:Ec; try discriminate H.
    rewrite (IHc _ _ _ Ec). cbn [app]. injection H as <- <-. reflexivity.
Qed.

(* an expression between parentheses is a primary expression *)
Lemma parse_primary_paren fa arg e f tail :
  parse_cond fa arg = Some (e, []) -> (fa <= f)%nat ->
  parse_primary (S f) (TLParen :: arg ++ TRParen :: tail) = Some (e, tail).
Proof.
  intros Ha Hle. rewrite parse_primary_S.
  pose proof (proj1 (parse_ext_all fa tail) _ _ _ Ha) as Hx. cbn [app] in Hx.
  rewrite (parse_cond_mono _ _ _ _ Hx Hle). reflexivity.
Qed.

(* ---------- the consumed tokens are balanced and contain no comma ---------- *)

(* [scan ts d]: the parenthesis depth after [ts], starting at depth [d]; None when a parenthesis closes
   below depth 0 or a comma occurs *)
Fixpoint scan (ts : list tok) (d : nat) : option nat :=
  match ts with
  | [] => Some d
  | TLParen :: r => scan r (S d)
  | TRParen :: r => match d with O => None | S d' => scan r d' end
  | TComma :: _ => None
  | _ :: r => scan r d
  end.

Lemma scan_as_op ts o r d : as_op ts = Some (o, r) -> scan ts d = scan r d.
Proof. destruct ts as [|[s|z|o'| | |] rest]; try discriminate. intros H. injection H as <- <-. reflexivity. Qed.

Lemma parse_scan_all : forall f,
  (forall ts e rest, parse_cond f ts = Some (e, rest) -> forall d, scan ts d = scan rest d) /\
  (forall p ts e rest, parse_bin f p ts = Some (e, rest) -> forall d, scan ts d = scan rest d) /\
  (forall p l ts e rest, parse_loop f p l ts = Some (e, rest) -> forall d, scan ts d = scan rest d) /\
  (forall ts e rest, parse_unary f ts = Some (e, rest) -> forall d, scan ts d = scan rest d) /\
  (forall ts e rest, parse_primary f ts = Some (e, rest) -> forall d, scan ts d = scan rest d).
Proof.
  induction f as [|f IH]; [parse_base|].
  destruct IH as (IHc & IHb & IHl & IHu & IHp).
  repeat split.
  - intros ts e rest H d. rewrite parse_cond_S in H.
    destruct (parse_bin f 1 ts) as [[c rest0]|] eqn:Eb; [|discriminate H].
    rewrite (IHb _ _ _ _ Eb d).
    destruct (as_op rest0) as [[o rest1]|] eqn:Eo; [|injection H as <- <-; reflexivity].
    destruct (String.eqb o "?"); [|injection H as <- <-; reflexivity].
    rewrite (scan_as_op _ _ _ d Eo).
    destruct (parse_cond f rest1) as [[a rest']|] eqn:Ea; [|discriminate H].
    rewrite (IHc _ _ _ Ea d).
    destruct (as_op rest') as [[o2 rest2]|] eqn:Eo2; [|discriminate H].
    rewrite (scan_as_op _ _ _ d Eo2).
    destruct (String.eqb o2 ":"); [|discriminate H].
    destruct (parse_cond f rest2) as [[b rest3]|] eqn:Ec; [|discriminate H].
    rewrite (IHc _ _ _ Ec d). injection H as <- <-. reflexivity.
  - intros p ts e rest H d. rewrite parse_bin_S in H.
    destruct (parse_unary f ts) as [[l rest0]|] eqn:Eu; [|discriminate H].
    rewrite (IHu _ _ _ Eu d). exact (IHl _ _ _ _ _ H d).
  - intros p l ts e rest H d. rewrite parse_loop_S in H.
    destruct (as_op ts) as [[o rest0]|] eqn:Eo; [|injection H as <- <-; reflexivity].
    destruct (binop_of o) as [[b q]|]; [|injection H as <- <-; reflexivity].
    destruct (Nat.leb p q); [|injection H as <- <-; reflexivity].
    rewrite (scan_as_op _ _ _ d Eo).
    destruct (parse_bin f (S q) rest0) as [[rhs rest']|] eqn:Eb; [|discriminate H].
    rewrite (IHb _ _ _ _ Eb d). exact (IHl _ _ _ _ _ H d).
  - intros ts e rest H d. rewrite parse_unary_S in H.
    destruct (as_op ts) as [[o rest0]|] eqn:Eo; [|exact (IHp _ _ _ H d)].
    rewrite (scan_as_op _ _ _ d Eo).
    destruct (unop_of o) as [u|]; [|discriminate H].
    destruct (parse_unary f rest0) as [[e0 rest']|] eqn:Eu; [|discriminate H].
    rewrite (IHu _ _ _ Eu d). injection H as <- <-. reflexivity.
  - intros ts e rest H d. rewrite parse_primary_S in H.
    destruct ts as [|[s|z|o| | |] rest0]; try discriminate H;
      try (injection H as <- <-; reflexivity).
    destruct (parse_cond f rest0) as [[e0 [|[s|z|o| | |] rest1]]|] eqn:Ec; try discriminate H.
    cbn [scan]. rewrite (IHc _ _ _ Ec (S d)). injection H as <- <-. reflexivity.
Qed.

(* what [parse_expr] accepts has balanced parentheses and no comma *)
Lemma parsed_scan arg e : parse_expr arg = Some e -> forall d, scan arg d = Some d.
Proof.
  unfold parse_expr. intros H d.
  destruct (parse_cond _ arg) as [[e0 [|t r]]|] eqn:Ec; try discriminate H.
  exact (proj1 (parse_scan_all _) _ _ _ Ec d).
Qed.

Lemma scan_no_comma ts : forall d d', scan ts d = Some d' -> ~ In TComma ts.
Proof.
  induction ts as [|t r IH]; intros d d' H; [intros []|].
  intros [Ht|Hin].
  - subst t. discriminate H.
  - destruct t as [s|z|o| | |]; cbn [scan] in H; try (exact (IH _ _ H Hin)); [|discriminate H].
    destruct d as [|d0]; [discriminate H|exact (IH _ _ H Hin)].
Qed.

Lemma parsed_no_comma arg e : parse_expr arg = Some e -> ~ In TComma arg.
Proof. intros H. exact (scan_no_comma _ _ _ (parsed_scan _ _ H 0%nat)). Qed.

Lemma parsed_nonempty arg e : parse_expr arg = Some e -> arg <> [].
Proof. intros H ->. vm_compute in H. discriminate H. Qed.

(* ================= B. parser parametricity ================= *)

Lemma parse_cond_id_rparen f s r m rest :
  parse_cond f (TId s :: TRParen :: r) = Some (m, rest) -> m = EVar s /\ rest = TRParen :: r.
Proof.
  destruct f as [|[|[|[|f]]]]; try (cbn; discriminate).
  rewrite parse_cond_S, parse_bin_S, parse_unary_S. cbn [as_op].
  rewrite parse_primary_S, parse_loop_S. cbn [as_op].
  intros H. injection H as <- <-. split; reflexivity.
Qed.

Section ParserParam.
  (* placeholders [hx] (for an expression) and [hc] (for an identifier), what they stand for, and the
     expression's AST *)
  Variables (hx hc name : string) (arg : list tok) (ea : cexpr) (fa : nat).
  Hypothesis Hcx : String.eqb hc hx = false.
  Hypothesis Harg : parse_cond fa arg = Some (ea, []).

  Fixpoint sub (m : cexpr) : cexpr :=
    match m with
    | EVar s => if String.eqb s hx then ea else if String.eqb s hc then EVar name else EVar s
    | ELit z => ELit z
    | EUn o x => EUn o (sub x)
    | EBin o l r => EBin o (sub l) (sub r)
    | ECond c a b => ECond (sub c) (sub a) (sub b)
    end.

  (* [rel ts ts']: [ts'] is [ts] with every [( hx )] replaced by [( arg )] and every [hc] by [name];
     there is no rule for an [hx] that does not stand between parentheses *)
  Inductive rel : list tok -> list tok -> Prop :=
  | rel_nil : rel [] []
  | rel_x r r' : rel r r' -> rel (TLParen :: TId hx :: TRParen :: r) (TLParen :: arg ++ TRParen :: r')
  | rel_c r r' : rel r r' -> rel (TId hc :: r) (TId name :: r')
  | rel_t t r r' : t <> TId hx -> t <> TId hc -> rel r r' -> rel (t :: r) (t :: r').

  Lemma rel_inv_nil ts' : rel [] ts' -> ts' = [].
  Proof. intros H. inversion H. reflexivity. Qed.

  Lemma rel_inv_id s r ts' : rel (TId s :: r) ts' ->
    exists r', rel r r' /\
      ((s = hc /\ ts' = TId name :: r') \/ (s <> hx /\ s <> hc /\ ts' = TId s :: r')).
  Proof.
    intros H. inversion H as [ | r0 r0' Hr | r0 r0' Hr | t r0 r0' Hx Hc Hr]; subst.
    - exists r0'. split; [exact Hr|]. left. split; reflexivity.
    - exists r0'. split; [exact Hr|]. right. repeat split; congruence.
  Qed.

  Lemma rel_inv_lparen r ts' : rel (TLParen :: r) ts' ->
    (exists r0 r0', r = TId hx :: TRParen :: r0 /\ ts' = TLParen :: arg ++ TRParen :: r0' /\ rel r0 r0') \/
    (exists r', ts' = TLParen :: r' /\ rel r r').
  Proof.
    intros H. inversion H as [ | r0 r0' Hr | r0 r0' Hr | t r0 r0' Hx Hc Hr]; subst.
    - left. exists r0, r0'. repeat split. exact Hr.
    - right. exists r0'. split; [reflexivity|exact Hr].
  Qed.

  Lemma rel_inv_tok t r ts' : rel (t :: r) ts' -> (forall s, t <> TId s) -> t <> TLParen ->
    exists r', ts' = t :: r' /\ rel r r'.
  Proof.
    intros H Hid Hlp. inversion H as [ | r0 r0' Hr | r0 r0' Hr | t0 r0 r0' Hx Hc Hr]; subst.
    - contradiction Hlp. reflexivity.
    - contradiction (Hid hc). reflexivity.
    - exists r0'. split; [reflexivity|exact Hr].
  Qed.

  Lemma rel_as_op ts ts' : rel ts ts' ->
    match as_op ts with
    | Some (o, r) => exists r', as_op ts' = Some (o, r') /\ rel r r'
    | None => as_op ts' = None
    end.
  Proof.
    intros H. destruct H as [ | r r' Hr | r r' Hr | t r r' Hx Hc Hr]; try reflexivity.
    destruct t as [s|z|o| | |]; try reflexivity.
    cbn [as_op]. exists r'. split; [reflexivity|exact Hr].
  Qed.

  Lemma parse_rel_all : forall f,
    (forall ts ts' m rest, parse_cond f ts = Some (m, rest) -> rel ts ts' ->
       exists rest', rel rest rest' /\ parse_cond (f + fa) ts' = Some (sub m, rest')) /\
    (forall p ts ts' m rest, parse_bin f p ts = Some (m, rest) -> rel ts ts' ->
       exists rest', rel rest rest' /\ parse_bin (f + fa) p ts' = Some (sub m, rest')) /\
    (forall p l ts ts' m rest, parse_loop f p l ts = Some (m, rest) -> rel ts ts' ->
       exists rest', rel rest rest' /\ parse_loop (f + fa) p (sub l) ts' = Some (sub m, rest')) /\
    (forall ts ts' m rest, parse_unary f ts = Some (m, rest) -> rel ts ts' ->
       exists rest', rel rest rest' /\ parse_unary (f + fa) ts' = Some (sub m, rest')) /\
    (forall ts ts' m rest, parse_primary f ts = Some (m, rest) -> rel ts ts' ->
       exists rest', rel rest rest' /\ parse_primary (f + fa) ts' = Some (sub m, rest')).
  Proof.
    induction f as [|f IH]; [parse_base|].
    destruct IH as (IHc & IHb & IHl & IHu & IHp).
    change (S f + fa)%nat with (S (f + fa)).
    repeat split.
    - intros ts ts' m rest H Hrel. rewrite parse_cond_S in H |- *.
      destruct (parse_bin f 1 ts) as [[c rest0]|] eqn:Eb; [|discriminate H].
      destruct (IHb _ _ _ _ _ Eb Hrel) as (rest0' & Hr0 & Eb'). rewrite Eb'.
      pose proof (rel_as_op _ _ Hr0) as Ho.
      destruct (as_op rest0) as [[o rest1]|].
      2:{ rewrite Ho. injection H as <- <-. exists rest0'. split; [exact Hr0|reflexivity]. }
      destruct Ho as (rest1' & Eo' & Hr1). rewrite Eo'.
      destruct (String.eqb o "?").
      2:{ injection H as <- <-. exists rest0'. split; [exact Hr0|reflexivity]. }
      destruct (parse_cond f rest1) as [[a rest2]|] eqn:Ea; [|discriminate H].
      destruct (IHc _ _ _ _ Ea Hr1) as (rest2' & Hr2 & Ea'). rewrite Ea'.
      pose proof (rel_as_op _ _ Hr2) as Ho2.
      destruct (as_op rest2) as [[o2 rest3]|]; [|discriminate H].
      destruct Ho2 as (rest3' & Eo2' & Hr3). rewrite Eo2'.
      destruct (String.eqb o2 ":"); [|discriminate H].
      destruct (parse_cond f rest3) as [[b rest4]|] eqn:Ec; [|discriminate H].
      destruct (IHc _ _ _ _ Ec Hr3) as (rest4' & Hr4 & Ec'). rewrite Ec'.
      injection H as <- <-. exists rest4'. split; [exact Hr4|reflexivity].
    - intros p ts ts' m rest H Hrel. rewrite parse_bin_S in H |- *.
      destruct (parse_unary f ts) as [[l rest0]|] eqn:Eu; [|discriminate H].
      destruct (IHu _ _ _ _ Eu Hrel) as (rest0' & Hr0 & Eu'). rewrite Eu'.
      exact (IHl _ _ _ _ _ _ H Hr0).
    - intros p l ts ts' m rest H Hrel. rewrite parse_loop_S in H |- *.
      pose proof (rel_as_op _ _ Hrel) as Ho.
      destruct (as_op ts) as [[o rest0]|].
      2:{ rewrite Ho. injection H as <- <-. exists ts'. split; [exact Hrel|reflexivity]. }
      destruct Ho as (rest0' & Eo' & Hr0). rewrite Eo'.
      destruct (binop_of o) as [[b q]|].
      2:{ injection H as <- <-. exists ts'. split; [exact Hrel|reflexivity]. }
      destruct (Nat.leb p q).
      2:{ injection H as <- <-. exists ts'. split; [exact Hrel|reflexivity]. }
      destruct (parse_bin f (S q) rest0) as [[rhs rest1]|] eqn:Eb; [|discriminate H].
      destruct (IHb _ _ _ _ _ Eb Hr0) as (rest1' & Hr1 & Eb'). rewrite Eb'.
      exact (IHl _ _ _ _ _ _ H Hr1).
    - intros ts ts' m rest H Hrel. rewrite parse_unary_S in H |- *.
      pose proof (rel_as_op _ _ Hrel) as Ho.
      destruct (as_op ts) as [[o rest0]|].
      2:{ rewrite Ho. exact (IHp _ _ _ _ H Hrel). }
      destruct Ho as (rest0' & Eo' & Hr0). rewrite Eo'.
      destruct (unop_of o) as [u|]; [|discriminate H].
      destruct (parse_unary f rest0) as [[e0 rest1]|] eqn:Eu; [|discriminate H].
      destruct (IHu _ _ _ _ Eu Hr0) as (rest1' & Hr1 & Eu'). rewrite Eu'.
      injection H as <- <-. exists rest1'. split; [exact Hr1|reflexivity].
    - intros ts ts' m rest H Hrel. rewrite parse_primary_S in H.
      destruct ts as [|[s|z|o| | |] rest0]; try discriminate H.
      + (* identifier *)
        injection H as <- <-.
        destruct (rel_inv_id _ _ _ Hrel) as (r' & Hr & [(-> & ->)|(Hx & Hc & ->)]);
          exists r'; (split; [exact Hr|]); rewrite parse_primary_S; cbn [sub].
        * rewrite Hcx, String.eqb_refl. reflexivity.
        * apply String.eqb_neq in Hx, Hc. rewrite Hx, Hc. reflexivity.
      + (* literal *)
        injection H as <- <-.
        destruct (rel_inv_tok _ _ _ Hrel) as (r' & -> & Hr); [discriminate|discriminate|].
        exists r'. split; [exact Hr|reflexivity].
      + (* parenthesis *)
        destruct (parse_cond f rest0) as [[e0 [|[s|z|o| | |] rest1]]|] eqn:Ec; try discriminate H.
        injection H as <- <-.
        destruct (rel_inv_lparen _ _ Hrel) as [(r0 & r0' & -> & -> & Hr)|(r' & -> & Hr)].
        * (* the placeholder between parentheses *)
          apply parse_cond_id_rparen in Ec as [-> Erest]. injection Erest as <-.
          exists r0'. split; [exact Hr|]. cbn [sub]. rewrite String.eqb_refl.
          apply (parse_primary_paren fa); [exact Harg|lia].
        * destruct (IHc _ _ _ _ Ec Hr) as (rest1' & Hr1 & Ec').
          destruct (rel_inv_tok _ _ _ Hr1) as (r1' & -> & Hr1'); [discriminate|discriminate|].
          exists r1'. split; [exact Hr1'|]. rewrite parse_primary_S, Ec'. reflexivity.
  Qed.

  Lemma parse_rel f ts ts' m :
    parse_cond f ts = Some (m, []) -> rel ts ts' -> parse_cond (f + fa) ts' = Some (sub m, []).
  Proof.
    intros H Hrel. destruct (proj1 (parse_rel_all f) _ _ _ _ H Hrel) as (rest' & Hr & Hp).
    apply rel_inv_nil in Hr. subst rest'. exact Hp.
  Qed.

  (* evaluation: the instantiated AST in [env] is the AST itself with the placeholders bound *)
  Definition env_ph (env : string -> option Z) (v k : Z) (s : string) : option Z :=
    if String.eqb s hx then Some v else if String.eqb s hc then Some k else env s.

  Lemma eval_sub env v k : eval env ea = Some v -> env name = Some k ->
    forall m, eval env (sub m) = eval (env_ph env v k) m.
  Proof.
    intros Hv Hk. induction m as [s|z|o x IHx|o l IHl r IHr|c IHc a IHa b IHb]; cbn [sub].
    - cbn [eval]. unfold env_ph. destruct (String.eqb s hx); [exact Hv|].
      destruct (String.eqb s hc); [exact Hk|reflexivity].
    - reflexivity.
    - cbn [eval]. rewrite IHx. reflexivity.
    - destruct o; cbn [eval]; rewrite IHl, IHr; reflexivity.
    - cbn [eval]. rewrite IHc, IHa, IHb. reflexivity.
  Qed.
End ParserParam.

(* ================= C. the preprocessor ================= *)

(* one macro invocation, [ex] being the expansion of token lists with the remaining fuel *)
Definition invoke (ex : list tok -> option (list tok)) (m : macro) (rest0 : list tok) : option (list tok) :=
  match collect_args rest0 O [] [] with
  | Some (args0, rest') =>
    let args := fix_args (m_params m) args0 in
    if Nat.eqb (List.length args) (List.length (m_params m)) then
      match map_opt ex args with
      | Some args' => ex (subst_body (m_params m) args' (m_body m) ++ rest')
      | None => None
      end
    else None
  | None => None
  end.

Lemma expand_S_nil ms f : expand_with ms (S f) [] = Some [].
Proof. reflexivity. Qed.

Lemma expand_S_id_none ms f s rest : find_macro s ms = None ->
  expand_with ms (S f) (TId s :: rest) = cons_opt (TId s) (expand_with ms f rest).
Proof. intros H. destruct rest as [|[s2|z|o| | |] rest0]; cbn [expand_with]; rewrite ?H; reflexivity. Qed.

Lemma expand_S_id_call ms f s m rest0 : find_macro s ms = Some m ->
  expand_with ms (S f) (TId s :: TLParen :: rest0) = invoke (expand_with ms f) m rest0.
Proof. intros H. cbn [expand_with]. rewrite H. reflexivity. Qed.

Lemma expand_S_id_nocall ms f s rest : (forall rest0, rest <> TLParen :: rest0) ->
  expand_with ms (S f) (TId s :: rest) = cons_opt (TId s) (expand_with ms f rest).
Proof.
  intros H. destruct rest as [|[s2|z|o| | |] rest0]; try reflexivity.
  contradiction (H rest0). reflexivity.
Qed.

Lemma expand_S_tok ms f t rest : (forall s, t <> TId s) ->
  expand_with ms (S f) (t :: rest) = cons_opt t (expand_with ms f rest).
Proof.
  intros H. destruct t as [s|z|o| | |]; try reflexivity. contradiction (H s). reflexivity.
Qed.

(* tokens that mention no macro expand to themselves *)
Lemma expand_prefix ms a : (forall s, In (TId s) a -> find_macro s ms = None) ->
  forall f rest, expand_with ms (List.length a + f) (a ++ rest) =
                 match expand_with ms f rest with Some r => Some (a ++ r) | None => None end.
Proof.
  induction a as [|t a IH]; intros Hfree f rest.
  - cbn [List.length Nat.add app]. destruct (expand_with ms f rest); reflexivity.
  - cbn [List.length Nat.add app].
    assert (expand_with ms (S (List.length a + f)) (t :: a ++ rest) =
            cons_opt t (expand_with ms (List.length a + f) (a ++ rest))) as ->.
    { destruct t as [s|z|o| | |]; try (apply expand_S_tok; discriminate).
      apply expand_S_id_none. apply Hfree. left. reflexivity. }
    rewrite IH by (intros s Hs; apply Hfree; right; exact Hs).
    destruct (expand_with ms f rest); reflexivity.
Qed.

(* argument collection steps over balanced comma-free tokens *)
Lemma collect_scan a rest acc : forall d d' cur, scan a d = Some d' ->
  collect_args (a ++ rest) d cur acc = collect_args rest d' (rev a ++ cur) acc.
Proof.
  induction a as [|t a IH]; intros d d' cur H.
  - injection H as <-. reflexivity.
  - cbn [rev]. rewrite <- app_assoc. cbn [app].
    destruct t as [s|z|o| | |], d as [|d0]; cbn [scan] in H; try discriminate H;
      cbn [collect_args]; exact (IH _ _ _ H).
Qed.

Section ExpandParam.
  Variables (ms : list macro) (sigma : string -> option (list tok)) (K : nat).

  (* instantiation of the placeholders *)
  Fixpoint inst (ts : list tok) : list tok :=
    match ts with
    | [] => []
    | TId s :: r => match sigma s with Some a => a ++ inst r | None => TId s :: inst r end
    | t :: r => t :: inst r
    end.

  Hypothesis HK : (1 <= K)%nat.
  (* what a placeholder stands for: non-empty, balanced, comma-free, macro-free, at most K tokens *)
  Hypothesis Himg : forall h a, sigma h = Some a ->
    a <> [] /\ (forall d, scan a d = Some d) /\ (forall s, In (TId s) a -> find_macro s ms = None) /\
    (List.length a <= K)%nat.
  (* placeholders are no macro names and occur in no macro body *)
  Hypothesis Hnomac : forall h a, sigma h = Some a -> find_macro h ms = None.
  Hypothesis Hbody : forall s m, find_macro s ms = Some m ->
    forall s', In (TId s') (m_body m) -> sigma s' = None.

  (* the instrumented expansion: as [expand_with], but gives up when a macro name stands directly before
     a placeholder (whether that is an invocation depends on what the placeholder stands for) *)
  Fixpoint expand_chk (fuel : nat) (ts : list tok) {struct fuel} : option (list tok) :=
    match fuel with
    | O => None
    | S f =>
      match ts with
      | [] => Some []
      | TId s :: rest =>
        match find_macro s ms with
        | Some m =>
          match rest with
          | TLParen :: rest0 => invoke (expand_chk f) m rest0
          | TId h :: _ =>
            match sigma h with Some _ => None | None => cons_opt (TId s) (expand_chk f rest) end
          | _ => cons_opt (TId s) (expand_chk f rest)
          end
        | None => cons_opt (TId s) (expand_chk f rest)
        end
      | t :: rest => cons_opt t (expand_chk f rest)
      end
    end.

  Lemma inst_app a b : inst (a ++ b) = inst a ++ inst b.
  Proof.
    induction a as [|t a IH]; [reflexivity|].
    destruct t as [s|z|o| | |]; cbn [app inst]; rewrite IH; try reflexivity.
    destruct (sigma s); [rewrite app_assoc|]; reflexivity.
  Qed.

  Lemma inst_nil_inv a : inst a = [] -> a = [].
  Proof.
    destruct a as [|t a]; [reflexivity|].
    destruct t as [s|z|o| | |]; cbn [inst]; try discriminate.
    destruct (sigma s) as [i|] eqn:Es; [|discriminate].
    intros H. apply app_eq_nil in H as [-> _]. destruct (Himg _ _ Es) as (Hne & _). contradiction.
  Qed.

  Definition rinst (cur : list tok) : list tok := rev (inst (rev cur)).

  Lemma rinst_cons_ph s a cur : sigma s = Some a -> rinst (TId s :: cur) = rev a ++ rinst cur.
  Proof.
    intros Hs. unfold rinst. cbn [rev]. rewrite inst_app. cbn [inst]. rewrite Hs, app_nil_r.
    apply rev_app_distr.
  Qed.

  Lemma rinst_cons_tok t cur : inst [t] = [t] -> rinst (t :: cur) = t :: rinst cur.
  Proof.
    intros Ht. unfold rinst. cbn [rev]. rewrite inst_app, Ht, rev_app_distr. reflexivity.
  Qed.

  Lemma collect_inst : forall ts d cur acc args rest',
    collect_args ts d cur acc = Some (args, rest') ->
    collect_args (inst ts) d (rinst cur) (map inst acc) = Some (map inst args, inst rest').
  Proof.
    induction ts as [|t r IH]; intros d cur acc args rest' H; [discriminate H|].
    assert (forall acc0, rev (rev (rinst cur) :: map inst acc0) = map inst (rev (rev cur :: acc0))) as Hfin.
    { intros acc0. unfold rinst. rewrite rev_involutive, map_rev. reflexivity. }
    destruct t as [s|z|o| | |].
    - (* identifier *)
      assert (collect_args r d (TId s :: cur) acc = Some (args, rest')) as H'
        by (destruct d; exact H).
      apply IH in H'. cbn [inst]. destruct (sigma s) as [a|] eqn:Es.
      + destruct (Himg _ _ Es) as (_ & Hbal & _).
        rewrite (collect_scan a (inst r) (map inst acc) d d (rinst cur) (Hbal d)).
        rewrite <- (rinst_cons_ph _ _ _ Es). exact H'.
      + rewrite rinst_cons_tok in H' by (cbn [inst]; rewrite Es; reflexivity).
        destruct d; exact H'.
    - assert (collect_args r d (TNum z :: cur) acc = Some (args, rest')) as H' by (destruct d; exact H).
      apply IH in H'. rewrite rinst_cons_tok in H' by reflexivity. destruct d; exact H'.
    - assert (collect_args r d (TOp o :: cur) acc = Some (args, rest')) as H' by (destruct d; exact H).
      apply IH in H'. rewrite rinst_cons_tok in H' by reflexivity. destruct d; exact H'.
    - (* ( *)
      assert (collect_args r (S d) (TLParen :: cur) acc = Some (args, rest')) as H' by (destruct d; exact H).
      apply IH in H'. rewrite rinst_cons_tok in H' by reflexivity. destruct d; exact H'.
    - (* ) *)
      destruct d as [|d0].
      + cbn [collect_args] in H. injection H as <- <-. cbn [inst collect_args]. rewrite Hfin. reflexivity.
      + cbn [collect_args] in H. apply IH in H. rewrite rinst_cons_tok in H by reflexivity. exact H.
    - (* , *)
      destruct d as [|d0].
      + cbn [collect_args] in H. apply IH in H. cbn [inst collect_args].
        unfold rinst at 1. rewrite rev_involutive. exact H.
      + cbn [collect_args] in H. apply IH in H. rewrite rinst_cons_tok in H by reflexivity. exact H.
  Qed.

  Lemma param_arg_inst s : forall params args,
    param_arg s params (map inst args) =
    match param_arg s params args with Some a => Some (inst a) | None => None end.
  Proof.
    induction params as [|p ps IH]; intros args; [reflexivity|].
    destruct args as [|a az]; [reflexivity|]. cbn [map param_arg].
    destruct (String.eqb s p); [reflexivity|apply IH].
  Qed.

  Lemma subst_inst params args body : (forall s', In (TId s') body -> sigma s' = None) ->
    subst_body params (map inst args) body = inst (subst_body params args body).
  Proof.
    induction body as [|t body IH]; intros Hb; [reflexivity|].
    assert (subst_body params (map inst args) body = inst (subst_body params args body)) as IH'
      by (apply IH; intros s' Hs'; apply Hb; right; exact Hs').
    destruct t as [s|z|o| | |]; cbn [subst_body inst]; try (rewrite IH'; reflexivity).
    rewrite param_arg_inst. destruct (param_arg s params args) as [a|].
    - rewrite inst_app, IH'. reflexivity.
    - cbn [inst]. rewrite (Hb s) by (left; reflexivity). rewrite IH'. reflexivity.
  Qed.

  Lemma fix_args_inst params args : fix_args params (map inst args) = map inst (fix_args params args).
  Proof.
    destruct params as [|p ps]; [|reflexivity].
    destruct args as [|a [|b l]]; try reflexivity.
    - destruct a as [|t a]; [reflexivity|].
      cbn [map fix_args]. destruct (inst (t :: a)) as [|t' a'] eqn:Ei; [|reflexivity].
      apply inst_nil_inv in Ei. discriminate Ei.
    - destruct a as [|t a]; cbn [map fix_args]; (destruct (inst _); reflexivity).
  Qed.

  Lemma map_opt_inst (ex ex' : list tok -> option (list tok)) :
    (forall ts r, ex ts = Some r -> ex' (inst ts) = Some (inst r)) ->
    forall l l', map_opt ex l = Some l' -> map_opt ex' (map inst l) = Some (map inst l').
  Proof.
    intros Hex. induction l as [|x l IH]; intros l' H.
    - injection H as <-. reflexivity.
    - cbn [map_opt] in H. destruct (ex x) as [y|] eqn:Ex; [|discriminate H].
      destruct (map_opt ex l) as [ys|] eqn:El; [|discriminate H]. injection H as <-.
      cbn [map map_opt]. rewrite (Hex _ _ Ex), (IH _ eq_refl). reflexivity.
  Qed.

  Lemma invoke_inst (ex ex' : list tok -> option (list tok)) m rest0 r :
    (forall ts r, ex ts = Some r -> ex' (inst ts) = Some (inst r)) ->
    (forall s', In (TId s') (m_body m) -> sigma s' = None) ->
    invoke ex m rest0 = Some r -> invoke ex' m (inst rest0) = Some (inst r).
  Proof.
    intros Hex Hb H. unfold invoke in H |- *.
    destruct (collect_args rest0 0 [] []) as [[args0 rest']|] eqn:Ec; [|discriminate H].
    apply collect_inst in Ec. change (rinst []) with (@nil tok) in Ec. cbn [map] in Ec. rewrite Ec.
    cbv zeta in H |- *. rewrite fix_args_inst, map_length.
    destruct (Nat.eqb _ _); [|discriminate H].
    destruct (map_opt ex _) as [args'|] eqn:Em; [|discriminate H].
    rewrite (map_opt_inst ex ex' Hex _ _ Em).
    rewrite subst_inst by exact Hb. rewrite <- inst_app. apply Hex. exact H.
  Qed.

  Lemma expand_inst : forall f ts r, expand_chk f ts = Some r ->
    forall f', (f * K <= f')%nat -> expand_with ms f' (inst ts) = Some (inst r).
  Proof.
    induction f as [|f IH]; intros ts r H f' Hf'; [discriminate H|].
    cbn [Nat.mul] in Hf'.
    destruct f' as [|f'']; [lia|]. assert (f * K <= f'')%nat as Hf'' by lia.
    assert (forall t rest r1, cons_opt t (expand_chk f rest) = Some r1 ->
              exists r0, r1 = t :: r0 /\ expand_chk f rest = Some r0) as Hcons.
    { intros t rest r1 Hc. destruct (expand_chk f rest) as [r0|]; [|discriminate Hc].
      injection Hc as <-. exists r0. split; reflexivity. }
    destruct ts as [|t rest].
    - injection H as <-. reflexivity.
    - destruct t as [s|z|o| | |].
      + (* identifier *)
        cbn [expand_chk] in H. destruct (find_macro s ms) as [m|] eqn:Em.
        * (* a macro name *)
          assert (sigma s = None) as Hs.
          { destruct (sigma s) as [a|] eqn:Es; [|reflexivity].
            rewrite (Hnomac _ _ Es) in Em. discriminate Em. }
          cbn [inst]. rewrite Hs.
          destruct rest as [|[h|z|o| | |] rest0].
          -- destruct (Hcons _ _ _ H) as (r0 & -> & E). rewrite expand_S_id_nocall by discriminate.
             rewrite (IH _ _ E _ Hf''). cbn [inst cons_opt]. rewrite Hs. reflexivity.
          -- destruct (sigma h) as [a|] eqn:Eh; [discriminate H|].
             destruct (Hcons _ _ _ H) as (r0 & -> & E).
             rewrite expand_S_id_nocall by (cbn [inst]; rewrite Eh; discriminate).
             rewrite (IH _ _ E _ Hf''). cbn [inst cons_opt]. rewrite Hs. reflexivity.
          -- destruct (Hcons _ _ _ H) as (r0 & -> & E). rewrite expand_S_id_nocall by discriminate.
             rewrite (IH _ _ E _ Hf''). cbn [inst cons_opt]. rewrite Hs. reflexivity.
          -- destruct (Hcons _ _ _ H) as (r0 & -> & E). rewrite expand_S_id_nocall by discriminate.
             rewrite (IH _ _ E _ Hf''). cbn [inst cons_opt]. rewrite Hs. reflexivity.
          -- (* an invocation *)
             cbn [inst]. rewrite (expand_S_id_call _ _ _ _ _ Em).
             apply (invoke_inst (expand_chk f)); [|exact (Hbody _ _ Em)|exact H].
             intros ts1 r1 H1. exact (IH _ _ H1 _ Hf'').
          -- destruct (Hcons _ _ _ H) as (r0 & -> & E). rewrite expand_S_id_nocall by discriminate.
             rewrite (IH _ _ E _ Hf''). cbn [inst cons_opt]. rewrite Hs. reflexivity.
          -- destruct (Hcons _ _ _ H) as (r0 & -> & E). rewrite expand_S_id_nocall by discriminate.
             rewrite (IH _ _ E _ Hf''). cbn [inst cons_opt]. rewrite Hs. reflexivity.
        * destruct (Hcons _ _ _ H) as (r0 & -> & E). cbn [inst].
          destruct (sigma s) as [a|] eqn:Es.
          -- (* a placeholder *)
             destruct (Himg _ _ Es) as (_ & _ & Hfree & Hlen).
             replace (S f'') with (List.length a + (S f'' - List.length a))%nat by lia.
             rewrite (expand_prefix ms a Hfree).
             rewrite (IH _ _ E) by lia. reflexivity.
          -- rewrite (expand_S_id_none _ _ _ _ Em), (IH _ _ E _ Hf''). reflexivity.
      + cbn [expand_chk] in H. destruct (Hcons _ _ _ H) as (r0 & -> & E).
        cbn [inst]. rewrite expand_S_tok by discriminate. rewrite (IH _ _ E _ Hf''). reflexivity.
      + cbn [expand_chk] in H. destruct (Hcons _ _ _ H) as (r0 & -> & E).
        cbn [inst]. rewrite expand_S_tok by discriminate. rewrite (IH _ _ E _ Hf''). reflexivity.
      + cbn [expand_chk] in H. destruct (Hcons _ _ _ H) as (r0 & -> & E).
        cbn [inst]. rewrite expand_S_tok by discriminate. rewrite (IH _ _ E _ Hf''). reflexivity.
      + cbn [expand_chk] in H. destruct (Hcons _ _ _ H) as (r0 & -> & E).
        cbn [inst]. rewrite expand_S_tok by discriminate. rewrite (IH _ _ E _ Hf''). reflexivity.
      + cbn [expand_chk] in H. destruct (Hcons _ _ _ H) as (r0 & -> & E).
        cbn [inst]. rewrite expand_S_tok by discriminate. rewrite (IH _ _ E _ Hf''). reflexivity.
  Qed.
End ExpandParam.

(* ================= D. assembly ================= *)

Section InstLength.
  Variables (sigma : string -> option (list tok)) (h : string) (a : list tok).
  Hypothesis Hh : sigma h = Some a.
  Hypothesis Hpos : forall h' a', sigma h' = Some a' -> (1 <= List.length a')%nat.

  Lemma inst_length_ge ts :
    (List.length ts <= List.length (inst sigma ts))%nat /\
    (In (TId h) ts -> (List.length ts - 1 + List.length a <= List.length (inst sigma ts))%nat).
  Proof.
    induction ts as [|t ts [IH1 IH2]]; [split; [apply Nat.le_refl|intros []]|].
    destruct t as [s|z|o| | |]; cbn [inst];
      try (cbn [List.length]; split; [lia|]; intros [Ht|Hin]; [discriminate Ht|specialize (IH2 Hin); lia]).
    destruct (sigma s) as [a'|] eqn:Es.
    - pose proof (Hpos _ _ Es) as Hp. rewrite app_length. cbn [List.length]. split; [lia|].
      intros [Ht|Hin]; [|specialize (IH2 Hin); lia].
      injection Ht as ->. rewrite Hh in Es. injection Es as <-. lia.
    - cbn [List.length]. split; [lia|]. intros [Ht|Hin]; [|specialize (IH2 Hin); lia].
      injection Ht as ->. rewrite Hh in Es. discriminate Es.
  Qed.
End InstLength.

Lemma find_macro_In s m : forall ms, find_macro s ms = Some m -> In m ms.
Proof.
  induction ms as [|m0 ms IH]; [discriminate|]. cbn [find_macro].
  destruct (String.eqb s (m_name m0)); [intros H; injection H as <-; left; reflexivity|].
  intros H. right. exact (IH H).
Qed.

(* the invocation on the two placeholders of MacroProofs.v (no C identifiers), what the placeholders
   stand for in [libwifi_check_capabilities(arg, name)], and the skeleton: the checked expansion of the
   invocation on the placeholders, computed once *)
Definition src0 : list tok := [TId "libwifi_check_capabilities"; TLParen; TId hx; TComma; TId hc; TRParen].

Definition sigma_of (arg : list tok) (name : string) (s : string) : option (list tok) :=
  if String.eqb s hx then Some arg else if String.eqb s hc then Some [TId name] else None.

Definition skel_fuel : nat := 64.

Definition skeleton : list tok :=
  Eval vm_compute in
    match expand_chk all_macros (sigma_of [] "") skel_fuel src0 with Some r => r | None => [] end.

Lemma skeleton_expand arg name :
  expand_chk all_macros (sigma_of arg name) skel_fuel src0 = Some skeleton.
Proof. vm_compute. reflexivity. Qed.

(* the skeleton mentions the expression placeholder, and it parses - with little fuel - to the macro's own
   AST, whose bit semantics is [macro_sem] *)
Definition skel_parse_fuel : nat := 6 * (List.length skeleton - 1).

Lemma skeleton_has_hx : In (TId hx) skeleton.
Proof. vm_compute. tauto. Qed.

Lemma skeleton_parse : exists m, parse_cond skel_parse_fuel skeleton = Some (m, []) /\ macro_ast = Some m.
Proof. eexists. split; vm_compute; reflexivity. Qed.

(* in the skeleton every expression placeholder stands between parentheses *)
Lemma skeleton_rel arg name :
  rel hx hc name arg skeleton (inst (sigma_of arg name) skeleton).
Proof.
  unfold skeleton. cbn.
  repeat first [ apply rel_nil | apply rel_x | apply rel_c
               | apply rel_t; [discriminate|discriminate|] ].
Qed.

(* the macro table: the placeholders are no macro names and occur in no body; published capability
   names are no macro names *)
Definition is_ph (s : string) : bool := String.eqb s hx || String.eqb s hc.

Lemma sigma_of_not_ph arg name s : is_ph s = false -> sigma_of arg name s = None.
Proof.
  unfold is_ph, sigma_of. intros H. apply orb_false_elim in H as [-> ->]. reflexivity.
Qed.

Lemma table_ok :
  forallb (fun m => forallb (fun t => match t with TId s => negb (is_ph s) | _ => true end) (m_body m))
    all_macros = true /\
  find_macro hx all_macros = None /\ find_macro hc all_macros = None /\
  forallb (fun nb => match find_macro (fst nb) all_macros with None => true | Some _ => false end)
    ieee_cap_bits = true.
Proof. vm_compute. repeat split. Qed.

Theorem any_expression_gen : forall name bit arg e env v,
  In (name, bit) ieee_cap_bits ->
  arg_ok arg -> parse_expr arg = Some e ->
  env name = Some bit ->
  eval env e = Some v ->
  exists r, check_cap_eval arg name env = Some r /\ (r <> 0%Z <-> Z.testbit v bit = true).
Proof.
  intros name bit arg e env v Hn Hok Hp Henv Hv.
  (* the name *)
  pose proof names_ok as Hnames. rewrite forallb_forall in Hnames. specialize (Hnames _ Hn).
  unfold name_ok in Hnames. cbn [fst snd] in Hnames.
  assert (0 <= bit)%Z as Hbit.
  { repeat (apply andb_prop in Hnames as [Hnames ?Hx]).
    match goal with Hle : (0 <=? bit)%Z = true |- _ => apply Z.leb_le in Hle; exact Hle end. }
  clear Hnames.
  destruct table_ok as (Hbodies & Hhx & Hhc & Hcaps).
  rewrite forallb_forall in Hcaps. specialize (Hcaps _ Hn). cbn [fst] in Hcaps.
  destruct (find_macro name all_macros) eqn:Hname; [discriminate Hcaps|]. clear Hcaps.
  (* the argument *)
  pose proof (parsed_scan _ _ Hp) as Hbal.
  pose proof (parsed_nonempty _ _ Hp) as Hne.
  set (fa := (6 * List.length arg + 8)%nat).
  assert (parse_cond fa arg = Some (e, [])) as Harg.
  { unfold parse_expr in Hp. fold fa in Hp.
    destruct (parse_cond fa arg) as [[e0 [|t r]]|]; try discriminate Hp. injection Hp as ->. reflexivity. }
  set (sigma := sigma_of arg name).
  assert (forall h a, sigma h = Some a -> (h = hx /\ a = arg) \/ (h = hc /\ a = [TId name])) as Hsig.
  { intros h a. unfold sigma, sigma_of.
    destruct (String.eqb_spec h hx) as [->|_]; [intros Heq; injection Heq as <-; left; split; reflexivity|].
    destruct (String.eqb_spec h hc) as [->|_]; [intros Heq; injection Heq as <-; right; split; reflexivity|].
    discriminate. }
  (* 1. expansion *)
  assert (expand_with all_macros
            (expand_fuel ([TId "libwifi_check_capabilities"; TLParen] ++ arg ++ [TComma; TId name; TRParen]))
            ([TId "libwifi_check_capabilities"; TLParen] ++ arg ++ [TComma; TId name; TRParen])
          = Some (inst sigma skeleton)) as Hexp.
  { change ([TId "libwifi_check_capabilities"; TLParen] ++ arg ++ [TComma; TId name; TRParen])
      with (inst sigma src0).
    apply (expand_inst all_macros sigma (S (List.length arg))) with (f := skel_fuel).
    - lia.
    - intros h a Ha. destruct (Hsig _ _ Ha) as [(-> & ->)|(-> & ->)].
      + repeat split; [exact Hne|exact Hbal|exact Hok|lia].
      + repeat split; [discriminate| |cbn [List.length]; lia].
        intros s [Hs|[]]. injection Hs as <-. exact Hname.
    - intros h a Ha. destruct (Hsig _ _ Ha) as [(-> & _)|(-> & _)]; assumption.
    - intros s m Hm s' Hs'. apply sigma_of_not_ph.
      rewrite forallb_forall in Hbodies. specialize (Hbodies _ (find_macro_In _ _ _ Hm)).
      rewrite forallb_forall in Hbodies. specialize (Hbodies _ Hs'). apply negb_true_iff. exact Hbodies.
    - apply skeleton_expand.
    - change (inst sigma src0)
        with ([TId "libwifi_check_capabilities"; TLParen] ++ arg ++ [TComma; TId name; TRParen]).
      unfold expand_fuel, skel_fuel. rewrite !app_length. cbn [List.length]. lia. }
  (* 2. parsing *)
  destruct skeleton_parse as (m & Hm & Hast).
  assert (String.eqb hc hx = false) as Hcx by reflexivity.
  assert (parse_expr (inst sigma skeleton) = Some (sub hx hc name e m)) as Hparse.
  { pose proof (parse_rel hx hc name arg e fa Hcx Harg _ _ _ _ Hm (skeleton_rel arg name)) as Hr.
    fold sigma in Hr. unfold parse_expr.
    rewrite (parse_cond_mono _ (6 * List.length (inst sigma skeleton) + 8) _ _ Hr); [reflexivity|].
    assert (sigma hx = Some arg) as Hsx by reflexivity.
    assert (forall h' a', sigma h' = Some a' -> (1 <= List.length a')%nat) as Hpos.
    { intros h' a' Ha. destruct (Hsig _ _ Ha) as [(_ & ->)|(_ & ->)]; [|cbn [List.length]; lia].
      destruct arg; [contradiction Hne; reflexivity|cbn [List.length]; lia]. }
    pose proof (proj2 (inst_length_ge sigma hx arg Hsx Hpos skeleton) skeleton_has_hx) as Hlen.
    unfold skel_parse_fuel, fa. lia. }
  (* 3. evaluation *)
  unfold check_cap_eval, check_cap, check_cap_with. cbv zeta. rewrite Hexp, Hparse.
  rewrite (eval_sub hx hc name e env v bit Hv Henv).
  pose proof (macro_sem (env_ph hx hc env v bit) v bit) as Hsem. rewrite Hast in Hsem.
  apply Hsem; [reflexivity|reflexivity|exact Hbit].
Qed.

(* the statement of Properties_C18.v: the capability names denote their IEEE bits in [env] *)
Theorem any_expression_ok : forall name bit arg e env v,
  In (name, bit) ieee_cap_bits ->
  arg_ok arg -> parse_expr arg = Some e ->
  (forall s b, In (s, b) ieee_cap_bits -> env s = Some b) ->
  eval env e = Some v ->
  exists r, check_cap_eval arg name env = Some r /\ (r <> 0%Z <-> Z.testbit v bit = true).
Proof.
  intros name bit arg e env v Hn Hok Hp Henv Hv.
  exact (any_expression_gen name bit arg e env v Hn Hok Hp (Henv _ _ Hn) Hv).
Qed.

(* ... in particular in the environment of the shape theorem: operand variables a, b, c, every other
   identifier an enumerator of the header *)
Theorem any_expression_env_of : forall name bit arg e a b c v,
  In (name, bit) ieee_cap_bits ->
  arg_ok arg -> parse_expr arg = Some e ->
  eval (env_of a b c) e = Some v ->
  exists r, check_cap_eval arg name (env_of a b c) = Some r /\ (r <> 0%Z <-> Z.testbit v bit = true).
Proof.
  intros name bit arg e a b c v Hn Hok Hp Hv.
  apply (any_expression_ok name bit arg e (env_of a b c) v Hn Hok Hp); [|exact Hv].
  intros s k Hs. pose proof (cap_values _ _ Hs) as Hlook.
  pose proof names_ok as Hnames. rewrite forallb_forall in Hnames. specialize (Hnames _ Hs).
  unfold name_ok in Hnames. cbn [fst snd] in Hnames.
  repeat (apply andb_prop in Hnames as [Hnames ?Hx]).
  repeat match goal with Hneg : negb _ = true |- _ => apply negb_true_iff in Hneg end.
  unfold env_of.
  repeat match goal with Heq : String.eqb s _ = false |- _ => rewrite Heq; clear Heq end.
  exact Hlook.
Qed.

(* the hypotheses are satisfiable by a non-trivial argument:   c ? a | 256 : ( b ^ a ) << 1 *)
Example example_arg_ok : arg_ok example_arg.
Proof.
  intros s Hin. unfold example_arg in Hin. cbn [In] in Hin.
  repeat (destruct Hin as [Hin|Hin]; [try discriminate Hin; injection Hin as <-; reflexivity|]).
  destruct Hin.
Qed.

Definition nonzero (o : option Z) : bool := match o with Some r => negb (Z.eqb r 0) | None => false end.
Definition zero (o : option Z) : bool := match o with Some r => Z.eqb r 0 | None => false end.

Example example_hyps :
  arg_ok example_arg /\
  parse_expr example_arg =
    Some (ECond (EVar "c") (EBin BOr (EVar "a") (ELit 256))
                (EBin BShl (EBin BXor (EVar "b") (EVar "a")) (ELit 1))) /\
  (* c <> 0: 0x1234 | 0x100 = 0x1334, bit 8 set *)
  eval (env_of 4660 22136 1)
    (ECond (EVar "c") (EBin BOr (EVar "a") (ELit 256))
           (EBin BShl (EBin BXor (EVar "b") (EVar "a")) (ELit 1))) = Some 4916%Z /\
  nonzero (check_cap_eval example_arg "CAPABILITIES_SPECTRUM_AGILITY" (env_of 4660 22136 1)) = true /\
  (* c = 0: (0x5678 ^ 0x1234) << 1 = 0x8898, bit 8 clear, bit 15 set *)
  eval (env_of 4660 22136 0)
    (ECond (EVar "c") (EBin BOr (EVar "a") (ELit 256))
           (EBin BShl (EBin BXor (EVar "b") (EVar "a")) (ELit 1))) = Some 34968%Z /\
  zero (check_cap_eval example_arg "CAPABILITIES_SPECTRUM_AGILITY" (env_of 4660 22136 0)) = true /\
  nonzero (check_cap_eval example_arg "CAPABILITIES_IMMEDIATE_ACK" (env_of 4660 22136 0)) = true.
Proof. split; [exact example_arg_ok|]. vm_compute. repeat split. Qed.

Example example_satisfiable : arg_ok example_arg /\ exists e v,
  parse_expr example_arg = Some e /\ eval (env_of 4660 22136 0) e = Some v.
Proof. split; [exact example_arg_ok|]. eexists. eexists. split; vm_compute; reflexivity. Qed.

(* ================= E. the fuel of [parse_expr] ================= *)

(* A successful parse consumes at least one token and needs no more than 2 * (tokens consumed) + 3 units
   of fuel; so the fuel [6 * length + 8] of [parse_expr] is never the reason for a failure: whatever
   [parse_cond] accepts as one expression with ANY fuel, [parse_expr] accepts. *)

Lemma as_op_length ts o r : as_op ts = Some (o, r) -> List.length ts = S (List.length r).
Proof. destruct ts as [|[s|z|o'| | |] rest]; try discriminate. intros H. injection H as <- <-. reflexivity. Qed.

Lemma parse_fuel_all : forall f,
  (forall ts e rest, parse_cond f ts = Some (e, rest) ->
     (List.length rest < List.length ts)%nat /\
     forall f', (2 * (List.length ts - List.length rest) + 3 <= f')%nat -> parse_cond f' ts = Some (e, rest)) /\
  (forall p ts e rest, parse_bin f p ts = Some (e, rest) ->
     (List.length rest < List.length ts)%nat /\
     forall f', (2 * (List.length ts - List.length rest) + 2 <= f')%nat -> parse_bin f' p ts = Some (e, rest)) /\
  (forall p l ts e rest, parse_loop f p l ts = Some (e, rest) ->
     (List.length rest <= List.length ts)%nat /\
     forall f', (2 * (List.length ts - List.length rest) + 1 <= f')%nat -> parse_loop f' p l ts = Some (e, rest)) /\
  (forall ts e rest, parse_unary f ts = Some (e, rest) ->
     (List.length rest < List.length ts)%nat /\
     forall f', (2 * (List.length ts - List.length rest) + 1 <= f')%nat -> parse_unary f' ts = Some (e, rest)) /\
  (forall ts e rest, parse_primary f ts = Some (e, rest) ->
     (List.length rest < List.length ts)%nat /\
     forall f', (2 * (List.length ts - List.length rest) <= f')%nat -> parse_primary f' ts = Some (e, rest)).
Proof.
  induction f as [|f IH]; [parse_base|].
  destruct IH as (IHc & IHb & IHl & IHu & IHp).
  repeat apply conj.
  - intros ts e rest H. rewrite parse_cond_S in H.
    destruct (parse_bin f 1 ts) as [[c rest0]|] eqn:Eb; [|discriminate H].
    destruct (IHb _ _ _ _ Eb) as [Lb Fb].
    assert (forall f', (2 * (List.length ts - List.length rest0) + 3 <= f')%nat ->
              parse_cond f' ts = Some (c, rest0) \/ exists o r, as_op rest0 = Some (o, r) /\ String.eqb o "?" = true)
      as Hplain.
    { intros f' Hf'. destruct f' as [|f']; [lia|]. rewrite parse_cond_S, (Fb f') by lia.
      destruct (as_op rest0) as [[o r]|]; [|left; reflexivity].
      destruct (String.eqb o "?") eqn:Eq; [|left; reflexivity]. right. exists o, r. split; [reflexivity|exact Eq]. }
    destruct (as_op rest0) as [[o rest1]|] eqn:Eo.
    2:{ injection H as <- <-. split; [exact Lb|]. intros f' Hf'.
        destruct (Hplain f' Hf') as [Hd|(o & r & Ho & _)]; [exact Hd|discriminate Ho]. }
    destruct (String.eqb o "?") eqn:Eq.
    2:{ injection H as <- <-. split; [exact Lb|]. intros f' Hf'.
        destruct (Hplain f' Hf') as [Hd|(o' & r & Ho & Hq)]; [exact Hd|].
        injection Ho as <- <-. rewrite Eq in Hq. discriminate Hq. }
    clear Hplain. pose proof (as_op_length _ _ _ Eo) as Lo.
    destruct (parse_cond f rest1) as [[a rest2]|] eqn:Ea; [|discriminate H].
    destruct (IHc _ _ _ Ea) as [La Fa].
    destruct (as_op rest2) as [[o2 rest3]|] eqn:Eo2; [|discriminate H].
    pose proof (as_op_length _ _ _ Eo2) as Lo2.
    destruct (String.eqb o2 ":") eqn:Eq2; [|discriminate H].
    destruct (parse_cond f rest3) as [[b rest4]|] eqn:Ec; [|discriminate H].
    destruct (IHc _ _ _ Ec) as [Lc Fc].
    injection H as <- <-. split; [lia|]. intros f' Hf'. destruct f' as [|f']; [lia|].
    rewrite parse_cond_S, (Fb f'), Eo, Eq, (Fa f'), Eo2, Eq2, (Fc f') by lia. reflexivity.
  - intros p ts e rest H. rewrite parse_bin_S in H.
    destruct (parse_unary f ts) as [[l rest0]|] eqn:Eu; [|discriminate H].
    destruct (IHu _ _ _ Eu) as [Lu Fu]. destruct (IHl _ _ _ _ _ H) as [Ll Fl].
    split; [lia|]. intros f' Hf'. destruct f' as [|f']; [lia|].
    rewrite parse_bin_S, (Fu f') by lia. apply Fl. lia.
  - intros p l ts e rest H. rewrite parse_loop_S in H.
    assert (forall f', (1 <= f')%nat -> parse_loop f' p l ts =
              match as_op ts with
              | Some (o, rest0) =>
                match binop_of o with
                | Some (b, q) =>
                  if Nat.leb p q then
                    match parse_bin (f' - 1) (S q) rest0 with
                    | Some (rhs, rest') => parse_loop (f' - 1) p (EBin b l rhs) rest'
                    | None => None
                    end
                  else Some (l, ts)
                | None => Some (l, ts)
                end
              | None => Some (l, ts)
              end) as Hstep.
    { intros f' Hf'. destruct f' as [|f']; [lia|]. rewrite parse_loop_S.
      replace (S f' - 1)%nat with f' by lia. reflexivity. }
    destruct (as_op ts) as [[o rest0]|] eqn:Eo.
    2:{ injection H as <- <-. split; [lia|]. intros f' Hf'. apply Hstep. lia. }
    destruct (binop_of o) as [[b q]|].
    2:{ injection H as <- <-. split; [lia|]. intros f' Hf'. apply Hstep. lia. }
    destruct (Nat.leb p q).
    2:{ injection H as <- <-. split; [lia|]. intros f' Hf'. apply Hstep. lia. }
    pose proof (as_op_length _ _ _ Eo) as Lo.
    destruct (parse_bin f (S q) rest0) as [[rhs rest1]|] eqn:Eb; [|discriminate H].
    destruct (IHb _ _ _ _ Eb) as [Lb Fb]. destruct (IHl _ _ _ _ _ H) as [Ll Fl].
    split; [lia|]. intros f' Hf'. rewrite Hstep by lia. rewrite (Fb (f' - 1)%nat) by lia.
    apply Fl. lia.
  - intros ts e rest H. rewrite parse_unary_S in H.
    destruct (as_op ts) as [[o rest0]|] eqn:Eo.
    2:{ destruct (IHp _ _ _ H) as [Lp Fp]. split; [exact Lp|]. intros f' Hf'.
        destruct f' as [|f']; [lia|]. rewrite parse_unary_S, Eo. apply Fp. lia. }
    pose proof (as_op_length _ _ _ Eo) as Lo.
    destruct (unop_of o) as [u|] eqn:Eu0; [|discriminate H].
    destruct (parse_unary f rest0) as [[e0 rest1]|] eqn:Eu; [|discriminate H].
    destruct (IHu _ _ _ Eu) as [Lu Fu]. injection H as <- <-.
    split; [lia|]. intros f' Hf'. destruct f' as [|f']; [lia|].
    rewrite parse_unary_S, Eo, Eu0, (Fu f') by lia. reflexivity.
  - intros ts e rest H. rewrite parse_primary_S in H.
    destruct ts as [|[s|z|o| | |] rest0]; try discriminate H.
    + injection H as <- <-. cbn [List.length]. split; [lia|]. intros f' Hf'.
      destruct f' as [|f']; [lia|reflexivity].
    + injection H as <- <-. cbn [List.length]. split; [lia|]. intros f' Hf'.
      destruct f' as [|f']; [lia|reflexivity].
    + destruct (parse_cond f rest0) as [[e0 [|[s|z|o| | |] rest1]]|] eqn:Ec; try discriminate H.
      destruct (IHc _ _ _ Ec) as [Lc Fc]. injection H as <- <-. cbn [List.length] in Lc, Fc |- *.
      split; [lia|]. intros f' Hf'. destruct f' as [|f']; [lia|].
      rewrite parse_primary_S, (Fc f') by lia. reflexivity.
Qed.

Theorem parse_expr_fuel_complete f ts e : parse_cond f ts = Some (e, []) -> parse_expr ts = Some e.
Proof.
  intros H. destruct (proj1 (parse_fuel_all f) _ _ _ H) as [_ Hf]. unfold parse_expr.
  rewrite Hf; [reflexivity|]. cbn [List.length]. lia.
Qed.
