(* The two element parsers of parse/management/common.c AS TRANSLATED (Gen/Sites.v: body_libwifi_sta_tag_parser,
   body_libwifi_bss_tag_parser; the calls of libwifi_tag_iterator_next are inlined: SInline), run on a tag buffer [buf] placed at
   address [p] with NOTHING else readable (mem_at p buf), the iterator object (a parameter: its fields are the lvalues it->tag_header,
   it->tag_data, it->_next_tag_header, it->_frame_end) in the state libwifi_tag_iterator_init leaves it in:
   - the run is never stuck (no load outside the buffer, no overflow); the do-while loop passes once over every element of the
     Spec's chain [elements buf] (Spec/TagSpec.v), in order, an element with an empty body included, and stops behind the last one;
     the trace is the concatenation of the per-element events ([sta_events], [bss_events]); the channel field ends as the first body
     octet of the last DS parameter (BSS: or HT operation) element that has one  (code_sta_tag_parser_walk, code_bss_tag_parser_walk);
   - every pointer handed to a callee points into the buffer and the length handed with it stays inside
     (code_sta_tag_parser_inside, code_bss_tag_parser_inside) - with ONE exception that is an artefact of the translation, the memcmp
     event of a vendor specific element with fewer than 3 body octets (bss_memcmp_event_inside_refuted);
   - the BSS parser returns -22 at the first element whose RSN / MSFT handler answers non-zero: the elements in front of it have been
     handled, those behind it are not looked at (code_bss_tag_parser_rejects and its two corollaries; code_bss_tag_parser_run is
     the statement for arbitrary answers);
   - the elements visited are those the hand-written iterator (Model/TagIter.v) reports, and the channel is the one the hand-written
     parsers (Model/Mgmt.v) compute (code_tag_parsers_visit_model_walk, code_*_tag_parser_refines_model).
   The proof is a generic walk lemma ([walk_wp]: the loop  do { switch } while (next != -1)  over ANY switch that satisfies a
   per-element contract [sw_spec]; induction on the chain, [next_wp] is the inlined iterator step), instantiated twice.  It uses the
   weakest-precondition runner of Proofs/CodeSecurity.v, extended here with rules for SInline, SSwitch, SBreak and the do-while form
   of SLoop. *)
From Coq Require Import ZArith String List Bool Lia.
From LW Require Import Base.Bytes Base.CExpr Gen.Sites Proofs.SitesLemmas Proofs.CodeIter Proofs.CodeSecurity.
From LW Require Import Model.TagIter Spec.TagSpec Proofs.TagIterProofs.
Import ListNotations.
Local Open Scope string_scope.
Local Open Scope Z_scope.

(* ---------------------------------------------------------------- 1. more rules for the runner *)
Lemma wp_break N m rho tr r (Q : xresult -> Prop) : Q (Broke rho tr) -> wp (S N) m rho tr (SBreak :: r) Q.
Proof. intros HQ. exists 1%nat. split; [lia | ]. cbn [exec]. split; [discriminate | exact HQ]. Qed.

(* what remains to be shown of the outcome of the chosen case of a switch followed by r: the end of the case or a break go on
   behind the switch *)
Definition kont_sw (N : nat) (m : memory) (r : list cstmt) (Q : xresult -> Prop) : xresult -> Prop :=
  fun o => match o with
           | Fell rho' tr' => wp N m rho' tr' r Q
           | Broke rho' tr' => wp N m rho' tr' r Q
           | NoFuel => False
           | o => Q o
           end.

Lemma wp_switch N m rho tr k e cases default r Q v :
  ceval rho m e = Some v ->
  wp N m rho tr (pick_case v cases default) (kont_sw N m r Q) ->
  wp (S N) m rho tr (SSwitch k e cases default :: r) Q.
Proof.
  intros Hc (f1 & Hf1 & Hn1 & HQ).
  destruct (exec f1 m rho tr (pick_case v cases default)) as [rho1 tr1 | v1 rho1 tr1 | rho1 tr1 | why | ] eqn:E;
    cbn [kont_sw] in HQ.
  - destruct HQ as (f2 & Hf2 & Hn2 & HQ2).
    exists (S (Nat.max f1 f2)). split; [lia | ].
    cbn [exec]. rewrite Hc.
    rewrite (exec_fuel_le f1 (Nat.max f1 f2) _ _ _ _ _ (Nat.le_max_l _ _) E) by discriminate.
    rewrite (exec_fuel_le f2 (Nat.max f1 f2) _ _ _ _ _ (Nat.le_max_r _ _) eq_refl Hn2). split; assumption.
  - exists (S f1). split; [lia | ]. cbn [exec]. rewrite Hc, E. split; [discriminate | exact HQ].
  - destruct HQ as (f2 & Hf2 & Hn2 & HQ2).
    exists (S (Nat.max f1 f2)). split; [lia | ].
    cbn [exec]. rewrite Hc.
    rewrite (exec_fuel_le f1 (Nat.max f1 f2) _ _ _ _ _ (Nat.le_max_l _ _) E) by discriminate.
    rewrite (exec_fuel_le f2 (Nat.max f1 f2) _ _ _ _ _ (Nat.le_max_r _ _) eq_refl Hn2). split; assumption.
  - exists (S f1). split; [lia | ]. cbn [exec]. rewrite Hc, E. split; [discriminate | exact HQ].
  - contradiction.
Qed.

(* an inlined call followed by r: a return inside ends the block, its value lands in x *)
Definition kont_inl (N : nat) (m : memory) (x : string) (r : list cstmt) (Q : xresult -> Prop) : xresult -> Prop :=
  fun o => match o with
           | Returned (Some v) rho' tr' => wp N m (upd rho' x v) tr' r Q
           | Returned None rho' tr' => wp N m rho' tr' r Q
           | Fell rho' tr' => wp N m rho' tr' r Q
           | NoFuel => False
           | o => Q o
           end.

Lemma wp_inline N m rho tr x body r Q :
  wp N m rho tr body (kont_inl N m x r Q) -> wp (S N) m rho tr (SInline x body :: r) Q.
Proof.
  intros (f1 & Hf1 & Hn1 & HQ).
  destruct (exec f1 m rho tr body) as [rho1 tr1 | [v1 | ] rho1 tr1 | rho1 tr1 | why | ] eqn:E; cbn [kont_inl] in HQ.
  - destruct HQ as (f2 & Hf2 & Hn2 & HQ2).
    exists (S (Nat.max f1 f2)). split; [lia | ]. cbn [exec].
    rewrite (exec_fuel_le f1 (Nat.max f1 f2) _ _ _ _ _ (Nat.le_max_l _ _) E) by discriminate.
    rewrite (exec_fuel_le f2 (Nat.max f1 f2) _ _ _ _ _ (Nat.le_max_r _ _) eq_refl Hn2). split; assumption.
  - destruct HQ as (f2 & Hf2 & Hn2 & HQ2).
    exists (S (Nat.max f1 f2)). split; [lia | ]. cbn [exec].
    rewrite (exec_fuel_le f1 (Nat.max f1 f2) _ _ _ _ _ (Nat.le_max_l _ _) E) by discriminate.
    rewrite (exec_fuel_le f2 (Nat.max f1 f2) _ _ _ _ _ (Nat.le_max_r _ _) eq_refl Hn2). split; assumption.
  - destruct HQ as (f2 & Hf2 & Hn2 & HQ2).
    exists (S (Nat.max f1 f2)). split; [lia | ]. cbn [exec].
    rewrite (exec_fuel_le f1 (Nat.max f1 f2) _ _ _ _ _ (Nat.le_max_l _ _) E) by discriminate.
    rewrite (exec_fuel_le f2 (Nat.max f1 f2) _ _ _ _ _ (Nat.le_max_r _ _) eq_refl Hn2). split; assumption.
  - exists (S f1). split; [lia | ]. cbn [exec]. rewrite E. split; [discriminate | exact HQ].
  - exists (S f1). split; [lia | ]. cbn [exec]. rewrite E. split; [discriminate | exact HQ].
  - contradiction.
Qed.

(* one pass of a loop whose condition holds (pre = true) or is not looked at (the first pass of do-while, pre = false) *)
Lemma wp_loop_pass N m rho tr k (pre : bool) c body step r Q :
  (pre = true -> exists v, ceval rho m c = Some v /\ v <> 0) ->
  wp N m rho tr body
     (fun o => match o with
               | Fell rho2 tr2 => wp N m rho2 tr2 step (kont N m (SLoop k true c body step :: r) Q)
               | Broke rho2 tr2 => wp N m rho2 tr2 r Q
               | NoFuel => False
               | o => Q o
               end) ->
  wp (S N) m rho tr (SLoop k pre c body step :: r) Q.
Proof.
  intros Hpre H. destruct pre.
  - destruct (Hpre eq_refl) as (v & Hc & Hv). apply wp_loop_enter with (v := v); assumption.
  - clear Hpre. destruct H as (f1 & Hf1 & Hn1 & H1).
    destruct (exec f1 m rho tr body) as [rho2 tr2 | v2 rho2 tr2 | rho2 tr2 | why | ] eqn:E1.
    + destruct H1 as (f2 & Hf2 & Hn2 & H2).
      destruct (exec f2 m rho2 tr2 step) as [rho3 tr3 | v3 rho3 tr3 | rho3 tr3 | why | ] eqn:E2; cbn [kont] in H2.
      * destruct H2 as (f3 & Hf3 & Hn3 & H3).
        set (f := Nat.max f1 (Nat.max f2 f3)).
        exists (S f). split; [lia | ].
        rewrite (exec_loop_do f m rho tr k c body step r).
        rewrite (exec_fuel_le f1 f _ _ _ _ _ ltac:(lia) E1) by discriminate.
        rewrite (exec_fuel_le f2 f _ _ _ _ _ ltac:(lia) E2) by discriminate.
        rewrite (exec_fuel_le f3 f _ _ _ _ _ ltac:(lia) eq_refl Hn3). split; assumption.
      * set (f := Nat.max f1 f2). exists (S f). split; [lia | ].
        rewrite (exec_loop_do f m rho tr k c body step r).
        rewrite (exec_fuel_le f1 f _ _ _ _ _ ltac:(lia) E1) by discriminate.
        rewrite (exec_fuel_le f2 f _ _ _ _ _ ltac:(lia) E2) by discriminate. split; [discriminate | exact H2].
      * set (f := Nat.max f1 f2). exists (S f). split; [lia | ].
        rewrite (exec_loop_do f m rho tr k c body step r).
        rewrite (exec_fuel_le f1 f _ _ _ _ _ ltac:(lia) E1) by discriminate.
        rewrite (exec_fuel_le f2 f _ _ _ _ _ ltac:(lia) E2) by discriminate. split; [discriminate | exact H2].
      * set (f := Nat.max f1 f2). exists (S f). split; [lia | ].
        rewrite (exec_loop_do f m rho tr k c body step r).
        rewrite (exec_fuel_le f1 f _ _ _ _ _ ltac:(lia) E1) by discriminate.
        rewrite (exec_fuel_le f2 f _ _ _ _ _ ltac:(lia) E2) by discriminate. split; [discriminate | exact H2].
      * contradiction.
    + exists (S f1). split; [lia | ]. rewrite (exec_loop_do f1 m rho tr k c body step r), E1.
      split; [discriminate | exact H1].
    + destruct H1 as (f2 & Hf2 & Hn2 & H2).
      set (f := Nat.max f1 f2). exists (S f). split; [lia | ].
      rewrite (exec_loop_do f m rho tr k c body step r).
      rewrite (exec_fuel_le f1 f _ _ _ _ _ ltac:(lia) E1) by discriminate.
      rewrite (exec_fuel_le f2 f _ _ _ _ _ ltac:(lia) eq_refl Hn2). split; assumption.
    + exists (S f1). split; [lia | ]. rewrite (exec_loop_do f1 m rho tr k c body step r), E1.
      split; [discriminate | exact H1].
    + contradiction.
Qed.

(* a byte of the buffer, by its address *)
Lemma load_u8_at start buf a : start <= a < start + zlen buf ->
  load_le (mem_at start buf) a (Z.to_nat (8 / 8)) = Some (znth buf (a - start)).
Proof. intros H. replace a with (start + (a - start)) at 1 by lia. apply load_u8_off. lia. Qed.

(* ---------------------------------------------------------------- 2. the chain of elements, as the loop meets it *)
(* [is_chain buf off els]: els are the elements that fit, one behind the other from offset off on, and behind the last of them no
   further element fits *)
Fixpoint is_chain (buf : list byte) (off : Z) (els : list elem) : Prop :=
  match els with
  | [] => zlen buf - off < 2 \/ zlen buf - off - 2 < znth buf (off + 1)
  | e :: r => e_off e = off /\ genuine buf e /\ is_chain buf (off + 2 + e_len e) r
  end.

Lemma is_chain_of buf : forall els off,
  contiguous off els -> Forall (genuine buf) els ->
  (let stop := fold_left (fun _ e => e_off e + 2 + e_len e) els off in
   zlen buf - stop < 2 \/ zlen buf - stop - 2 < znth buf (stop + 1)) ->
  is_chain buf off els.
Proof.
  induction els as [ | e r IH]; intros off Hc Hg Hs.
  - exact Hs.
  - cbn [contiguous] in Hc. destruct Hc as (Ho & Hc). inversion Hg as [ | ? ? Ge Gr]; subst.
    cbn [is_chain]. split; [reflexivity | ]. split; [exact Ge | ].
    apply IH; [exact Hc | exact Gr | ]. cbn [fold_left] in Hs. exact Hs.
Qed.

Lemma elements_is_chain buf : wfbytes buf -> is_chain buf 0 (elements buf).
Proof.
  intros Hwf. destruct (elements_maximal buf Hwf) as (Hc & Hg & Hs).
  apply is_chain_of; assumption.
Qed.

(* the state libwifi_tag_iterator_init leaves: the first element fits *)
Lemma elements_first buf : 2 <= zlen buf -> znth buf 1 <= zlen buf - 2 ->
  exists e r, elements buf = e :: r /\ e_off e = 0 /\ e_len e = znth buf 1.
Proof.
  intros H2 Hfit. rewrite elements_unfold. destruct buf as [ | a [ | b rest]].
  - rewrite (@zlen_nil byte) in H2. lia.
  - rewrite zlen_cons, (@zlen_nil byte) in H2. lia.
  - change (znth (a :: b :: rest) 1) with b in Hfit. rewrite !zlen_cons in Hfit.
    destruct (Z.ltb_spec (zlen rest) b); [lia | ].
    eexists. eexists. split; [reflexivity | ]. split; reflexivity.
Qed.

(* ---------------------------------------------------------------- 3. the generic walk *)
(* what one pass of the switch does with an element: the new abstract state, the events it appends to the trace, and the value it
   makes the routine return, if it does *)
Record sres (A : Type) := mk_sres { s_st : A; s_ev : list event; s_ret : option Z }.
Arguments mk_sres {A}. Arguments s_st {A}. Arguments s_ev {A}. Arguments s_ret {A}.

(* the passes over a list of elements: stop at the first that returns *)
Fixpoint run {A} (step : A -> elem -> sres A) (a : A) (els : list elem) : sres A :=
  match els with
  | [] => mk_sres a [] None
  | e :: r =>
      let s1 := step a e in
      match s_ret s1 with
      | Some _ => s1
      | None => let s2 := run step (s_st s1) r in mk_sres (s_st s2) (s_ev s1 ++ s_ev s2) (s_ret s2)
      end
  end.

Lemma run_cons {A} (step : A -> elem -> sres A) a e r :
  run step a (e :: r) =
    match s_ret (step a e) with
    | Some _ => step a e
    | None => mk_sres (s_st (run step (s_st (step a e)) r)) (s_ev (step a e) ++ s_ev (run step (s_st (step a e)) r))
                      (s_ret (run step (s_st (step a e)) r))
    end.
Proof. reflexivity. Qed.

Definition RET : string := "ret$libwifi_tag_iterator_next#0".
(* the lvalues the inlined libwifi_tag_iterator_next assigns *)
Definition it_names : list string :=
  ["libwifi_tag_iterator_next#0$next_th"; "it->tag_header"; "libwifi_tag_iterator_next#0$bytes_left"; "it->tag_data";
   "it->_next_tag_header"; RET].
Definition it_name (x : string) : bool := existsb (String.eqb x) it_names.
Definition it_frame (rho rho' : env) : Prop := forall x, it_name x = false -> rho' x = rho x.

Definition next_stmt : cstmt :=
  SInline "ret$libwifi_tag_iterator_next#0" [(SSet "libwifi_tag_iterator_next#0:decl:next_th#0" "libwifi_tag_iterator_next#0$next_th" (CCast (mkty false 64) (CVar (mkty false 64) "it->_next_tag_header"))); (SIf "libwifi_tag_iterator_next#0:if#0" (CBin OGe (mkty true 32) (CVar (mkty false 64) "libwifi_tag_iterator_next#0$next_th") (CVar (mkty false 64) "it->_frame_end")) [(SRet "libwifi_tag_iterator_next#0:ret#0" (Some (CUn UNeg (mkty true 32) (CLit (mkty true 32) 1))))] []); (SSet "libwifi_tag_iterator_next#0:set:it->tag_header#0" "it->tag_header" (CCast (mkty false 64) (CVar (mkty false 64) "it->_next_tag_header"))); (SSet "libwifi_tag_iterator_next#0:decl:bytes_left#0" "libwifi_tag_iterator_next#0$bytes_left" (CCast (mkty false 64) (CCast (mkty false 64) (CBin OSub s64 (CVar (mkty false 64) "it->_frame_end") (CVar (mkty false 64) "it->tag_header"))))); (SIf "libwifi_tag_iterator_next#0:if#1" (CBin OGe (mkty true 32) (CCast (mkty false 64) (CLoad (mkty false 8) (CBin OAdd s64 (CVar (mkty false 64) "it->tag_header") (CLit s64 1)))) (CVar (mkty false 64) "libwifi_tag_iterator_next#0$bytes_left")) [(SRet "libwifi_tag_iterator_next#0:ret#1" (Some (CUn UNeg (mkty true 32) (CLit (mkty true 32) 1))))] []); (SSet "libwifi_tag_iterator_next#0:set:it->tag_data#0" "it->tag_data" (CCast (mkty false 64) (CBin OAdd s64 (CVar (mkty false 64) "it->tag_header") (CCast s64 (CLit u64 2))))); (SSet "libwifi_tag_iterator_next#0:set:it->_next_tag_header#0" "it->_next_tag_header" (CCast (mkty false 64) (CBin OAdd s64 (CVar (mkty false 64) "it->tag_data") (CCast s64 (CCast (mkty true 32) (CLoad (mkty false 8) (CBin OAdd s64 (CVar (mkty false 64) "it->tag_header") (CLit s64 1)))))))); (SRet "libwifi_tag_iterator_next#0:ret#2" (Some (CCast (mkty true 32) (CLoad (mkty false 8) (CBin OAdd s64 (CVar (mkty false 64) "it->tag_header") (CLit s64 0))))))].
Definition loop_cond : cexpr :=
  CBin ONe (mkty true 32) (CVar (mkty true 32) "ret$libwifi_tag_iterator_next#0") (CUn UNeg (mkty true 32) (CLit (mkty true 32) 1)).
Definition the_loop (sw : cstmt) (pre : bool) : cstmt := SLoop "loop#0" pre loop_cond [sw; next_stmt] [].

Ltac ldcev :=
  ceval_unfold; env_rw;
  repeat (progress (wrap_ids; repeat match goal with H : load_le _ _ _ = Some _ |- _ => rewrite H end; decide_bools; cbv beta iota));
  try reflexivity.

Ltac frame_tac :=
  let x := fresh "x" in let Hx := fresh "Hx" in
  intros x Hx; unfold upd;
  repeat match goal with
         | |- context [String.eqb x ?s] =>
             destruct (String.eqb_spec x s) as [-> | _]; [vm_compute in Hx; discriminate Hx | ]
         end;
  reflexivity.

Section Walk.
  Variables (p : Z) (buf : list byte).
  Hypothesis Hwf : wfbytes buf.
  Hypothesis Hp : 0 < p.
  Hypothesis Hend : p + zlen buf < 4611686018427387904.
  Let m := mem_at p buf.

  (* the iterator object points at the element at offset off, whose body has L octets *)
  Definition at_off (rho : env) (off L : Z) : Prop :=
    rho "it->tag_header" = p + off /\ rho "it->tag_data" = p + off + 2 /\
    rho "it->_next_tag_header" = p + off + 2 + L /\ rho "it->_frame_end" = p + zlen buf - 1.

  Lemma genuine_bounds e : genuine buf e ->
    0 <= e_off e /\ e_off e + 2 + e_len e <= zlen buf /\ 0 <= e_num e < 256 /\ 0 <= e_len e < 256 /\
    load_le m (p + e_off e + 0) (Z.to_nat (8 / 8)) = Some (e_num e) /\
    load_le m (p + e_off e + 1) (Z.to_nat (8 / 8)) = Some (e_len e).
  Proof.
    intros (G0 & G1 & G2 & G3).
    assert (Hl : 0 <= e_len e < 256).
    { rewrite G3. apply wfbytes_znth; [exact Hwf | ]. pose proof (zlen_nonneg buf). 
      destruct (Z_lt_le_dec (e_off e + 1) (zlen buf)); [lia | ].
      exfalso. assert (Hz : znth buf (e_off e + 1) = 0).
      { unfold znth. apply nth_overflow. unfold zlen in *. lia. }
      rewrite Hz in G3. lia. }
    assert (Hn : 0 <= e_num e < 256) by (rewrite G2; apply wfbytes_znth; [exact Hwf | lia]).
    repeat split; try lia.
    - unfold m. rewrite load_u8_at by lia. rewrite G2. do 2 f_equal. lia.
    - unfold m. rewrite load_u8_at by lia. rewrite G3. do 2 f_equal. lia.
  Qed.

  (* libwifi_tag_iterator_next, inlined, from the element at off: the iterator object moves to the next element of the chain and the
     loop variable is its number, or there is none and the loop variable is -1; nothing else changes *)
  Lemma next_wp rho tr off L els N r Q :
    0 <= off -> 0 <= L -> off + 2 + L <= zlen buf ->
    at_off rho off L ->
    is_chain buf (off + 2 + L) els ->
    (forall rho', it_frame rho rho' ->
       match els with
       | [] => rho' RET = -1
       | e' :: _ => at_off rho' (e_off e') (e_len e') /\ rho' RET = e_num e'
       end -> wp N m rho' tr r Q) ->
    wp (14 + N) m rho tr (next_stmt :: r) Q.
  Proof.
    intros Hoff HL Hfit (H1 & H2 & H3 & H4) Hch Hk.
    pose proof (zlen_nonneg buf) as Hlen.
    unfold next_stmt. change (14 + N)%nat with (S (13 + N)). apply wp_inline.
    eapply wp_mono with (N := 12%nat); [lia | ].
    eapply wp_set; [ldcev | ].
    destruct els as [ | e' els'].
    - cbn [is_chain] in Hch.
      destruct (Z_lt_le_dec (zlen buf - (off + 2 + L)) 2) as [Hno | Hhdr].
      + eapply wp_if_ret; [ldcev | discriminate | ldcev | ].
        cbn [kont_inl]. apply wp_mono with (N := N); [lia | ].
        apply Hk; [frame_tac | reflexivity].
      + destruct Hch as [Hch | Hch]; [lia | ].
        assert (Hb : 0 <= znth buf (off + 2 + L + 1) < 256) by (apply wfbytes_znth; [exact Hwf | lia]).
        assert (Hld : load_le m (p + off + 2 + L + 1) (Z.to_nat (8 / 8)) = Some (znth buf (off + 2 + L + 1))).
        { unfold m. rewrite load_u8_at by lia. do 2 f_equal. lia. }
        apply wp_if_skip; [ldcev | ].
        eapply wp_set; [ldcev | ].
        eapply wp_set; [ldcev | ].
        eapply wp_if_ret; [ldcev | discriminate | ldcev | ].
        cbn [kont_inl]. apply wp_mono with (N := N); [lia | ].
        apply Hk; [frame_tac | reflexivity].
    - cbn [is_chain] in Hch. destruct Hch as (Eo & Ge & _).
      destruct (genuine_bounds e' Ge) as (B0 & B1 & Bn & Bl & Hld0 & Hld1).
      rewrite Eo in *.
      replace (p + (off + 2 + L) + 0) with (p + off + 2 + L + 0) in Hld0 by lia.
      replace (p + (off + 2 + L) + 1) with (p + off + 2 + L + 1) in Hld1 by lia.
      apply wp_if_skip; [ldcev | ].
      eapply wp_set; [ldcev | ].
      eapply wp_set; [ldcev | ].
      apply wp_if_skip; [ldcev | ].
      eapply wp_set; [ldcev | ].
      eapply wp_set; [ldcev | ].
      eapply wp_ret; [ldcev | ].
      cbn [kont_inl]. apply wp_mono with (N := N); [lia | ].
      apply Hk; [frame_tac | ].
      split; [ | reflexivity].
      unfold at_off. upd_red. rewrite H4. repeat split; lia.
  Qed.

  (* ---- the contract of a switch: run with the iterator at a genuine element e, from an environment that the abstract state a
     describes, it appends the events of [step a e], leaves the iterator object alone, and either goes on behind the switch in an
     environment described by the new state or makes the routine return *)
  Section Generic.
    Variable sw : cstmt.
    Variable A : Type.
    Variable R : A -> env -> Prop.
    Variable step : A -> elem -> sres A.
    Variable K : nat.

    Definition sw_spec : Prop :=
      forall a rho tr e N r Q,
        genuine buf e -> at_off rho (e_off e) (e_len e) -> R a rho ->
        (forall rho', at_off rho' (e_off e) (e_len e) -> R (s_st (step a e)) rho' ->
           match s_ret (step a e) with
           | None => wp N m rho' (tr ++ s_ev (step a e)) r Q
           | Some v => Q (Returned (Some v) rho' (tr ++ s_ev (step a e)))
           end) ->
        wp (K + N) m rho tr (sw :: r) Q.

    Hypothesis sw_ok : sw_spec.
    (* the abstract state does not look at the lvalues the iterator assigns *)
    Hypothesis R_frame : forall a rho rho', it_frame rho rho' -> R a rho -> R a rho'.

    (* the loop, entered (or re-entered: pre = true, the loop variable holding the number of the element) with the iterator at the
       first element of a chain e :: els: one pass per element, in order, until one returns or the chain ends *)
    Lemma walk_wp N r Q : forall els e a rho tr pre,
      is_chain buf (e_off e) (e :: els) ->
      at_off rho (e_off e) (e_len e) -> R a rho ->
      (pre = true -> 0 <= rho RET < 256) ->
      (forall rho', R (s_st (run step a (e :: els))) rho' ->
         match s_ret (run step a (e :: els)) with
         | None => wp N m rho' (tr ++ s_ev (run step a (e :: els))) r Q
         | Some v => Q (Returned (Some v) rho' (tr ++ s_ev (run step a (e :: els))))
         end) ->
      wp (S (K + 20 + List.length els + N)) m rho tr (the_loop sw pre :: r) Q.
    Proof.
      induction els as [ | e' els' IH]; intros e a rho tr pre Hch Hat HR Hpre Hk.
      - (* the last element *)
        cbn [is_chain] in Hch. destruct Hch as (_ & Ge & Hstop).
        destruct (genuine_bounds e Ge) as (B0 & B1 & Bn & Bl & _ & _).
        unfold the_loop. apply wp_loop_pass.
        { intros ->. specialize (Hpre eq_refl). exists 1. split; [ | discriminate].
          unfold loop_cond. ceval_unfold. fold RET. wrap_ids. decide_bools. reflexivity. }
        apply wp_mono with (N := (K + 15)%nat); [lia | ].
        apply (sw_ok a rho tr e); [exact Ge | exact Hat | exact HR | ].
        intros rho1 Hat1 HR1. rewrite run_cons in Hk.
        destruct (s_ret (step a e)) as [v | ] eqn:Er.
        + rewrite Er in Hk. apply Hk. exact HR1.
        + cbn [run s_st s_ev s_ret] in Hk. rewrite app_nil_r in Hk.
          apply (next_wp rho1 _ (e_off e) (e_len e) []); [lia | lia | lia | exact Hat1 | exact Hstop | ].
          intros rho2 Hfr HR2. apply wp_nil.
          apply wp_mono with (N := 1%nat); [lia | ]. apply wp_nil. cbn [kont].
          apply wp_mono with (N := S N); [lia | ].
          apply wp_loop_exit.
          { unfold loop_cond. ceval_unfold. fold RET. rewrite HR2. wrap_ids. decide_bools. reflexivity. }
          apply Hk. apply (R_frame _ rho1); assumption.
      - cbn [is_chain] in Hch. destruct Hch as (_ & Ge & Hch).
        destruct (genuine_bounds e Ge) as (B0 & B1 & Bn & Bl & _ & _).
        unfold the_loop. apply wp_loop_pass.
        { intros ->. specialize (Hpre eq_refl). exists 1. split; [ | discriminate].
          unfold loop_cond. ceval_unfold. fold RET. wrap_ids. decide_bools. reflexivity. }
        apply wp_mono with (N := (K + 15)%nat); [lia | ].
        apply (sw_ok a rho tr e); [exact Ge | exact Hat | exact HR | ].
        intros rho1 Hat1 HR1. rewrite run_cons in Hk.
        destruct (s_ret (step a e)) as [v | ] eqn:Er.
        + rewrite Er in Hk. apply Hk. exact HR1.
        + cbn [s_st s_ev s_ret] in Hk.
          apply (next_wp rho1 _ (e_off e) (e_len e) (e' :: els')); [lia | lia | lia | exact Hat1 | exact Hch | ].
          intros rho2 Hfr (Hat2 & HR2). apply wp_nil.
          apply wp_mono with (N := 1%nat); [lia | ]. apply wp_nil. cbn [kont].
          apply wp_mono with (N := S (K + 20 + List.length els' + N)); [cbn [List.length]; lia | ].
          assert (Ge' : genuine buf e') by (cbn [is_chain] in Hch; tauto).
          assert (Eo' : e_off e' = e_off e + 2 + e_len e) by (cbn [is_chain] in Hch; tauto).
          destruct (genuine_bounds e' Ge') as (_ & _ & Bn' & _).
          apply (IH e' (s_st (step a e)) rho2 _ true).
          * rewrite Eo'. exact Hch.
          * exact Hat2.
          * apply (R_frame _ rho1); assumption.
          * intros _. rewrite HR2. exact Bn'.
          * intros rho3 HR3. specialize (Hk rho3 HR3). rewrite <- app_assoc. exact Hk.
    Qed.
  End Generic.

  (* ---------------------------------------------------------------- 4. libwifi_sta_tag_parser *)
  Definition sta_sw : cstmt :=
    SSwitch "switch#0" (CCast (mkty true 32) (CLoad (mkty false 8) (CBin OAdd s64 (CVar (mkty false 64) "it->tag_header") (CLit s64 0)))) [([0], [(SCall "call:libwifi_handle_ssid_tag#0" "libwifi_handle_ssid_tag" [(CVar (mkty false 64) "sta"); (CLit (mkty true 32) 1); (CVar (mkty false 64) "it->tag_data"); (CCast (mkty true 32) (CLoad (mkty false 8) (CBin OAdd s64 (CVar (mkty false 64) "it->tag_header") (CLit s64 1))))]); SBreak]); ([3], [(SIf "if#0" (CBin OGe (mkty true 32) (CCast (mkty true 32) (CLoad (mkty false 8) (CBin OAdd s64 (CVar (mkty false 64) "it->tag_header") (CLit s64 1)))) (CLit (mkty true 32) 1)) [(SCall "call:memcpy#0" "memcpy" [(CVar u64 "&sta->channel"); (CVar (mkty false 64) "it->tag_data"); (CCast (mkty false 64) (CLit (mkty true 32) 1))]); (SSet "load:sta->channel#0" "sta->channel" (CLoad (mkty false 8) (CVar (mkty false 64) "it->tag_data")))] []); SBreak])] [].

  (* the events of one element: who = the object handed to the SSID handler, kind = LIBWIFI_BSS (0) / LIBWIFI_STA (1) *)
  Definition ssid_event (who kind : Z) (e : elem) : event :=
    ("libwifi_handle_ssid_tag", [who; kind; p + e_off e + 2; e_len e]).
  Definition chan_event (dst : Z) (e : elem) : event := ("memcpy", [dst; p + e_off e + 2; 1]).
  (* the channel field behind an element: the first body octet of a DS element (for the BSS parser, ht = true, also of an HT
     operation element) that has one *)
  Definition chan_of (ht : bool) (a : Z) (e : elem) : Z :=
    if ((e_num e =? 3) || (ht && (e_num e =? 61))) && (1 <=? e_len e) then znth buf (e_off e + 2) else a.

  Lemma genuine_body0 e : genuine buf e -> 1 <= e_len e ->
    0 <= znth buf (e_off e + 2) < 256 /\
    load_le m (p + e_off e + 2) (Z.to_nat (8 / 8)) = Some (znth buf (e_off e + 2)).
  Proof.
    intros G HL. destruct (genuine_bounds e G) as (B0 & B1 & _).
    split; [apply wfbytes_znth; [exact Hwf | lia] | ].
    unfold m. rewrite load_u8_at by lia. do 2 f_equal. lia.
  Qed.

  Section Sta.
    Variables (sta_raw cha_raw : Z).     (* what the environment holds for  sta  and  &sta->channel *)
    Definition sta_R (a : Z) (rho : env) : Prop :=
      rho "sta->channel" = a /\ rho "sta" = sta_raw /\ rho "&sta->channel" = cha_raw.
    Definition sta_events (e : elem) : list event :=
      if e_num e =? 0 then [ssid_event (wrap u64 sta_raw) 1 e]
      else if (e_num e =? 3) && (1 <=? e_len e) then [chan_event (wrap u64 cha_raw) e] else [].
    Definition sta_step (a : Z) (e : elem) : sres Z := mk_sres (chan_of false a e) (sta_events e) None.

    Lemma sta_R_frame a rho rho' : it_frame rho rho' -> sta_R a rho -> sta_R a rho'.
    Proof.
      intros Hfr (R1 & R2 & R3). unfold sta_R. rewrite !Hfr by reflexivity. repeat split; assumption.
    Qed.

    Lemma sta_sw_ok : sw_spec sta_sw Z sta_R sta_step 10.
    Proof.
      intros a rho tr e N r Q G (H1 & H2 & H3 & H4) (Rc & Rs & Ra) Hk.
      destruct (genuine_bounds e G) as (B0 & B1 & Bn & Bl & Hld0 & Hld1).
      pose proof (zlen_nonneg buf) as Hlen.
      unfold sta_sw. change (10 + N)%nat with (S (9 + N)).
      eapply wp_switch with (v := e_num e); [ldcev | ].
      cbn [pick_case existsb].
      revert Hk. unfold sta_step, sta_events, chan_of, at_off, sta_R. cbn [s_st s_ev s_ret andb orb].
      destruct (Z.eqb_spec (e_num e) 0) as [E0 | E0]; destruct (Z.eqb_spec (e_num e) 3) as [E3 | E3]; try lia;
        cbn [andb orb]; intros Hk.
      - (* SSID *)
        eapply wp_call; [ldcev | ]. apply wp_break. cbn [kont_sw].
        apply wp_mono with (N := N); [lia | ]. apply Hk; repeat split; assumption.
      - (* DS parameter *)
        revert Hk. destruct (Z.leb_spec 1 (e_len e)) as [HL | HL]; intros Hk.
        + destruct (genuine_body0 e G HL) as (Bb & Hld2).
          eapply wp_if_true with (v := 1); [ldcev | discriminate | ].
          eapply wp_call; [ldcev | ].
          eapply wp_set; [ldcev | ].
          apply wp_nil. cbn [kont]. apply wp_break. cbn [kont_sw].
          apply wp_mono with (N := N); [lia | ]. apply Hk; upd_red; repeat split; assumption.
        + apply wp_if_skip; [ldcev | ]. apply wp_break. cbn [kont_sw].
          apply wp_mono with (N := N); [lia | ]. rewrite app_nil_r in Hk. apply Hk; repeat split; assumption.
      - (* no case *)
        apply wp_nil. cbn [kont_sw].
        apply wp_mono with (N := N); [lia | ]. rewrite app_nil_r in Hk. apply Hk; repeat split; assumption.
    Qed.

    Lemma sta_run : forall els a,
      run sta_step a els = mk_sres (fold_left (chan_of false) els a) (flat_map sta_events els) None.
    Proof.
      induction els as [ | e r IH]; intros a; [reflexivity | ].
      rewrite run_cons. cbn [sta_step s_ret s_st s_ev]. rewrite IH. reflexivity.
    Qed.

    Lemma sta_parser_wp rho e els :
      elements buf = e :: els -> e_off e = 0 ->
      at_off rho 0 (e_len e) -> rho "sta" = sta_raw -> rho "&sta->channel" = cha_raw ->
      wp (40 + List.length (elements buf)) m rho [] body_libwifi_sta_tag_parser
         (fun o => exists rho',
            o = Returned (Some 0) rho' (flat_map sta_events (elements buf)) /\
            rho' "sta->channel" = fold_left (chan_of false) (elements buf) (rho "sta->channel")).
    Proof.
      intros Eel Eo Hat Hs Hc.
      pose proof (elements_is_chain buf Hwf) as Hch. rewrite Eel in *.
      change body_libwifi_sta_tag_parser with [the_loop sta_sw false; SRet "ret#0" (Some (CLit (mkty true 32) 0))].
      apply wp_mono with (N := S (10 + 20 + List.length els + 2)); [cbn [List.length]; lia | ].
      apply (walk_wp sta_sw Z sta_R sta_step 10 sta_sw_ok sta_R_frame 2 _ _ els e (rho "sta->channel") rho [] false).
      - rewrite Eo. exact Hch.
      - rewrite Eo. exact Hat.
      - repeat split; assumption.
      - discriminate.
      - intros rho' HR. rewrite sta_run in *. cbn [s_st s_ev s_ret] in *.
        eapply wp_ret; [ldcev | ].
        exists rho'. split; [reflexivity | ]. destruct HR as (HR & _). exact HR.
    Qed.
  End Sta.

  (* ---------------------------------------------------------------- 5. libwifi_bss_tag_parser *)
  Definition bss_sw : cstmt :=
    SSwitch "switch#0" (CCast (mkty true 32) (CLoad (mkty false 8) (CBin OAdd s64 (CVar (mkty false 64) "it->tag_header") (CLit s64 0)))) [([0], [(SCall "call:libwifi_handle_ssid_tag#0" "libwifi_handle_ssid_tag" [(CVar (mkty false 64) "bss"); (CLit (mkty true 32) 0); (CVar (mkty false 64) "it->tag_data"); (CCast (mkty true 32) (CLoad (mkty false 8) (CBin OAdd s64 (CVar (mkty false 64) "it->tag_header") (CLit s64 1))))]); SBreak]); ([3; 61], [(SIf "if#0" (CBin OGe (mkty true 32) (CCast (mkty true 32) (CLoad (mkty false 8) (CBin OAdd s64 (CVar (mkty false 64) "it->tag_header") (CLit s64 1)))) (CLit (mkty true 32) 1)) [(SCall "call:memcpy#0" "memcpy" [(CVar u64 "&bss->channel"); (CVar (mkty false 64) "it->tag_data"); (CCast (mkty false 64) (CLit (mkty true 32) 1))]); (SSet "load:bss->channel#0" "bss->channel" (CLoad (mkty false 8) (CVar (mkty false 64) "it->tag_data")))] []); SBreak]); ([48], [(SCall "call:libwifi_bss_handle_rsn_tag#0" "libwifi_bss_handle_rsn_tag" [(CVar (mkty false 64) "bss"); (CVar (mkty false 64) "it->tag_data"); (CCast (mkty true 32) (CLoad (mkty false 8) (CBin OAdd s64 (CVar (mkty false 64) "it->tag_header") (CLit s64 1))))]); (SIf "if#1" (CBin ONe (mkty true 32) (CCall (mkty true 32) "libwifi_bss_handle_rsn_tag" [(CVar (mkty false 64) "bss"); (CVar (mkty false 64) "it->tag_data"); (CCast (mkty true 32) (CLoad (mkty false 8) (CBin OAdd s64 (CVar (mkty false 64) "it->tag_header") (CLit s64 1))))]) (CLit (mkty true 32) 0)) [(SRet "ret#0" (Some (CUn UNeg (mkty true 32) (CLit (mkty true 32) 22))))] []); SBreak]); ([221], [(SSet "set:vendor_header#0" "vendor_header" (CCast (mkty false 64) (CVar (mkty false 64) "it->tag_data"))); (SCall "call:memcmp#0" "memcmp" [(CCast u64 (CBin OAdd s64 (CVar (mkty false 64) "vendor_header") (CLit s64 0))); (CVar u64 "str:\x00P\xf2"); (CCast (mkty false 64) (CLit (mkty true 32) 3))]); (SIf "if#2" (CBin OLAnd (mkty true 32) (CBin OGe (mkty true 32) (CCast (mkty false 64) (CLoad (mkty false 8) (CBin OAdd s64 (CVar (mkty false 64) "it->tag_header") (CLit s64 1)))) (CLit u64 4)) (CBin OEq (mkty true 32) (CCall (mkty true 32) "memcmp" [(CCast u64 (CBin OAdd s64 (CVar (mkty false 64) "vendor_header") (CLit s64 0))); (CVar u64 "str:\x00P\xf2"); (CCast (mkty false 64) (CLit (mkty true 32) 3))]) (CLit (mkty true 32) 0))) [(SCall "call:libwifi_bss_handle_msft_tag#0" "libwifi_bss_handle_msft_tag" [(CVar (mkty false 64) "bss"); (CVar (mkty false 64) "it->tag_data"); (CCast (mkty true 32) (CLoad (mkty false 8) (CBin OAdd s64 (CVar (mkty false 64) "it->tag_header") (CLit s64 1))))]); (SIf "if#3" (CBin ONe (mkty true 32) (CCall (mkty true 32) "libwifi_bss_handle_msft_tag" [(CVar (mkty false 64) "bss"); (CVar (mkty false 64) "it->tag_data"); (CCast (mkty true 32) (CLoad (mkty false 8) (CBin OAdd s64 (CVar (mkty false 64) "it->tag_header") (CLit s64 1))))]) (CLit (mkty true 32) 0)) [(SRet "ret#1" (Some (CUn UNeg (mkty true 32) (CLit (mkty true 32) 22))))] [])] []); SBreak]); ([255], [(SSet "set:extension_header#0" "extension_header" (CCast (mkty false 64) (CVar (mkty false 64) "it->tag_data"))); (SIf "if#4" (CBin OLt (mkty true 32) (CCast (mkty false 64) (CLoad (mkty false 8) (CBin OAdd s64 (CVar (mkty false 64) "it->tag_header") (CLit s64 1)))) (CLit u64 1)) [SBreak] []); (SSwitch "switch#1" (CCast (mkty true 32) (CLoad (mkty false 8) (CBin OAdd s64 (CVar (mkty false 64) "extension_header") (CLit s64 0)))) [] [SBreak]); SBreak])] [].

  Section Bss.
    (* what the environment holds for  bss,  &bss->channel,  the string literal "\x00P\xf2",  and the answers of the RSN handler,
       the MSFT handler and memcmp (one answer per callee: every call of the same callee in a run gets the same answer) *)
    Variables (bss_raw cha_raw oui_raw r_rsn r_msft r_cmp : Z).
    Definition bss_R (a : Z) (rho : env) : Prop :=
      rho "bss->channel" = a /\ rho "bss" = bss_raw /\ rho "&bss->channel" = cha_raw /\ rho "str:\x00P\xf2" = oui_raw /\
      rho "ret:libwifi_bss_handle_rsn_tag" = r_rsn /\ rho "ret:libwifi_bss_handle_msft_tag" = r_msft /\
      rho "ret:memcmp" = r_cmp.
    Definition rsn_event (e : elem) : event :=
      ("libwifi_bss_handle_rsn_tag", [wrap u64 bss_raw; p + e_off e + 2; e_len e]).
    Definition msft_event (e : elem) : event :=
      ("libwifi_bss_handle_msft_tag", [wrap u64 bss_raw; p + e_off e + 2; e_len e]).
    (* memcmp(vendor_header->oui, "\x00P\xf2", 3): the translator records the call in front of the condition
       tag_len >= 4 && memcmp(...) == 0  it occurs in, whatever tag_len is *)
    Definition cmp_event (e : elem) : event := ("memcmp", [p + e_off e + 2 + 0; wrap u64 oui_raw; 3]).
    Definition bss_events (e : elem) : list event :=
      if e_num e =? 0 then [ssid_event (wrap u64 bss_raw) 0 e]
      else if ((e_num e =? 3) || (e_num e =? 61)) && (1 <=? e_len e) then [chan_event (wrap u64 cha_raw) e]
      else if e_num e =? 48 then [rsn_event e]
      else if e_num e =? 221 then
        cmp_event e :: (if (4 <=? e_len e) && (wrap (mkty true 32) r_cmp =? 0) then [msft_event e] else [])
      else [].
    (* the elements at which the routine gives up *)
    Definition bss_fails (e : elem) : bool :=
      ((e_num e =? 48) && negb (wrap (mkty true 32) r_rsn =? 0)) ||
      ((e_num e =? 221) && ((4 <=? e_len e) && (wrap (mkty true 32) r_cmp =? 0)) && negb (wrap (mkty true 32) r_msft =? 0)).
    Definition bss_step (a : Z) (e : elem) : sres Z :=
      mk_sres (chan_of true a e) (bss_events e) (if bss_fails e then Some (-22) else None).

    Lemma bss_R_frame a rho rho' : it_frame rho rho' -> bss_R a rho -> bss_R a rho'.
    Proof.
      intros Hfr (R1 & R2 & R3 & R4 & R5 & R6 & R7). unfold bss_R. rewrite !Hfr by reflexivity. repeat split; assumption.
    Qed.

    Lemma bss_sw_ok : sw_spec bss_sw Z bss_R bss_step 14.
    Proof.
      intros a rho tr e N r Q G (H1 & H2 & H3 & H4) (Rc & Rb & Ra & Ro & Rr & Rm & Rp) Hk.
      destruct (genuine_bounds e G) as (B0 & B1 & Bn & Bl & Hld0 & Hld1).
      pose proof (zlen_nonneg buf) as Hlen.
      unfold bss_sw. change (14 + N)%nat with (S (13 + N)).
      eapply wp_switch with (v := e_num e); [ldcev | ].
      cbn [pick_case existsb].
      revert Hk. unfold bss_step, bss_events, bss_fails, chan_of, at_off, bss_R. cbn [s_st s_ev s_ret andb orb].
      destruct (Z.eqb_spec (e_num e) 0) as [E0 | E0]; destruct (Z.eqb_spec (e_num e) 3) as [E3 | E3]; try (exfalso; lia);
        destruct (Z.eqb_spec (e_num e) 61) as [E61 | E61]; try (exfalso; lia);
        destruct (Z.eqb_spec (e_num e) 48) as [E48 | E48]; try (exfalso; lia);
        destruct (Z.eqb_spec (e_num e) 221) as [E221 | E221]; try (exfalso; lia);
        destruct (Z.eqb_spec (e_num e) 255) as [E255 | E255]; try (exfalso; lia);
        cbn [andb orb]; intros Hk.
      - (* SSID *)
        eapply wp_call; [ldcev | ]. apply wp_break. cbn [kont_sw].
        apply wp_mono with (N := N); [lia | ]. apply Hk; repeat split; assumption.
      - (* DS parameter *)
        revert Hk. destruct (Z.leb_spec 1 (e_len e)) as [HL | HL]; intros Hk.
        + destruct (genuine_body0 e G HL) as (Bb & Hld2).
          eapply wp_if_true with (v := 1); [ldcev | discriminate | ].
          eapply wp_call; [ldcev | ].
          eapply wp_set; [ldcev | ].
          apply wp_nil. cbn [kont]. apply wp_break. cbn [kont_sw].
          apply wp_mono with (N := N); [lia | ]. apply Hk; upd_red; repeat split; assumption.
        + apply wp_if_skip; [ldcev | ]. apply wp_break. cbn [kont_sw].
          apply wp_mono with (N := N); [lia | ]. rewrite app_nil_r in Hk. apply Hk; repeat split; assumption.
      - (* HT operation *)
        revert Hk. destruct (Z.leb_spec 1 (e_len e)) as [HL | HL]; intros Hk.
        + destruct (genuine_body0 e G HL) as (Bb & Hld2).
          eapply wp_if_true with (v := 1); [ldcev | discriminate | ].
          eapply wp_call; [ldcev | ].
          eapply wp_set; [ldcev | ].
          apply wp_nil. cbn [kont]. apply wp_break. cbn [kont_sw].
          apply wp_mono with (N := N); [lia | ]. apply Hk; upd_red; repeat split; assumption.
        + apply wp_if_skip; [ldcev | ]. apply wp_break. cbn [kont_sw].
          apply wp_mono with (N := N); [lia | ]. rewrite app_nil_r in Hk. apply Hk; repeat split; assumption.
      - (* RSN *)
        revert Hk. destruct (Z.eqb_spec (wrap (mkty true 32) r_rsn) 0) as [Z0 | Z0]; cbn [negb andb orb]; intros Hk.
        + eapply wp_call; [ldcev | ]. apply wp_if_skip; [ldcev | ]. apply wp_break. cbn [kont_sw].
          apply wp_mono with (N := N); [lia | ]. apply Hk; repeat split; assumption.
        + eapply wp_call; [ldcev | ]. eapply wp_if_ret; [ldcev | discriminate | ldcev | ]. cbn [kont_sw].
          apply Hk; repeat split; assumption.
      - (* vendor specific *)
        eapply wp_set; [ldcev | ].
        eapply wp_call; [ldcev | ].
        revert Hk. destruct (Z.leb_spec 4 (e_len e)) as [HL | HL];
          destruct (Z.eqb_spec (wrap (mkty true 32) r_cmp) 0) as [C0 | C0]; cbn [negb andb orb]; intros Hk.
        + eapply wp_if_true with (v := 1); [ldcev | discriminate | ].
          eapply wp_call; [ldcev | ].
          rewrite <- app_assoc. cbn [app].
          revert Hk. destruct (Z.eqb_spec (wrap (mkty true 32) r_msft) 0) as [M0 | M0]; cbn [negb andb orb]; intros Hk.
          * apply wp_if_skip; [ldcev | ]. apply wp_nil. cbn [kont]. apply wp_break. cbn [kont_sw].
            apply wp_mono with (N := N); [lia | ]. apply Hk; upd_red; repeat split; assumption.
          * eapply wp_if_ret; [ldcev | discriminate | ldcev | ]. cbn [kont kont_sw].
            apply Hk; upd_red; repeat split; assumption.
        + apply wp_if_skip; [ldcev | ]. apply wp_break. cbn [kont_sw].
          apply wp_mono with (N := N); [lia | ]. apply Hk; upd_red; repeat split; assumption.
        + apply wp_if_skip; [ldcev | ]. apply wp_break. cbn [kont_sw].
          apply wp_mono with (N := N); [lia | ]. apply Hk; upd_red; repeat split; assumption.
        + apply wp_if_skip; [ldcev | ]. apply wp_break. cbn [kont_sw].
          apply wp_mono with (N := N); [lia | ]. apply Hk; upd_red; repeat split; assumption.
      - (* element extension: the extension number is looked at when the element has a body; no extension has a case *)
        rewrite app_nil_r in Hk.
        eapply wp_set; [ldcev | ].
        destruct (Z_lt_le_dec (e_len e) 1) as [HL | HL].
        + eapply wp_if_true with (v := 1); [ldcev | discriminate | ].
          apply wp_break. cbn [kont kont_sw].
          apply wp_mono with (N := N); [lia | ]. apply Hk; upd_red; repeat split; assumption.
        + destruct (genuine_body0 e G HL) as (Bb & Hld2).
          replace (p + e_off e + 2) with (p + e_off e + 2 + 0) in Hld2 by lia.
          apply wp_if_skip; [ldcev | ].
          eapply wp_switch; [ldcev | ]. cbn [pick_case].
          apply wp_break. cbn [kont_sw]. apply wp_break. cbn [kont_sw].
          apply wp_mono with (N := N); [lia | ]. apply Hk; upd_red; repeat split; assumption.
      - (* no case *)
        apply wp_nil. cbn [kont_sw].
        apply wp_mono with (N := N); [lia | ]. rewrite app_nil_r in Hk. apply Hk; repeat split; assumption.
    Qed.

    (* the passes over a list no element of which makes the routine give up *)
    Lemma bss_run_ok : forall els a, forallb (fun e => negb (bss_fails e)) els = true ->
      run bss_step a els = mk_sres (fold_left (chan_of true) els a) (flat_map bss_events els) None.
    Proof.
      induction els as [ | e r IH]; intros a Hok; [reflexivity | ].
      cbn [forallb] in Hok. apply andb_true_iff in Hok. destruct Hok as (He & Hr).
      rewrite run_cons. cbn [bss_step s_ret s_st s_ev].
      destruct (bss_fails e); [discriminate He | ]. rewrite (IH _ Hr). reflexivity.
    Qed.

    Lemma bss_fails_chan e a : bss_fails e = true -> chan_of true a e = a.
    Proof.
      unfold bss_fails, chan_of. intros H.
      destruct (Z.eqb_spec (e_num e) 48); destruct (Z.eqb_spec (e_num e) 221); destruct (Z.eqb_spec (e_num e) 3);
        destruct (Z.eqb_spec (e_num e) 61); try lia; cbn [andb orb] in *; try reflexivity; discriminate H.
    Qed.

    (* ... and over a list whose first element that makes it give up is e: the elements behind e are not looked at *)
    Lemma bss_run_fail : forall pre e post a, forallb (fun e => negb (bss_fails e)) pre = true -> bss_fails e = true ->
      run bss_step a (pre ++ e :: post) =
        mk_sres (fold_left (chan_of true) pre a) (flat_map bss_events pre ++ bss_events e) (Some (-22)).
    Proof.
      induction pre as [ | x pre IH]; intros e post a Hok Hf.
      - cbn [app]. rewrite run_cons. unfold bss_step. cbn [s_ret s_st s_ev]. rewrite Hf.
        rewrite (bss_fails_chan e a Hf). reflexivity.
      - cbn [forallb] in Hok. apply andb_true_iff in Hok. destruct Hok as (He & Hr).
        assert (Hx : bss_fails x = false) by (destruct (bss_fails x); [discriminate He | reflexivity]).
        cbn [app]. rewrite run_cons.
        change (s_ret (bss_step a x)) with (if bss_fails x then Some (-22) else None). rewrite Hx.
        change (s_st (bss_step a x)) with (chan_of true a x). change (s_ev (bss_step a x)) with (bss_events x).
        rewrite (IH e post _ Hr Hf).
        cbn [s_st s_ev s_ret flat_map fold_left]. rewrite app_assoc. reflexivity.
    Qed.

    Lemma bss_parser_wp rho e els :
      elements buf = e :: els -> e_off e = 0 ->
      at_off rho 0 (e_len e) -> bss_R (rho "bss->channel") rho ->
      wp (44 + List.length (elements buf)) m rho [] body_libwifi_bss_tag_parser
         (fun o => exists rho',
            o = Returned (Some (match s_ret (run bss_step (rho "bss->channel") (elements buf)) with Some v => v | None => 0 end))
                         rho' (s_ev (run bss_step (rho "bss->channel") (elements buf))) /\
            rho' "bss->channel" = s_st (run bss_step (rho "bss->channel") (elements buf))).
    Proof.
      intros Eel Eo (H1 & H2 & H3 & H4) (Rc & Rb & Ra & Ro & Rr & Rm & Rp).
      pose proof (elements_is_chain buf Hwf) as Hch. rewrite Eel in *.
      change body_libwifi_bss_tag_parser with
        [SSet "decl:vendor_header#0" "vendor_header" (CCast (mkty false 64) (CLit u64 0));
         SSet "decl:extension_header#0" "extension_header" (CCast (mkty false 64) (CLit u64 0));
         the_loop bss_sw false; SRet "ret#2" (Some (CLit (mkty true 32) 0))].
      change (44 + List.length (e :: els))%nat with (S (S (42 + List.length (e :: els)))).
      eapply wp_set; [ldcev | ]. eapply wp_set; [ldcev | ].
      apply wp_mono with (N := S (14 + 20 + List.length els + 2)); [cbn [List.length]; lia | ].
      apply (walk_wp bss_sw Z bss_R bss_step 14 bss_sw_ok bss_R_frame 2 _ _ els e (rho "bss->channel") _ [] false).
      - rewrite Eo. exact Hch.
      - rewrite Eo. unfold at_off. upd_red. repeat split; assumption.
      - unfold bss_R. upd_red. repeat split; assumption.
      - discriminate.
      - intros rho' HR. cbn [app].
        destruct (s_ret (run bss_step (rho "bss->channel") (e :: els))) as [v | ].
        + exists rho'. split; [reflexivity | ]. destruct HR as (HR & _). exact HR.
        + eapply wp_ret; [ldcev | ].
          exists rho'. split; [reflexivity | ]. destruct HR as (HR & _). exact HR.
    Qed.
  End Bss.
End Walk.

(* ---------------------------------------------------------------- 6. the theorems
   The iterator object is in the state libwifi_tag_iterator_init leaves it in for the buffer (Proofs/CodeIter.v:
   code_tag_iterator_init_refines), which it only does when the first element fits. *)
Definition first_fits (buf : list byte) : Prop := 2 <= zlen buf /\ znth buf 1 <= zlen buf - 2.
Definition it_initial (rho : env) (p : Z) (buf : list byte) : Prop :=
  rho "it->tag_header" = p /\ rho "it->tag_data" = p + 2 /\
  rho "it->_next_tag_header" = p + 2 + znth buf 1 /\ rho "it->_frame_end" = p + zlen buf - 1.

Lemma it_initial_at rho p buf e r :
  it_initial rho p buf -> elements buf = e :: r -> e_off e = 0 -> e_len e = znth buf 1 -> at_off p buf rho 0 (e_len e).
Proof.
  intros (H1 & H2 & H3 & H4) _ _ El. unfold at_off. rewrite El. repeat split; lia.
Qed.

(* 1. libwifi_sta_tag_parser: never stuck, returns 0; one group of events per element of the Spec's chain, in order (an SSID
   element: libwifi_handle_ssid_tag(sta, LIBWIFI_STA = 1, body, length); a DS parameter element with a body: the copy of one octet
   memcpy(&sta->channel, body, 1); nothing for any other element, nothing for a DS element without body); sta->channel ends as the
   first body octet of the last DS element that has one. *)
Theorem code_sta_tag_parser_walk buf p rho F :
  wfbytes buf -> 0 < p -> p + zlen buf < 2 ^ 62 ->
  first_fits buf -> it_initial rho p buf ->
  (40 + List.length (elements buf) <= F)%nat ->
  exists rho',
    exec F (mem_at p buf) rho [] body_libwifi_sta_tag_parser =
      Returned (Some 0) rho' (flat_map (sta_events p (rho "sta") (rho "&sta->channel")) (elements buf)) /\
    rho' "sta->channel" = fold_left (chan_of buf false) (elements buf) (rho "sta->channel").
Proof.
  intros Hwf Hp Hend (Hf2 & Hf1) Hinit HF. change (2 ^ 62) with 4611686018427387904 in Hend.
  destruct (elements_first buf Hf2 Hf1) as (e & r & Eel & Eo & El).
  apply (wp_exec (40 + List.length (elements buf)) F); [exact HF | ].
  apply (sta_parser_wp p buf Hwf Hp Hend (rho "sta") (rho "&sta->channel") rho e r Eel Eo);
    [eapply it_initial_at; eassumption | reflexivity | reflexivity].
Qed.

(* 2. libwifi_bss_tag_parser, whatever the three callees answer: the outcome is that of the passes [run (bss_step ...)] over the
   chain: the value returned is 0, or -22 from the first element at which a handler answers non-zero *)
Theorem code_bss_tag_parser_run buf p rho F :
  wfbytes buf -> 0 < p -> p + zlen buf < 2 ^ 62 ->
  first_fits buf -> it_initial rho p buf ->
  (44 + List.length (elements buf) <= F)%nat ->
  let step := bss_step p buf (rho "bss") (rho "&bss->channel") (rho "str:\x00P\xf2") (rho "ret:libwifi_bss_handle_rsn_tag")
                       (rho "ret:libwifi_bss_handle_msft_tag") (rho "ret:memcmp") in
  let s := run step (rho "bss->channel") (elements buf) in
  exists rho',
    exec F (mem_at p buf) rho [] body_libwifi_bss_tag_parser =
      Returned (Some (match s_ret s with Some v => v | None => 0 end)) rho' (s_ev s) /\
    rho' "bss->channel" = s_st s.
Proof.
  intros Hwf Hp Hend (Hf2 & Hf1) Hinit HF. change (2 ^ 62) with 4611686018427387904 in Hend.
  destruct (elements_first buf Hf2 Hf1) as (e & r & Eel & Eo & El).
  cbv zeta.
  apply (wp_exec (44 + List.length (elements buf)) F); [exact HF | ].
  apply (bss_parser_wp p buf Hwf Hp Hend _ _ _ _ _ _ rho e r Eel Eo); [eapply it_initial_at; eassumption | ].
  unfold bss_R. repeat split; reflexivity.
Qed.

(* the handlers answer 0 (memcmp may answer anything: c): never stuck, returns 0; per element: SSID ->
   libwifi_handle_ssid_tag(bss, LIBWIFI_BSS = 0, body, length); DS parameter / HT operation with a body -> memcpy(&bss->channel,
   body, 1); RSN -> libwifi_bss_handle_rsn_tag(bss, body, length); vendor specific -> memcmp(body + 0, "\x00P\xf2", 3) and, when
   length >= 4 and memcmp answered 0, libwifi_bss_handle_msft_tag(bss, body, length); element extension and every other number ->
   nothing *)
Theorem code_bss_tag_parser_walk buf p rho F :
  wfbytes buf -> 0 < p -> p + zlen buf < 2 ^ 62 ->
  first_fits buf -> it_initial rho p buf ->
  wrap (mkty true 32) (rho "ret:libwifi_bss_handle_rsn_tag") = 0 ->
  wrap (mkty true 32) (rho "ret:libwifi_bss_handle_msft_tag") = 0 ->
  (44 + List.length (elements buf) <= F)%nat ->
  exists rho',
    exec F (mem_at p buf) rho [] body_libwifi_bss_tag_parser =
      Returned (Some 0) rho'
        (flat_map (bss_events p (rho "bss") (rho "&bss->channel") (rho "str:\x00P\xf2") (rho "ret:memcmp")) (elements buf)) /\
    rho' "bss->channel" = fold_left (chan_of buf true) (elements buf) (rho "bss->channel").
Proof.
  intros Hwf Hp Hend Hff Hinit Hr Hm HF.
  destruct (code_bss_tag_parser_run buf p rho F Hwf Hp Hend Hff Hinit HF) as (rho' & He & Hc).
  cbv zeta in He, Hc. rewrite bss_run_ok in He, Hc.
  - exists rho'. split; [exact He | exact Hc].
  - apply forallb_forall. intros e _. unfold bss_fails. rewrite Hr, Hm. cbn [Z.eqb negb andb].
    rewrite !andb_false_r. reflexivity.
  - apply forallb_forall. intros e _. unfold bss_fails. rewrite Hr, Hm. cbn [Z.eqb negb andb].
    rewrite !andb_false_r. reflexivity.
Qed.

(* a handler answers non-zero: the routine returns -22 at the first element e that reaches that handler; the elements in front of e
   have been handled, e's handler has been called, the elements behind e are not looked at *)
Theorem code_bss_tag_parser_rejects buf p rho F (pre : list elem) (e : elem) (post : list elem) :
  wfbytes buf -> 0 < p -> p + zlen buf < 2 ^ 62 ->
  first_fits buf -> it_initial rho p buf ->
  (44 + List.length (elements buf) <= F)%nat ->
  let fails := bss_fails (rho "ret:libwifi_bss_handle_rsn_tag") (rho "ret:libwifi_bss_handle_msft_tag") (rho "ret:memcmp") in
  let events := bss_events p (rho "bss") (rho "&bss->channel") (rho "str:\x00P\xf2") (rho "ret:memcmp") in
  elements buf = (pre ++ e :: post)%list -> forallb (fun x => negb (fails x)) pre = true -> fails e = true ->
  exists rho',
    exec F (mem_at p buf) rho [] body_libwifi_bss_tag_parser =
      Returned (Some (-22)) rho' (flat_map events pre ++ events e)%list /\
    rho' "bss->channel" = fold_left (chan_of buf true) pre (rho "bss->channel").
Proof.
  intros Hwf Hp Hend Hff Hinit HF fails events Eel Hpre He.
  destruct (code_bss_tag_parser_run buf p rho F Hwf Hp Hend Hff Hinit HF) as (rho' & Hx & Hc).
  cbv zeta in Hx, Hc. rewrite Eel in Hx, Hc. rewrite (bss_run_fail _ _ _ _ _ _ _ _ pre e post _ Hpre He) in Hx, Hc.
  exists rho'. split; [exact Hx | exact Hc].
Qed.

(* the two ways of giving up, spelled out *)
Corollary code_bss_tag_parser_rsn_rejects buf p rho F (pre : list elem) (e : elem) (post : list elem) :
  wfbytes buf -> 0 < p -> p + zlen buf < 2 ^ 62 ->
  first_fits buf -> it_initial rho p buf ->
  (44 + List.length (elements buf) <= F)%nat ->
  wrap (mkty true 32) (rho "ret:libwifi_bss_handle_rsn_tag") <> 0 ->
  wrap (mkty true 32) (rho "ret:libwifi_bss_handle_msft_tag") = 0 ->
  elements buf = (pre ++ e :: post)%list -> Forall (fun x => e_num x <> 48) pre -> e_num e = 48 ->
  let events := bss_events p (rho "bss") (rho "&bss->channel") (rho "str:\x00P\xf2") (rho "ret:memcmp") in
  exists rho',
    exec F (mem_at p buf) rho [] body_libwifi_bss_tag_parser =
      Returned (Some (-22)) rho'
        (flat_map events pre ++ [("libwifi_bss_handle_rsn_tag", [wrap u64 (rho "bss"); p + e_off e + 2; e_len e])])%list /\
    rho' "bss->channel" = fold_left (chan_of buf true) pre (rho "bss->channel").
Proof.
  intros Hwf Hp Hend Hff Hinit HF Hr Hm Eel Hpre He events.
  assert (Hev : events e = [("libwifi_bss_handle_rsn_tag", [wrap u64 (rho "bss"); p + e_off e + 2; e_len e])]).
  { unfold events, bss_events. rewrite He. reflexivity. }
  rewrite <- Hev.
  apply (code_bss_tag_parser_rejects buf p rho F pre e post Hwf Hp Hend Hff Hinit HF Eel).
  - apply forallb_forall. intros x Hx. rewrite Forall_forall in Hpre. specialize (Hpre x Hx).
    unfold bss_fails. rewrite Hm. rewrite (proj2 (Z.eqb_neq _ _) Hpre). cbn [Z.eqb negb andb orb].
    rewrite !andb_false_r. reflexivity.
  - unfold bss_fails. rewrite He. rewrite (proj2 (Z.eqb_neq _ _) Hr). reflexivity.
Qed.

Corollary code_bss_tag_parser_msft_rejects buf p rho F (pre : list elem) (e : elem) (post : list elem) :
  wfbytes buf -> 0 < p -> p + zlen buf < 2 ^ 62 ->
  first_fits buf -> it_initial rho p buf ->
  (44 + List.length (elements buf) <= F)%nat ->
  wrap (mkty true 32) (rho "ret:libwifi_bss_handle_rsn_tag") = 0 ->
  wrap (mkty true 32) (rho "ret:libwifi_bss_handle_msft_tag") <> 0 ->
  wrap (mkty true 32) (rho "ret:memcmp") = 0 ->
  elements buf = (pre ++ e :: post)%list -> Forall (fun x => e_num x = 221 -> e_len x < 4) pre -> e_num e = 221 -> 4 <= e_len e ->
  let events := bss_events p (rho "bss") (rho "&bss->channel") (rho "str:\x00P\xf2") (rho "ret:memcmp") in
  exists rho',
    exec F (mem_at p buf) rho [] body_libwifi_bss_tag_parser =
      Returned (Some (-22)) rho'
        (flat_map events pre ++ [("memcmp", [p + e_off e + 2 + 0; wrap u64 (rho "str:\x00P\xf2"); 3]);
                                 ("libwifi_bss_handle_msft_tag", [wrap u64 (rho "bss"); p + e_off e + 2; e_len e])])%list /\
    rho' "bss->channel" = fold_left (chan_of buf true) pre (rho "bss->channel").
Proof.
  intros Hwf Hp Hend Hff Hinit HF Hr Hm Hc Eel Hpre He HL events.
  assert (Hev : events e = [("memcmp", [p + e_off e + 2 + 0; wrap u64 (rho "str:\x00P\xf2"); 3]);
                            ("libwifi_bss_handle_msft_tag", [wrap u64 (rho "bss"); p + e_off e + 2; e_len e])]).
  { unfold events, bss_events. rewrite He, Hc. rewrite (leb_true 4 (e_len e)) by lia. reflexivity. }
  rewrite <- Hev.
  apply (code_bss_tag_parser_rejects buf p rho F pre e post Hwf Hp Hend Hff Hinit HF Eel).
  - apply forallb_forall. intros x Hx. rewrite Forall_forall in Hpre. specialize (Hpre x Hx).
    unfold bss_fails. rewrite Hr. cbn [Z.eqb negb]. rewrite andb_false_r. cbn [orb].
    destruct (Z.eqb_spec (e_num x) 221) as [E | E]; [ | reflexivity].
    rewrite (leb_false 4 (e_len x)) by (specialize (Hpre E); lia). reflexivity.
  - unfold bss_fails. rewrite He, Hc. rewrite (leb_true 4 (e_len e)) by lia.
    rewrite (proj2 (Z.eqb_neq _ _) Hm). reflexivity.
Qed.

(* ---------------------------------------------------------------- 7. the pointers handed to the callees
   [ev_span]: the pointer into the tag buffer an event hands to its callee, with the length that goes with it. *)
Definition ev_span (ev : event) : option (Z * Z) :=
  match ev with
  | (f, [_; _; ptr; n]) => if String.eqb f "libwifi_handle_ssid_tag" then Some (ptr, n) else None
  | (f, [a; b; n]) =>
      if String.eqb f "memcmp" then Some (a, n)
      else if String.eqb f "memcpy" || String.eqb f "libwifi_bss_handle_rsn_tag" || String.eqb f "libwifi_bss_handle_msft_tag"
           then Some (b, n) else None
  | _ => None
  end.
Definition ev_inside (lo len : Z) (ev : event) : Prop :=
  match ev_span ev with
  | Some (ptr, n) => lo <= ptr <= lo + len /\ 0 <= n /\ ptr + n <= lo + len
  | None => True
  end.

Ltac inside_red :=
  cbv beta iota zeta delta [ev_inside ev_span ssid_event chan_event rsn_event msft_event cmp_event
                            String.eqb Ascii.eqb Bool.eqb orb].

Lemma genuine_len' buf e : wfbytes buf -> genuine buf e -> 0 <= e_len e.
Proof.
  intros Hwf (G0 & G1 & G2 & G3). rewrite G3.
  destruct (Z_lt_le_dec (e_off e + 1) (zlen buf)).
  - apply wfbytes_znth; [exact Hwf | lia].
  - unfold znth. rewrite nth_overflow; [lia | ]. unfold zlen in *. lia.
Qed.

Lemma sta_events_inside buf p s c e : wfbytes buf -> genuine buf e ->
  Forall (ev_inside p (zlen buf)) (sta_events p s c e).
Proof.
  intros Hwf G. pose proof (genuine_len' buf e Hwf G) as HL. destruct G as (G0 & G1 & _).
  unfold sta_events.
  destruct (e_num e =? 0); [constructor; [inside_red; lia | constructor] | ].
  destruct (e_num e =? 3); cbn [andb]; [ | constructor].
  destruct (Z.leb_spec 1 (e_len e)); [constructor; [inside_red; lia | constructor] | constructor].
Qed.

(* 1, continued: every pointer the STA parser hands to a callee points into the buffer, and the length handed with it stays
   inside the buffer *)
Theorem code_sta_tag_parser_inside buf p s c : wfbytes buf ->
  Forall (ev_inside p (zlen buf)) (flat_map (sta_events p s c) (elements buf)).
Proof.
  intros Hwf. destruct (elements_props buf Hwf) as (G & _ & _).
  induction G as [ | e r Ge Gr IH]; [constructor | ].
  cbn [flat_map]. apply Forall_app. split; [apply sta_events_inside; assumption | exact IH].
Qed.

(* 2, continued: the same for the BSS parser, except for the memcmp event of a vendor specific element with fewer than 3 body
   octets.  The C source only calls memcmp when tag_len >= 4 (the call is the right operand of &&); the translator records the call
   in front of the condition, so the translated routine's trace has the event for every vendor specific element
   (see bss_memcmp_event_inside_refuted below) *)
Lemma bss_events_inside buf p b c o rc e : wfbytes buf -> genuine buf e ->
  (e_num e = 221 -> 3 <= e_len e) ->
  Forall (ev_inside p (zlen buf)) (bss_events p b c o rc e).
Proof.
  intros Hwf G Hv. pose proof (genuine_len' buf e Hwf G) as HL. destruct G as (G0 & G1 & _).
  unfold bss_events.
  destruct (e_num e =? 0); [constructor; [inside_red; lia | constructor] | ].
  destruct ((e_num e =? 3) || (e_num e =? 61)); cbn [andb].
  { destruct (Z.leb_spec 1 (e_len e)); [constructor; [inside_red; lia | constructor] | ].
    destruct (e_num e =? 48); [constructor; [inside_red; lia | constructor] | ].
    destruct (Z.eqb_spec (e_num e) 221) as [E | E]; [ | constructor].
    specialize (Hv E). constructor; [inside_red; lia | ].
    destruct ((4 <=? e_len e) && (wrap (mkty true 32) rc =? 0)); [constructor; [inside_red; lia | constructor] | constructor]. }
  destruct (e_num e =? 48); [constructor; [inside_red; lia | constructor] | ].
  destruct (Z.eqb_spec (e_num e) 221) as [E | E]; [ | constructor].
  specialize (Hv E). constructor; [inside_red; lia | ].
  destruct ((4 <=? e_len e) && (wrap (mkty true 32) rc =? 0)); [constructor; [inside_red; lia | constructor] | constructor].
Qed.

Lemma bss_events_inside_but_memcmp buf p b c o rc e : wfbytes buf -> genuine buf e ->
  Forall (fun ev => fst ev = "memcmp" \/ ev_inside p (zlen buf) ev) (bss_events p b c o rc e).
Proof.
  intros Hwf G. pose proof (genuine_len' buf e Hwf G) as HL. destruct G as (G0 & G1 & _).
  unfold bss_events.
  destruct (e_num e =? 0); [constructor; [right; inside_red; lia | constructor] | ].
  destruct ((e_num e =? 3) || (e_num e =? 61)); cbn [andb].
  { destruct (Z.leb_spec 1 (e_len e)); [constructor; [right; inside_red; lia | constructor] | ].
    destruct (e_num e =? 48); [constructor; [right; inside_red; lia | constructor] | ].
    destruct (e_num e =? 221); [ | constructor].
    constructor; [left; reflexivity | ].
    destruct ((4 <=? e_len e) && (wrap (mkty true 32) rc =? 0)); [constructor; [right; inside_red; lia | constructor] | constructor]. }
  destruct (e_num e =? 48); [constructor; [right; inside_red; lia | constructor] | ].
  destruct (e_num e =? 221); [ | constructor].
  constructor; [left; reflexivity | ].
  destruct ((4 <=? e_len e) && (wrap (mkty true 32) rc =? 0)); [constructor; [right; inside_red; lia | constructor] | constructor].
Qed.

Theorem code_bss_tag_parser_inside buf p b c o rc : wfbytes buf ->
  Forall (fun ev => fst ev = "memcmp" \/ ev_inside p (zlen buf) ev) (flat_map (bss_events p b c o rc) (elements buf)) /\
  (Forall (fun e => e_num e = 221 -> 3 <= e_len e) (elements buf) ->
   Forall (ev_inside p (zlen buf)) (flat_map (bss_events p b c o rc) (elements buf))).
Proof.
  intros Hwf. destruct (elements_props buf Hwf) as (G & _ & _). split.
  - induction G as [ | e r Ge Gr IH]; [constructor | ].
    cbn [flat_map]. apply Forall_app. split; [apply bss_events_inside_but_memcmp; assumption | exact IH].
  - induction G as [ | e r Ge Gr IH]; intros Hv; [constructor | ].
    inversion Hv as [ | ? ? Hve Hvr]; subst.
    cbn [flat_map]. apply Forall_app. split; [apply bss_events_inside; assumption | exact (IH Hvr)].
Qed.

(* ---------------------------------------------------------------- 8. an element with an empty body does not stop the walk *)
(* every SSID element of the chain reaches the SSID handler, whatever stands in front of it *)
Corollary code_sta_tag_parser_every_ssid buf p rho F e :
  wfbytes buf -> 0 < p -> p + zlen buf < 2 ^ 62 -> first_fits buf -> it_initial rho p buf ->
  (40 + List.length (elements buf) <= F)%nat ->
  In e (elements buf) -> e_num e = 0 ->
  exists rho' tr,
    exec F (mem_at p buf) rho [] body_libwifi_sta_tag_parser = Returned (Some 0) rho' tr /\
    In ("libwifi_handle_ssid_tag", [wrap u64 (rho "sta"); 1; p + e_off e + 2; e_len e]) tr.
Proof.
  intros Hwf Hp Hend Hff Hinit HF Hin He.
  destruct (code_sta_tag_parser_walk buf p rho F Hwf Hp Hend Hff Hinit HF) as (rho' & Hx & _).
  exists rho'. eexists. split; [exact Hx | ].
  apply in_flat_map. exists e. split; [exact Hin | ]. unfold sta_events. rewrite He. left. reflexivity.
Qed.

Definition it_env0 (p : Z) (buf : list byte) (more : list (string * Z)) : env :=
  env_of ([("it->tag_header", p); ("it->tag_data", p + 2); ("it->_next_tag_header", p + 2 + znth buf 1);
           ("it->_frame_end", p + zlen buf - 1)] ++ more).

(* DS element without body, SSID "ab", DS element with channel 6, an unknown element without body, DS element with channel 11:
   the two empty elements are elements like any other, the walk goes on behind them *)
Definition sample_sta : list byte := [3; 0; 0; 2; 97; 98; 3; 1; 6; 200; 0; 3; 1; 11].
Example sta_empty_body_goes_on :
  elements sample_sta =
    [{| e_off := 0; e_num := 3; e_len := 0 |}; {| e_off := 2; e_num := 0; e_len := 2 |}; {| e_off := 6; e_num := 3; e_len := 1 |};
     {| e_off := 9; e_num := 200; e_len := 0 |}; {| e_off := 11; e_num := 3; e_len := 1 |}] /\
  match exec 60 (mem_at 1000 sample_sta) (it_env0 1000 sample_sta [("sta", 7); ("&sta->channel", 8)]) []
             body_libwifi_sta_tag_parser with
  | Returned v rho' tr =>
      v = Some 0 /\ rho' "sta->channel" = 11 /\
      tr = [("libwifi_handle_ssid_tag", [7; 1; 1004; 2]); ("memcpy", [8; 1008; 1]); ("memcpy", [8; 1013; 1])]
  | _ => False
  end.
Proof. vm_compute. repeat split; reflexivity. Qed.

(* SSID "A", DS channel 6, RSN (2 octets), vendor specific Microsoft (OUI 00 50 f2, 5 octets), element extension 35, HT operation
   (primary channel 9) *)
Definition sample_bss : list byte :=
  [0; 1; 65;  3; 1; 6;  48; 2; 1; 0;  221; 5; 0; 80; 242; 4; 0;  255; 1; 35;  61; 1; 9].
Example bss_sample_run :
  match exec 80 (mem_at 1000 sample_bss) (it_env0 1000 sample_bss [("bss", 7); ("&bss->channel", 8); ("str:\x00P\xf2", 9)]) []
             body_libwifi_bss_tag_parser with
  | Returned v rho' tr =>
      v = Some 0 /\ rho' "bss->channel" = 9 /\
      tr = [("libwifi_handle_ssid_tag", [7; 0; 1002; 1]); ("memcpy", [8; 1005; 1]);
            ("libwifi_bss_handle_rsn_tag", [7; 1008; 2]); ("memcmp", [1012; 9; 3]);
            ("libwifi_bss_handle_msft_tag", [7; 1012; 5]); ("memcpy", [8; 1022; 1])]
  | _ => False
  end.
Proof. vm_compute. repeat split; reflexivity. Qed.

(* the RSN handler answers -22: the SSID and DS elements in front have been handled, the vendor element behind is not reached *)
Example bss_sample_rsn_rejects :
  match exec 80 (mem_at 1000 sample_bss)
             (it_env0 1000 sample_bss [("bss", 7); ("&bss->channel", 8); ("str:\x00P\xf2", 9);
                                       ("ret:libwifi_bss_handle_rsn_tag", -22)]) []
             body_libwifi_bss_tag_parser with
  | Returned v rho' tr =>
      v = Some (-22) /\ rho' "bss->channel" = 6 /\
      tr = [("libwifi_handle_ssid_tag", [7; 0; 1002; 1]); ("memcpy", [8; 1005; 1]);
            ("libwifi_bss_handle_rsn_tag", [7; 1008; 2])]
  | _ => False
  end.
Proof. vm_compute. repeat split; reflexivity. Qed.

(* FALSE as one might state it ("every pointer in the trace comes with a length inside the buffer"): a vendor specific element
   without body at the end of the buffer.  The translated routine's trace has  memcmp(p + 2, "\x00P\xf2", 3)  although p + 2 is the
   end of the buffer: the translator hoists the call out of  tag_len >= 4 && memcmp(...) == 0  (in the C source the call is not
   made; the run itself does not read those octets, it is not stuck) *)
Example bss_memcmp_event_inside_refuted :
  let buf := [221; 0] in
  match exec 80 (mem_at 1000 buf) (it_env0 1000 buf [("bss", 7); ("&bss->channel", 8); ("str:\x00P\xf2", 9)]) []
             body_libwifi_bss_tag_parser with
  | Returned v _ tr => v = Some 0 /\ tr = [("memcmp", [1002; 9; 3])] /\ ~ Forall (ev_inside 1000 (zlen buf)) tr
  | _ => False
  end.
Proof.
  vm_compute. split; [reflexivity | ]. split; [reflexivity | ].
  intros H. inversion H as [ | ? ? H1 _]; subst. destruct H1 as (_ & _ & H1). apply H1. reflexivity.
Qed.

(* ---------------------------------------------------------------- 9. the elements visited are the model's
   The groups of events of theorems 1 and 2 are indexed by [elements buf]; that list is what the hand-written iterator
   (Model/TagIter.v: tag_init, then walk = do { report } while (tag_next)) reports on the same buffer, and the channel the
   translated routines leave is the one the hand-written parsers (Model/Mgmt.v: sta_elems, bss_elems) compute. *)
From LW Require Import Model.Mgmt Spec.MgmtSpec Proofs.MgmtProofs.

Theorem code_tag_parsers_visit_model_walk buf : wfbytes buf -> first_fits buf ->
  iterate (rd_strict buf) (zlen buf) = Done (Ok (elements buf)) /\
  elements buf <> [] /\ Forall (genuine buf) (elements buf) /\ contiguous 0 (elements buf).
Proof.
  intros Hwf (Hf2 & Hf1). destruct (elements_first buf Hf2 Hf1) as (e & r & Eel & _).
  assert (Hne : elements buf <> []) by (rewrite Eel; discriminate).
  split; [apply iterate_complete_all; [exact Hwf | apply agrees_strict | exact Hne] | ].
  split; [exact Hne | ].
  destruct (elements_props buf Hwf) as (G & C & _). split; assumption.
Qed.

Lemma chan_step_of buf ht a e : genuine buf e -> chan_step ht buf a e = chan_of buf ht a e.
Proof.
  intros (G0 & G1 & G2 & G3). unfold chan_step, chan_of, E_DS, E_HT_OP.
  destruct (((e_num e =? 3) || (ht && (e_num e =? 61)))); cbn [andb]; [ | reflexivity].
  destruct (Z.leb_spec 1 (e_len e)); [ | reflexivity].
  unfold body_of. rewrite znth_slice by lia. f_equal. lia.
Qed.

Lemma chan_fold_of buf ht : forall els a, Forall (genuine buf) els ->
  fold_left (chan_step ht buf) els a = fold_left (chan_of buf ht) els a.
Proof.
  induction els as [ | e r IH]; intros a HF; [reflexivity | ].
  inversion HF as [ | ? ? Ge Gr]; subst. cbn [fold_left]. rewrite chan_step_of by exact Ge. apply IH. exact Gr.
Qed.

(* 3. the STA parser as translated and the hand-written one, run over the elements the hand-written iterator reports *)
Theorem code_sta_tag_parser_refines_model buf p rho F (s : sta) :
  wfbytes buf -> 0 < p -> p + zlen buf < 2 ^ 62 -> first_fits buf -> it_initial rho p buf ->
  (40 + List.length (elements buf) <= F)%nat ->
  s_channel s = rho "sta->channel" ->
  exists els s' rho',
    iterate (rd_strict buf) (zlen buf) = Done (Ok els) /\
    sta_elems (rd_strict buf) s els = Done s' /\
    exec F (mem_at p buf) rho [] body_libwifi_sta_tag_parser =
      Returned (Some 0) rho' (flat_map (sta_events p (rho "sta") (rho "&sta->channel")) els) /\
    rho' "sta->channel" = s_channel s'.
Proof.
  intros Hwf Hp Hend Hff Hinit HF Hs.
  destruct (code_tag_parsers_visit_model_walk buf Hwf Hff) as (Hit & _ & G & _).
  destruct (code_sta_tag_parser_walk buf p rho F Hwf Hp Hend Hff Hinit HF) as (rho' & Hx & Hc).
  exists (elements buf). eexists. exists rho'.
  split; [exact Hit | ]. split; [apply (sta_elems_exact buf Hwf); exact G | ]. split; [exact Hx | ].
  rewrite Hc. cbn [mk_sta s_channel]. rewrite Hs. symmetry. apply chan_fold_of. exact G.
Qed.

(* ... and the BSS parser (handlers answering 0): whenever the hand-written parser accepts the elements, the channel is the same *)
Theorem code_bss_tag_parser_refines_model buf p rho F (b b' : bss) :
  wfbytes buf -> 0 < p -> p + zlen buf < 2 ^ 62 -> first_fits buf -> it_initial rho p buf ->
  wrap (mkty true 32) (rho "ret:libwifi_bss_handle_rsn_tag") = 0 ->
  wrap (mkty true 32) (rho "ret:libwifi_bss_handle_msft_tag") = 0 ->
  (44 + List.length (elements buf) <= F)%nat ->
  b_channel b = rho "bss->channel" ->
  bss_elems (rd_strict buf) b (elements buf) = Done (Ok b') ->
  exists rho',
    iterate (rd_strict buf) (zlen buf) = Done (Ok (elements buf)) /\
    exec F (mem_at p buf) rho [] body_libwifi_bss_tag_parser =
      Returned (Some 0) rho'
        (flat_map (bss_events p (rho "bss") (rho "&bss->channel") (rho "str:\x00P\xf2") (rho "ret:memcmp")) (elements buf)) /\
    rho' "bss->channel" = b_channel b'.
Proof.
  intros Hwf Hp Hend Hff Hinit Hr Hm HF Hb Hmod.
  destruct (code_tag_parsers_visit_model_walk buf Hwf Hff) as (Hit & _ & G & _).
  destruct (code_bss_tag_parser_walk buf p rho F Hwf Hp Hend Hff Hinit Hr Hm HF) as (rho' & Hx & Hc).
  exists rho'. split; [exact Hit | ]. split; [exact Hx | ].
  rewrite (bss_elems_exact buf Hwf _ b G) in Hmod.
  destruct (s_security buf (elements buf) (sec_of b)) as [x | ]; [ | discriminate Hmod].
  injection Hmod as <-. cbn [mk_bss b_channel]. rewrite Hc, Hb. symmetry. apply chan_fold_of. exact G.
Qed.

Print Assumptions code_sta_tag_parser_walk.
Print Assumptions code_sta_tag_parser_inside.
Print Assumptions code_sta_tag_parser_every_ssid.
Print Assumptions code_bss_tag_parser_run.
Print Assumptions code_bss_tag_parser_walk.
Print Assumptions code_bss_tag_parser_rejects.
Print Assumptions code_bss_tag_parser_rsn_rejects.
Print Assumptions code_bss_tag_parser_msft_rejects.
Print Assumptions code_bss_tag_parser_inside.
Print Assumptions sta_empty_body_goes_on.
Print Assumptions bss_sample_run.
Print Assumptions bss_sample_rsn_rejects.
Print Assumptions bss_memcmp_event_inside_refuted.
Print Assumptions code_tag_parsers_visit_model_walk.
Print Assumptions code_sta_tag_parser_refines_model.
Print Assumptions code_bss_tag_parser_refines_model.
