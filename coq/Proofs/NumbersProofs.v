From Coq Require Import List ZArith Lia String Bool.
From LW Require Import Base.Sweep Spec.IEEE Spec.Numbers Gen.Consts Gen.Tables Model.TagName.
Import ListNotations.
Local Open Scope Z_scope.

(* ---- values ---- *)
Lemma mismatches_nil_sound pub ieee : mismatches pub ieee = [] ->
  forall n v v', In (n, v) pub -> lookup_s n ieee = Some v' -> v = v'.
Proof.
  unfold mismatches. induction pub as [|[m w] r IH]; intros H n v v' Hin Hl; [contradiction|].
  cbn [flat_map fst snd] in H. apply app_eq_nil in H as [H1 H2].
  destruct Hin as [E|Hin].
  - injection E as -> ->. rewrite Hl in H1. destruct (v =? v') eqn:Ev; [lia|discriminate].
  - eapply IH; eauto.
Qed.

Lemma all_mismatches_nil : all_mismatches = [].
Proof. vm_compute. reflexivity. Qed.

Lemma flat_map_nil {A B} (f : A -> list B) l : flat_map f l = [] -> forall x, In x l -> f x = [].
Proof.
  induction l as [|y r IH]; intros H x Hx; [contradiction|].
  cbn [flat_map] in H. apply app_eq_nil in H as [H1 H2].
  destruct Hx as [<-|Hx]; auto.
Qed.

Lemma values_follow_ieee : forall kind pub ieee n v v',
  In (kind, pub, ieee) kinds -> In (n, v) pub -> lookup_s n ieee = Some v' -> v = v'.
Proof.
  intros kind pub ieee n v v' Hk Hin Hl.
  pose proof (flat_map_nil _ _ all_mismatches_nil _ Hk) as H. cbn [fst snd] in H.
  eapply mismatches_nil_sound; eauto.
Qed.

(* ---- no two names of one kind share a number ---- *)
Lemma dups_nil_NoDup l : dups l = [] -> NoDup (map snd l).
Proof.
  induction l as [|[n v] r IH]; intros H; [constructor|].
  cbn [dups] in H. apply app_eq_nil in H as [H1 H2].
  cbn [map snd]. constructor; [|apply IH; exact H2].
  intros Hin. apply in_map_iff in Hin as [[n' v'] [E Hin]]. cbn [snd] in E. subst v'.
  assert (exists m, find_value v r = Some m) as [m Hm].
  { clear -Hin. induction r as [|[a b] r IH]; [contradiction|].
    cbn [find_value]. destruct (b =? v) eqn:E; [eexists; reflexivity|].
    destruct Hin as [E'|Hin]; [injection E' as -> ->; lia|]. apply IH; exact Hin. }
  rewrite Hm in H1. discriminate.
Qed.
Lemma all_dups_nil : all_dups = [].
Proof. vm_compute. reflexivity. Qed.
Lemma numbers_distinct : forall kind pub ieee, In (kind, pub, ieee) kinds -> NoDup (map snd pub).
Proof.
  intros kind pub ieee Hk. apply dups_nil_NoDup.
  pose proof (flat_map_nil _ _ all_dups_nil _ Hk) as H. exact H.
Qed.

(* ---- tag-name lookup, every integer ---- *)
Lemma tag_table_ok : tag_name_table_ok = true /\ tag_name_default = unknown_tag.
Proof. split; vm_compute; reflexivity. Qed.
Lemma tag_sweep : forallb (fun z => String.eqb (get_tag_name z) (spec_tag_name z)) (zrange 0 256) = true.
Proof. vm_compute. reflexivity. Qed.
Lemma tag_keys : keys_in 0 255 tag_name_table = true /\ values_in 0 255 enum_libwifi_tag_numbers = true.
Proof. split; vm_compute; reflexivity. Qed.

Lemma tag_name_all_integers : forall z, get_tag_name z = spec_tag_name z.
Proof.
  intros z. destruct (Z_lt_dec z 0) as [Hn|Hn]; [|destruct (Z_lt_dec 255 z) as [Hp|Hp]].
  - unfold get_tag_name, spec_tag_name.
    rewrite (lookup_z_outside 0 255) by (try apply tag_keys; lia).
    rewrite (find_value_outside 0 255) by (try apply tag_keys; lia).
    apply tag_table_ok.
  - unfold get_tag_name, spec_tag_name.
    rewrite (lookup_z_outside 0 255) by (try apply tag_keys; lia).
    rewrite (find_value_outside 0 255) by (try apply tag_keys; lia).
    apply tag_table_ok.
  - apply String.eqb_eq. apply (forallb_zrange _ 0 256 tag_sweep). lia.
Qed.

(* non-vacuity: the transcription covers the published sets *)
Example coverage_nonvacuous :
  (covered enum_libwifi_tag_numbers ieee_tag_numbers >= 160)%nat /\
  (covered enum_libwifi_reason_codes ieee_reason_codes >= 55)%nat /\
  spec_tag_name 48 = "TAG_RSN"%string /\ spec_tag_name 2 = unknown_tag.
Proof. vm_compute. repeat split; lia. Qed.
