(* The six "set" routines of the management-frame generators AS TRANSLATED from the C sources (Gen/Sites.v):
     libwifi_set_beacon_ssid / _channel, libwifi_set_probe_resp_ssid / _channel, libwifi_set_assoc_resp_channel,
     libwifi_set_reassoc_resp_channel.
   All six have one shape: when the element list is not empty COUNT the elements that carry the number (libwifi_check_tag),
   then ADD the new element (libwifi_quick_add_tag), and only when the addition succeeded and the count was positive REMOVE the
   old one (libwifi_remove_tag).  A failure of the count or of the addition is returned at once and nothing after it is called:
   in particular the old element is still in the list when the addition fails (failure-atomic).

   The callees answer unknowns of the environment: rho "ret:libwifi_check_tag" = p, rho "ret:libwifi_quick_add_tag" = a,
   rho "ret:libwifi_remove_tag" = r, rho "ret:strlen".  The statement [setter_ok] holds for EVERY environment rho (so the
   initialisers of the locals [ret] and [present] matter: a body that read rho "present" would fail it), every memory m
   (nothing is loaded), every list length L = rho lenlv in [0, 2^63) and all p, a, r in the int range. *)
From Coq Require Import ZArith String List Bool Lia.
From LW Require Import Base.CExpr Gen.Consts Gen.Sites Proofs.SitesLemmas.
Import ListNotations.
Local Open Scope string_scope.
Local Open Scope Z_scope.

(* ---------------------------------------------------------------- the statement *)

(* the events of a trace that are calls of strlen: the SSID setters compute the length argument of libwifi_quick_add_tag with
   strlen(ssid): the strlen event precedes the quick_add_tag event it feeds; strlen has no effect on the list, [sl] below is where
   these events sit. *)
Definition is_strlen (e : event) : Prop := fst e = "strlen".

Definition setter_ok (body : list cstmt) (tagnum : Z) (lenlv : string) : Prop :=
  forall (m : memory) (rho : env) (L p a r : Z),
    0 <= L < 2 ^ 63 -> rho lenlv = L ->
    - 2 ^ 31 <= p < 2 ^ 31 -> rho "ret:libwifi_check_tag" = p ->
    - 2 ^ 31 <= a < 2 ^ 31 -> rho "ret:libwifi_quick_add_tag" = a ->
    - 2 ^ 31 <= r < 2 ^ 31 -> rho "ret:libwifi_remove_tag" = r ->
    exists (tg d len : Z) (sl : list event),
      (* the three calls are made on ONE list address tg, with the tag number of the setter *)
      let check := ("libwifi_check_tag", [tg; tagnum]) in
      let add := ("libwifi_quick_add_tag", [tg; tagnum; d; len]) in
      let remove := ("libwifi_remove_tag", [tg; tagnum]) in
      let run := observe (exec 40 m rho [] body) in
      (* 1. empty list: no count, the addition's answer is the result, nothing to remove *)
      (L = 0 -> run = Some (Some a, (sl ++ [add])%list)) /\
      (* 2. the count failed: its answer is the result, nothing else is called *)
      (L <> 0 -> p < 0 -> run = Some (Some p, [check])) /\
      (* 3. the addition failed: its answer is the result, libwifi_remove_tag is NOT called *)
      (L <> 0 -> 0 <= p -> a <> 0 -> run = Some (Some a, check :: (sl ++ [add])%list)) /\
      (* 4. added and there was an old element: it is removed, LAST, and the removal's answer is the result *)
      (L <> 0 -> 0 < p -> a = 0 -> run = Some (Some r, check :: (sl ++ [add; remove])%list)) /\
      (* 5. added and there was no old element: nothing to remove, result 0 *)
      (L <> 0 -> p = 0 -> a = 0 -> run = Some (Some 0, check :: (sl ++ [add])%list)) /\
      (* the channel setters add ONE octet; the SSID setters add strlen(ssid) octets *)
      (tagnum = c_TAG_DS_PARAMETER -> len = 1 /\ sl = []) /\
      (tagnum = c_TAG_SSID -> len = wrap u64 (rho "ret:strlen") /\ sl = [("strlen", [d])]) /\
      Forall is_strlen sl.

(* ---------------------------------------------------------------- running the bodies *)

Ltac nums :=
  change (2 ^ 64) with 18446744073709551616 in *; change (2 ^ 63) with 9223372036854775808 in *;
  change (2 ^ 32) with 4294967296 in *; change (2 ^ 31) with 2147483648 in *.

(* evaluation under environments built by upd / clobber on concrete names (as in Proofs/SitesTags.v, where these tactics are
   local to a section): the prefix tests are computed *)
Ltac prefix_simpl :=
  repeat match goal with
         | |- context [String.prefix ?a ?b] => let r := eval vm_compute in (String.prefix a b) in change (String.prefix a b) with r
         end;
  cbv beta iota.
Ltac ceval_env :=
  cbv beta iota zeta delta [ceval evals binop b2z c_bits c_signed upd zeroed clobber String.eqb Ascii.eqb Bool.eqb negb String.append
                            u8 s8 u16 s16 u32 s32 u64 s64];
  prefix_simpl.
Ltac ev := ceval_env; wrap_ids; reflexivity.

(* one statement, then the comparison it exposed is decided from the hypotheses *)
Ltac set_step :=
  match goal with
  | |- context [exec _ _ _ _ (SSet _ _ _ :: _)] => erewrite exec_set by ev
  | |- context [exec _ _ _ _ (SCall _ _ _ :: _)] => erewrite exec_call by ev
  | |- context [exec _ _ _ _ (SClobber _ :: _)] => rewrite exec_clobber
  | |- context [exec _ _ _ _ (SRet _ _ :: _)] => erewrite exec_ret by ev
  | |- context [exec _ _ _ _ []] => rewrite exec_nil
  | |- context [exec _ _ _ _ (SIf _ _ _ _ :: _)] => erewrite exec_if_gen by ev
  end.
Ltac set_run := repeat (set_step; decide_bools; cbv beta iota).

(* a decided case: run, then read the result and the trace off *)
Ltac set_case :=
  set_run; cbn [observe app];
  first [ reflexivity | apply f_equal; apply f_equal2; [ apply f_equal; lia | reflexivity ] ].

Ltac setter_tac_with body SL :=
  let m := fresh "m" in let rho := fresh "rho" in
  let L := fresh "L" in let p := fresh "p" in let a := fresh "a" in let r := fresh "r" in
  let HL := fresh "HL" in let EL := fresh "EL" in let Hp := fresh "Hp" in let Ep := fresh "Ep" in
  let Ha := fresh "Ha" in let Ea := fresh "Ea" in let Hr := fresh "Hr" in let Er := fresh "Er" in
  intros m rho L p a r HL EL Hp Ep Ha Ea Hr Er; nums;
  (* the unknowns are read from the environment: name them by what the environment gives *)
  subst L p a r;
  unfold body, c_TAG_SSID, c_TAG_DS_PARAMETER;
  do 3 eexists; SL; cbv zeta; cbn [app];
  (* the first case (where the addition's answer is not constrained: both outcomes of "ret != 0" are run) fixes the list
     address, the data pointer, the length and the strlen events; the others must agree *)
  split; [ intros ?; destruct (Z.eq_dec (rho "ret:libwifi_quick_add_tag") 0); set_case | ];
  split; [ intros ? ?; set_case | ];
  split; [ intros ? ? ?; set_case | ];
  split; [ intros ? ? ?; set_case | ];
  split; [ intros ? ? ?; set_case | ];
  split; [ intros ?; first [ discriminate | split; [ wrap_ids; reflexivity | reflexivity ] ] | ];
  split; [ intros ?; first [ discriminate | split; reflexivity ] | ];
  repeat constructor.

Ltac sl_none := exists (@nil event).
Ltac sl_strlen := eexists [("strlen", [_])].
Ltac setter_tac body := first [ setter_tac_with body sl_none | setter_tac_with body sl_strlen ].

Theorem code_set_beacon_ssid : setter_ok body_libwifi_set_beacon_ssid c_TAG_SSID "beacon->tags.length".
Proof. setter_tac body_libwifi_set_beacon_ssid. Qed.

Theorem code_set_beacon_channel : setter_ok body_libwifi_set_beacon_channel c_TAG_DS_PARAMETER "beacon->tags.length".
Proof. setter_tac body_libwifi_set_beacon_channel. Qed.

Theorem code_set_probe_resp_ssid : setter_ok body_libwifi_set_probe_resp_ssid c_TAG_SSID "probe_resp->tags.length".
Proof. setter_tac body_libwifi_set_probe_resp_ssid. Qed.

Theorem code_set_probe_resp_channel : setter_ok body_libwifi_set_probe_resp_channel c_TAG_DS_PARAMETER "probe_resp->tags.length".
Proof. setter_tac body_libwifi_set_probe_resp_channel. Qed.

Theorem code_set_assoc_resp_channel : setter_ok body_libwifi_set_assoc_resp_channel c_TAG_DS_PARAMETER "assoc_resp->tags.length".
Proof. setter_tac body_libwifi_set_assoc_resp_channel. Qed.

Theorem code_set_reassoc_resp_channel : setter_ok body_libwifi_set_reassoc_resp_channel c_TAG_DS_PARAMETER "reassoc_resp->tags.length".
Proof. setter_tac body_libwifi_set_reassoc_resp_channel. Qed.

(* ---------------------------------------------------------------- the statement discriminates
   Three bodies that are NOT setters in the sense of [setter_ok], refuted by running them on one concrete environment:
   - the right body with the wrong tag number;
   - the body without the initialiser of [present] (second statement dropped): with an empty list the count is skipped, the body
     reads whatever [present] holds, and removes an element although it counted none;
   - the body that removes BEFORE it adds (the "if (present > 0) remove" statement moved in front of the addition): when the
     addition fails the old element is gone. *)
Definition env1 (l : list (string * Z)) : env := env_of l.
Definition no_mem : memory := fun _ => None.

Ltac refute l L p a r :=
  let H := fresh "H" in
  intros H;
  destruct (H no_mem (env1 l) L p a r) as (tg & d & len & sl & H1 & H2 & H3 & H4 & H5 & H6 & H7 & _);
  [ lia | reflexivity | lia | reflexivity | lia | reflexivity | lia | reflexivity | ];
  try (destruct (H6 eq_refl) as [-> ->]); try (destruct (H7 eq_refl) as [-> ->]);
  first [ specialize (H1 eq_refl); vm_compute in H1; discriminate H1
        | specialize (H3 ltac:(lia) ltac:(lia) ltac:(lia)); vm_compute in H3; discriminate H3 ].

Theorem wrong_tag_number_refuted : ~ setter_ok body_libwifi_set_beacon_channel c_TAG_SSID "beacon->tags.length".
Proof. refute (@nil (string * Z)) 0 0 0 0. Qed.

Definition drop_present_init (body : list cstmt) : list cstmt := firstn 1 body ++ skipn 2 body.

Theorem no_initialiser_refuted :
  ~ setter_ok (drop_present_init body_libwifi_set_beacon_channel) c_TAG_DS_PARAMETER "beacon->tags.length".
Proof. refute [("present", 1)] 0 0 0 0. Qed.

(* statements 0..9 of a channel setter: ret, present, if (length) count, chan, call add, clobber, ret = add, if (ret) return,
   if (present > 0) remove, return ret *)
Definition remove_first (body : list cstmt) : list cstmt :=
  firstn 3 body ++ firstn 1 (skipn 8 body) ++ firstn 5 (skipn 3 body) ++ skipn 9 body.

Theorem remove_before_add_refuted :
  ~ setter_ok (remove_first body_libwifi_set_beacon_channel) c_TAG_DS_PARAMETER "beacon->tags.length".
Proof.
  refute [("beacon->tags.length", 1); ("ret:libwifi_check_tag", 1); ("ret:libwifi_quick_add_tag", -12)] 1 1 (-12) 0.
Qed.

Print Assumptions code_set_beacon_ssid.
Print Assumptions code_set_beacon_channel.
Print Assumptions code_set_probe_resp_ssid.
Print Assumptions code_set_probe_resp_channel.
Print Assumptions code_set_assoc_resp_channel.
Print Assumptions code_set_reassoc_resp_channel.
Print Assumptions wrong_tag_number_refuted.
Print Assumptions no_initialiser_refuted.
Print Assumptions remove_before_add_refuted.
