(* part of the generator theorems (see Proofs/CodeGen.v), split so that the proofs build in parallel *)
From Coq Require Import ZArith String Ascii List Bool Lia.
From LW Require Import Base.CExpr Gen.Consts Gen.Layout Gen.Sites Proofs.SitesLemmas.
Import ListNotations.
Local Open Scope string_scope.
Local Open Scope Z_scope.
From LW Require Import Proofs.CodeGenDefs.

Section WithMemory.
Variable m : memory.

(* ================================================================ 3. the routines that add their tags themselves
   n = what strlen(ssid) answers, r = what libwifi_quick_add_tag answers.  The strlen event precedes the event of the call whose argument it is.
   One name per callee in the environment: within ONE run both adds get the same answer r; the [..._second_add] theorems run
   the rest of the body from the second add in an arbitrary environment and trace, which covers a second answer that differs
   from the first.  The [..._before_add] theorems give the state in which the first add is made: every lvalue under
   "obj->tags" reads 0 (length 0, no block). *)

Theorem code_create_assoc_req rho n r :
  0 <= n < 2 ^ 64 -> - 2 ^ 31 <= r < 2 ^ 31 ->
  let rho0 := upd (upd rho "ret:strlen" n) "ret:libwifi_quick_add_tag" r in
  exists rho',
    exec 40 m rho0 [] body_libwifi_create_assoc_req =
      Returned (Some r) rho'
        (mgmt_events rho "assoc_req" sizeof_libwifi_assoc_req "receiver" "transmitter" "address3" ++
         [("strlen", [wrap u64 (rho "ssid")]); ev_add_tag rho "&assoc_req->tags" c_TAG_SSID "ssid" n] ++
         (if r =? 0 then [ev_add_tag rho "&assoc_req->tags" c_TAG_DS_PARAMETER "&channel" 1] else [])) /\
    rho' "assoc_req->frame_header.frame_control.type" = c_TYPE_MANAGEMENT /\
    rho' "assoc_req->frame_header.frame_control.subtype" = c_SUBTYPE_ASSOC_REQ /\
    rho' "assoc_req->fixed_parameters.capabilities_information" = c_LIBWIFI_DEFAULT_AP_CAPABS /\
    rho' "assoc_req->fixed_parameters.listen_interval" = c_LIBWIFI_DEFAULT_LISTEN_INTERVAL /\
    reads_zero rho' "assoc_req->frame_header." mgmt_rest /\
    untouched "assoc_req->"
      ["assoc_req->frame_header.frame_control.type"; "assoc_req->frame_header.frame_control.subtype";
       "assoc_req->fixed_parameters.capabilities_information"; "assoc_req->fixed_parameters.listen_interval"]
      ["assoc_req->frame_header.addr1"; "assoc_req->frame_header.addr2"; "assoc_req->frame_header.addr3"; "assoc_req->tags"] rho'.
Proof.
  intros Hn Hr rho0; nums. unfold rho0, body_libwifi_create_assoc_req; clear rho0.
  gen_prefix. destruct (Z.eqb_spec r 0) as [E | N]; [subst r | ]; gen_finish.
Qed.

Theorem code_create_assoc_req_before_add rho :
  exists rho1,
    exec 40 m rho [] (firstn 13 body_libwifi_create_assoc_req) =
      Fell rho1 (mgmt_events rho "assoc_req" sizeof_libwifi_assoc_req "receiver" "transmitter" "address3" ++ [("strlen", [wrap u64 (rho "ssid")])])%list /\
    (forall s, rho1 ("assoc_req->tags" ++ s) = 0) /\
    calls "libwifi_quick_add_tag" (skipn 13 body_libwifi_create_assoc_req).
Proof.
  unfold body_libwifi_create_assoc_req. cbn [firstn skipn]. gen_before.
Qed.

Theorem code_create_assoc_req_second_add rho tr r2 :
  - 2 ^ 31 <= r2 < 2 ^ 31 ->
  let rho1 := upd rho "ret:libwifi_quick_add_tag" r2 in
  calls "libwifi_quick_add_tag" (skipn 17 body_libwifi_create_assoc_req) /\
  observe (exec 10 m rho1 tr (skipn 17 body_libwifi_create_assoc_req)) =
    Some (Some r2, (tr ++ [ev_add_tag rho "&assoc_req->tags" c_TAG_DS_PARAMETER "&channel" 1])%list).
Proof.
  intros Hr rho1; nums. unfold rho1, body_libwifi_create_assoc_req; clear rho1. cbn [firstn skipn].
  split; [reflexivity | ].
  destruct (Z.eqb_spec r2 0) as [E | N]; [subst r2 | ]; gen_observe.
Qed.

Theorem code_create_probe_req rho n r :
  0 <= n < 2 ^ 64 -> - 2 ^ 31 <= r < 2 ^ 31 ->
  let rho0 := upd (upd rho "ret:strlen" n) "ret:libwifi_quick_add_tag" r in
  exists rho',
    exec 40 m rho0 [] body_libwifi_create_probe_req =
      Returned (Some r) rho'
        (mgmt_events rho "probe_req" sizeof_libwifi_probe_req "receiver" "transmitter" "address3" ++
         [("strlen", [wrap u64 (rho "ssid")]); ev_add_tag rho "&probe_req->tags" c_TAG_SSID "ssid" n] ++
         (if r =? 0 then [ev_add_tag rho "&probe_req->tags" c_TAG_DS_PARAMETER "&channel" 1] else [])) /\
    rho' "probe_req->frame_header.frame_control.type" = c_TYPE_MANAGEMENT /\
    rho' "probe_req->frame_header.frame_control.subtype" = c_SUBTYPE_PROBE_REQ /\
    reads_zero rho' "probe_req->frame_header." mgmt_rest /\
    untouched "probe_req->"
      ["probe_req->frame_header.frame_control.type"; "probe_req->frame_header.frame_control.subtype"]
      ["probe_req->frame_header.addr1"; "probe_req->frame_header.addr2"; "probe_req->frame_header.addr3"; "probe_req->tags"] rho'.
Proof.
  intros Hn Hr rho0; nums. unfold rho0, body_libwifi_create_probe_req; clear rho0.
  gen_prefix. destruct (Z.eqb_spec r 0) as [E | N]; [subst r | ]; gen_finish.
Qed.

Theorem code_create_probe_req_before_add rho :
  exists rho1,
    exec 40 m rho [] (firstn 11 body_libwifi_create_probe_req) =
      Fell rho1 (mgmt_events rho "probe_req" sizeof_libwifi_probe_req "receiver" "transmitter" "address3" ++ [("strlen", [wrap u64 (rho "ssid")])])%list /\
    (forall s, rho1 ("probe_req->tags" ++ s) = 0) /\
    calls "libwifi_quick_add_tag" (skipn 11 body_libwifi_create_probe_req).
Proof.
  unfold body_libwifi_create_probe_req. cbn [firstn skipn]. gen_before.
Qed.

Theorem code_create_probe_req_second_add rho tr r2 :
  - 2 ^ 31 <= r2 < 2 ^ 31 ->
  let rho1 := upd rho "ret:libwifi_quick_add_tag" r2 in
  calls "libwifi_quick_add_tag" (skipn 15 body_libwifi_create_probe_req) /\
  observe (exec 10 m rho1 tr (skipn 15 body_libwifi_create_probe_req)) =
    Some (Some r2, (tr ++ [ev_add_tag rho "&probe_req->tags" c_TAG_DS_PARAMETER "&channel" 1])%list).
Proof.
  intros Hr rho1; nums. unfold rho1, body_libwifi_create_probe_req; clear rho1. cbn [firstn skipn].
  split; [reflexivity | ]. gen_observe.
Qed.

(* reassociation request: the current AP address is a fourth six-octet copy, into the fixed parameters *)
Theorem code_create_reassoc_req rho n r :
  0 <= n < 2 ^ 64 -> - 2 ^ 31 <= r < 2 ^ 31 ->
  let rho0 := upd (upd rho "ret:strlen" n) "ret:libwifi_quick_add_tag" r in
  exists rho',
    exec 40 m rho0 [] body_libwifi_create_reassoc_req =
      Returned (Some r) rho'
        (mgmt_events rho "reassoc_req" sizeof_libwifi_reassoc_req "receiver" "transmitter" "address3" ++
         [ev_memcpy rho "&reassoc_req->fixed_parameters.current_ap_address" "current_ap" 6;
          ("strlen", [wrap u64 (rho "ssid")]); ev_add_tag rho "&reassoc_req->tags" c_TAG_SSID "ssid" n] ++
         (if r =? 0 then [ev_add_tag rho "&reassoc_req->tags" c_TAG_DS_PARAMETER "&channel" 1] else [])) /\
    rho' "reassoc_req->frame_header.frame_control.type" = c_TYPE_MANAGEMENT /\
    rho' "reassoc_req->frame_header.frame_control.subtype" = c_SUBTYPE_REASSOC_REQ /\
    rho' "reassoc_req->fixed_parameters.capabilities_information" = c_LIBWIFI_DEFAULT_AP_CAPABS /\
    rho' "reassoc_req->fixed_parameters.listen_interval" = c_LIBWIFI_DEFAULT_LISTEN_INTERVAL /\
    reads_zero rho' "reassoc_req->frame_header." mgmt_rest /\
    untouched "reassoc_req->"
      ["reassoc_req->frame_header.frame_control.type"; "reassoc_req->frame_header.frame_control.subtype";
       "reassoc_req->fixed_parameters.capabilities_information"; "reassoc_req->fixed_parameters.listen_interval"]
      ["reassoc_req->frame_header.addr1"; "reassoc_req->frame_header.addr2"; "reassoc_req->frame_header.addr3";
       "reassoc_req->fixed_parameters.current_ap_address"; "reassoc_req->tags"] rho'.
Proof.
  intros Hn Hr rho0; nums. unfold rho0, body_libwifi_create_reassoc_req; clear rho0.
  gen_prefix. destruct (Z.eqb_spec r 0) as [E | N]; [subst r | ]; gen_finish.
Qed.

Theorem code_create_reassoc_req_before_add rho :
  exists rho1,
    exec 40 m rho [] (firstn 15 body_libwifi_create_reassoc_req) =
      Fell rho1 (mgmt_events rho "reassoc_req" sizeof_libwifi_reassoc_req "receiver" "transmitter" "address3" ++
                 [ev_memcpy rho "&reassoc_req->fixed_parameters.current_ap_address" "current_ap" 6; ("strlen", [wrap u64 (rho "ssid")])]) /\
    (forall s, rho1 ("reassoc_req->tags" ++ s) = 0) /\
    calls "libwifi_quick_add_tag" (skipn 15 body_libwifi_create_reassoc_req).
Proof.
  unfold body_libwifi_create_reassoc_req. cbn [firstn skipn]. gen_before.
Qed.

Theorem code_create_reassoc_req_second_add rho tr r2 :
  - 2 ^ 31 <= r2 < 2 ^ 31 ->
  let rho1 := upd rho "ret:libwifi_quick_add_tag" r2 in
  calls "libwifi_quick_add_tag" (skipn 19 body_libwifi_create_reassoc_req) /\
  observe (exec 10 m rho1 tr (skipn 19 body_libwifi_create_reassoc_req)) =
    Some (Some r2, (tr ++ [ev_add_tag rho "&reassoc_req->tags" c_TAG_DS_PARAMETER "&channel" 1])%list).
Proof.
  intros Hr rho1; nums. unfold rho1, body_libwifi_create_reassoc_req; clear rho1. cbn [firstn skipn].
  split; [reflexivity | ]. gen_observe.
Qed.

End WithMemory.

Print Assumptions code_create_assoc_req.
Print Assumptions code_create_assoc_req_before_add.
Print Assumptions code_create_assoc_req_second_add.
Print Assumptions code_create_probe_req.
Print Assumptions code_create_probe_req_before_add.
Print Assumptions code_create_probe_req_second_add.
Print Assumptions code_create_reassoc_req.
Print Assumptions code_create_reassoc_req_before_add.
Print Assumptions code_create_reassoc_req_second_add.
