(* The pass of ieee80211_radiotap_iterator_next AS TRANSLATED over bit 30 (IEEE80211_RADIOTAP_VENDOR_NAMESPACE) with no vendor
   namespace registered (vns = NULL, as libwifi calls it), executed by execg, for ALL values in range and every header buffer the
   memory holds: align 2 / size 6, the argument pointer rounded up to 2 relative to the header, -EINVAL when the six-octet vendor
   header would end beyond _max_length; OUI, sub-namespace and skip length LOADED from the six octets; find_ns (inlined) clears
   current_namespace and returns at once; _next_ns_data = behind the vendor data, size += skip length; the second bounds test;
   then case 30 of the second switch: _reset_on_ext = 1, is_radiotap_ns = 0, this_arg_index = 30, hit = 1 because no namespace is
   current, the jump into the same switch's default group (shifter >> 1, index + 1) and `if (hit) return 0`:
   the model's  Hit c_IEEE80211_RADIOTAP_VENDOR_NAMESPACE a  with  r_nnd := Some (a + 6 + skip), r_arg behind the vendor data. *)
From Coq Require Import ZArith String List Bool Lia.
From LW Require Import Base.Bytes Base.CExpr Base.CGoto Gen.Consts Gen.Sites Proofs.SitesLemmas Proofs.CodeSecurity
  Proofs.SitesRadiotapIter Proofs.CodeRadiotapNextPass Proofs.CodeRadiotapNextHit Proofs.CodeRadiotapNextReset
  Proofs.CodeRadiotapNextExt Proofs.CodeRadiotapNextSkip Model.Radiotap.
Import ListNotations.
Local Open Scope string_scope.
Local Open Scope Z_scope.

Lemma execg_inline_ret_none f m rho tr x body r rho1 tr1 :
  execg f m rho tr body = GReturned None rho1 tr1 ->
  execg (S f) m rho tr (SInline x body :: r) = execg f m rho1 tr1 r.
Proof. intros H. cbn [execg]. rewrite H. reflexivity. Qed.

Lemma execg_ret_none f m rho tr k r : execg (S f) m rho tr (SRet k None :: r) = GReturned None rho tr.
Proof. reflexivity. Qed.

Lemma execg_if_true_ret_none f m rho tr k c k' b r v :
  ceval rho m c = Some v -> v <> 0 ->
  execg (S (S f)) m rho tr (SIf k c [SRet k' None] b :: r) = GReturned None rho tr.
Proof. intros Hc Hv. cbn [execg]. rewrite Hc. destruct (Z.eqb_spec v 0); [contradiction | reflexivity]. Qed.

Definition find_ns_rest : list cstmt :=
  match nth 3 vendor_block SBreak with SInline _ b => skipn 2 b | _ => [] end.
Definition vnslen_call_args : list cexpr :=
  [CLoad (mkty false 16) (CBin OAdd (mkty true 64) (CVar (mkty false 64) "iterator->_arg") (CCast (mkty true 64) (CLit (mkty true 32) 4)))].
Lemma vendor_block_shape :
  vendor_block =
  [ SIf "if#7" (site NEXT "if#7") [SRet "ret#2" (Some (site NEXT "ret#2"))] [];
    SSet "set:oui#0" "oui" (site NEXT "set:oui#0");
    SSet "set:subns#0" "subns" (site NEXT "set:subns#0");
    SInline "ret$find_ns#0"
      (SSet "find_ns#0:set:iterator->current_namespace#0" "iterator->current_namespace" (site NEXT "find_ns#0:set:iterator->current_namespace#0") ::
       SIf "find_ns#0:if#0" (site NEXT "find_ns#0:if#0") [SRet "find_ns#0:ret#0" None] [] :: find_ns_rest);
    SCall "call:__uint16_identity#0" "__uint16_identity" vnslen_call_args;
    SSet "set:vnslen#0" "vnslen" (site NEXT "set:vnslen#0");
    SSet "set:iterator->_next_ns_data#0" "iterator->_next_ns_data" (site NEXT "set:iterator->_next_ns_data#0");
    SIf "if#8" (site NEXT "if#8") [SSet "upd:size#0" "size" (site NEXT "upd:size#0")] [] ].
Proof. reflexivity. Qed.
Global Opaque find_ns_rest vendor_block.

Section Vendor.
Variable m : memory.

Theorem rtnext_code_vendor_pass rho tr idx sh h buf a mx ns0 F :
  holds m h buf -> wfbytes buf ->
  rho "iterator->_arg_index" = idx -> rho "iterator->_bitmap_shifter" = sh -> rho "iterator->_arg" = h + a ->
  rho "iterator->_rtheader" = h -> rho "iterator->_max_length" = mx -> rho "iterator->_vns" = 0 ->
  rho "iterator->current_namespace" = ns0 ->
  0 <= idx < 2 ^ 31 - 1 -> idx mod 32 = c_IEEE80211_RADIOTAP_VENDOR_NAMESPACE -> 0 <= sh < 2 ^ 32 -> Z.odd sh = true ->
  0 <= h -> 0 <= a -> h + a + 70000 < 2 ^ 62 -> 0 <= mx < 2 ^ 31 -> mx <= zlen buf -> 0 <= ns0 < 2 ^ 64 ->
  let a2 := aligned a 2 in let vl := le16 buf (a2 + 4) in
  if mx <? a2 + 6 then
    exists rho', execg (80 + F) m rho tr body_ieee80211_radiotap_iterator_next = GReturned (Some (- EINVAL)) rho' tr
  else if mx <? a2 + (6 + vl) then
    exists rho' tr', execg (80 + F) m rho tr body_ieee80211_radiotap_iterator_next = GReturned (Some (- EINVAL)) rho' tr'
  else
    exists rho' tr', execg (80 + F) m rho tr body_ieee80211_radiotap_iterator_next = GReturned (Some 0) rho' tr' /\
      rho' "iterator->this_arg_index" = c_IEEE80211_RADIOTAP_VENDOR_NAMESPACE /\ rho' "iterator->this_arg" = h + a2 /\
      rho' "iterator->this_arg_size" = 6 + vl /\ rho' "iterator->_arg" = h + (a2 + (6 + vl)) /\
      rho' "iterator->_next_ns_data" = h + (a2 + 6 + vl) /\ rho' "iterator->current_namespace" = 0 /\
      rho' "iterator->_reset_on_ext" = 1 /\ rho' "iterator->is_radiotap_ns" = 0 /\
      rho' "iterator->_bitmap_shifter" = Z.shiftr sh 1 /\ rho' "iterator->_arg_index" = idx + 1.
Proof.
  intros Hm Hwf Hi Hs Ha Hh Hmx Hvns Hns Ri Hbit Rs Hodd Rh Ra Rb Rm Rml Rns a2 vl.
  change c_IEEE80211_RADIOTAP_VENDOR_NAMESPACE with 30 in *.
  pose proof (Z.mod_pos_bound a 2 ltac:(lia)) as Rpad.
  assert (Ra2 : a <= a2 <= a + 2) by (unfold a2, aligned; destruct (a mod 2 =? 0); lia).
  set (r0 := locals0 rho).
  destruct (site_rtnext_if0 m r0 idx sh Hi Hs ltac:(nums; lia) Rs) as (Hc0 & _).
  rewrite Hodd in Hc0. rewrite andb_false_r in Hc0. cbn [b2z] in Hc0.
  pose proof (site_rtnext_if1 m r0 sh Hs Rs) as Hc1. rewrite Hodd in Hc1. cbn [negb b2z] in Hc1.
  destruct (site_rtnext_switch m r0 idx Hi ltac:(nums; lia)) as (Hsw0 & _). rewrite Hbit in Hsw0.
  set (r2 := upd (upd r0 "align" 2) "size" 6).
  pose proof (site_rtnext_pad_mod m r2 h a 2 Hh Ha eq_refl Rh Ra ltac:(nums; lia) ltac:(cbn [In]; tauto)) as Hpad.
  set (r3 := upd r2 "pad" (a mod 2)).
  destruct (site_rtnext_if5_arg m r3 h a 2 (a mod 2) Ha eq_refl eq_refl Rh Ra ltac:(nums; lia) Rpad ltac:(nums; lia)) as (Hc5 & Hu5).
  set (r4 := if a mod 2 =? 0 then r3 else upd r3 "iterator->_arg" (h + (a + (2 - a mod 2)))).
  assert (Ha4 : r4 "iterator->_arg" = h + a2).
  { unfold r4, a2, aligned. destruct (a mod 2 =? 0); [exact Ha | reflexivity]. }
  assert (Hkeep : forall y, y <> "iterator->_arg" -> r4 y = r3 y).
  { intros y Hy. unfold r4. destruct (a mod 2 =? 0); [reflexivity | ]. unfold upd at 1.
    destruct (String.eqb_spec y "iterator->_arg"); [contradiction | reflexivity]. }
  assert (Hi4 : r4 "iterator->_arg_index" = idx) by (rewrite Hkeep by discriminate; exact Hi).
  assert (Hs4 : r4 "size" = 6) by (rewrite Hkeep by discriminate; reflexivity).
  assert (Hh4 : r4 "iterator->_rtheader" = h) by (rewrite Hkeep by discriminate; exact Hh).
  assert (Hm4 : r4 "iterator->_max_length" = mx) by (rewrite Hkeep by discriminate; exact Hmx).
  assert (Hv4 : r4 "iterator->_vns" = 0) by (rewrite Hkeep by discriminate; exact Hvns).
  assert (Hsh4 : r4 "iterator->_bitmap_shifter" = sh) by (rewrite Hkeep by discriminate; exact Hs).
  destruct (site_rtnext_switch m r4 idx Hi4 ltac:(nums; lia)) as (_ & _ & Hc6). rewrite Hbit in Hc6.
  change (30 =? c_IEEE80211_RADIOTAP_VENDOR_NAMESPACE) with true in Hc6. cbn [b2z] in Hc6.
  destruct (site_rtnext_if7 m r4 h a2 6 mx Hh4 Ha4 Hs4 Hm4 Rh ltac:(lia) ltac:(nums; lia) ltac:(nums; lia) Rm) as (Hc7 & Hr7).
  assert (Hprefix : forall G, execg (S (S (S (S (S (S (S (S G)))))))) m rho tr rtnext_loop_body = execg (S G) m r0 tr rtnext_tail7).
  { intros G. rewrite rtnext_loop_body_head.
    do 5 (rewrite execg_set with (v := 0) by reflexivity). fold (locals0 rho). fold r0.
    rewrite execg_if_skip by exact Hc0. rewrite execg_if_skip by exact Hc1. reflexivity. }
  (* up to the vendor block *)
  assert (Hmid1 : forall G r, execg (S (S (S (S (S G))))) m r0 tr
                     (rtnext_switch0 :: SSet "set:pad#0" "pad" (site NEXT "set:pad#0") ::
                      SIf "if#5" (site NEXT "if#5") [SSet "upd:iterator->_arg#0" "iterator->_arg" (site NEXT "upd:iterator->_arg#0")] [] :: r)
                   = execg (S (S G)) m r4 tr r).
  { intros G r. rewrite rtnext_switch0_shape.
    rewrite (execg_switch_broke _ m r0 tr _ _ _ _ _ 30 r2 tr Hsw0).
    2:{ change (pick_case 30 _ _) with rtnext_case_vendor. unfold rtnext_case_vendor.
        rewrite execg_set with (v := 2) by reflexivity. rewrite execg_set with (v := 6) by reflexivity. apply execg_break. }
    rewrite execg_set with (v := a mod 2) by exact Hpad. fold r3.
    unfold r4. destruct (Z.eqb_spec (a mod 2) 0) as [E | E].
    - rewrite execg_if_skip by (rewrite Hc5, E; reflexivity). reflexivity.
    - rewrite (execg_if_true_fell _ m r3 tr _ _ _ _ _ (a mod 2) (upd r3 "iterator->_arg" (h + (a + (2 - a mod 2)))) tr Hc5 E).
      + reflexivity.
      + rewrite execg_set with (v := h + (a + (2 - a mod 2))) by exact Hu5. apply execg_nil. }
  destruct (Z.ltb_spec mx (a2 + 6)) as [Hover | Hin]; cbn [b2z] in Hc7.
  - exists r4. cbn [Nat.add]. apply rtnext_pass_returns. rewrite Hprefix, rtnext_tail7_shape, Hmid1.
    apply (execg_if_true_returned _ m r4 tr _ _ _ _ _ 1 (Some (- EINVAL)) r4 tr Hc6 ltac:(discriminate)).
    rewrite vendor_block_shape.
    apply execg_if_ret with (v := 1) (w := - EINVAL); [exact Hc7 | discriminate | exact Hr7].
  - (* the vendor header is inside _max_length: its six octets are loaded *)
    assert (Hfit : a2 + 6 <= zlen buf) by lia.
    destruct (site_rtnext_vendor_loads m r4 h buf a2 Hm Hwf Ha4 Rh ltac:(lia) ltac:(nums; lia) Hfit) as (Ho & _).
    set (r5 := upd r4 "oui" (Z.lor (Z.lor (znth buf a2 * 2 ^ 16) (znth buf (a2 + 1) * 2 ^ 8)) (znth buf (a2 + 2)))).
    destruct (site_rtnext_vendor_loads m r5 h buf a2 Hm Hwf Ha4 Rh ltac:(lia) ltac:(nums; lia) Hfit) as (_ & Hsb & _).
    set (r6 := upd r5 "subns" (znth buf (a2 + 3))).
    destruct (site_rtnext_find_ns m r6 0 Hv4 ltac:(nums; lia)) as (Hf1 & _).
    set (r7 := upd r6 "iterator->current_namespace" 0).
    destruct (site_rtnext_find_ns m r7 0 Hv4 ltac:(nums; lia)) as (_ & Hf2). cbn [Z.eqb b2z] in Hf2.
    pose proof (le16_range buf (a2 + 4) Hwf ltac:(lia) ltac:(lia)) as Rvl. fold vl in Rvl.
    assert (Hld : evals r7 m vnslen_call_args = Some [vl]).
    { unfold vnslen_call_args. cbv beta iota zeta delta [evals ceval binop].
      change (r7 "iterator->_arg") with (r4 "iterator->_arg"). rewrite Ha4. nums.
      wrap_ids. cbv beta iota. rewrite ?arith_s64 by lia. cbv beta iota. wrap_ids.
      replace (h + a2 + 4) with (h + (a2 + 4)) by lia.
      rewrite (ld16 m h buf) by (assumption || lia). cbv beta iota. wrap_ids. reflexivity. }
    destruct (site_rtnext_vendor_loads m r7 h buf a2 Hm Hwf Ha4 Rh ltac:(lia) ltac:(nums; lia) Hfit) as (_ & _ & Hvl). fold vl in Hvl.
    set (r8 := upd r7 "vnslen" vl).
    destruct (site_rtnext_vendor_sizes m r8 h a2 6 vl 0 Ha4 Hs4 eq_refl eq_refl Rh ltac:(lia) ltac:(nums; lia) ltac:(nums; lia)
                ltac:(nums; lia) ltac:(nums; lia)) as (Hnn & _).
    set (r9 := upd r8 "iterator->_next_ns_data" (h + (a2 + 6 + vl))).
    destruct (site_rtnext_vendor_sizes m r9 h a2 6 vl 0 Ha4 Hs4 eq_refl eq_refl Rh ltac:(lia) ltac:(nums; lia) ltac:(nums; lia)
                ltac:(nums; lia) ltac:(nums; lia)) as (_ & Hc8 & Hus). cbn [Z.eqb b2z] in Hc8.
    set (r10 := upd r9 "size" (6 + vl)).
    set (tr1 := (tr ++ [("__uint16_identity", [vl])])%list).
    assert (Hblock : forall G, execg (S (S (S (S (S (S (S (S (S (S G)))))))))) m r4 tr vendor_block = GFell r10 tr1).
    { intros G. rewrite vendor_block_shape.
      rewrite execg_if_skip by exact Hc7.
      rewrite execg_set with (v := Z.lor (Z.lor (znth buf a2 * 2 ^ 16) (znth buf (a2 + 1) * 2 ^ 8)) (znth buf (a2 + 2))) by exact Ho. fold r5.
      rewrite execg_set with (v := znth buf (a2 + 3)) by exact Hsb. fold r6.
      rewrite (execg_inline_ret_none _ m r6 tr _ _ _ r7 tr).
      2:{ rewrite execg_set with (v := 0) by exact Hf1. fold r7.
          apply execg_if_true_ret_none with (v := 1); [exact Hf2 | discriminate]. }
      rewrite execg_call with (vs := [vl]) by exact Hld. fold tr1.
      rewrite execg_set with (v := vl) by exact Hvl. fold r8.
      rewrite execg_set with (v := h + (a2 + 6 + vl)) by exact Hnn. fold r9.
      rewrite (execg_if_true_fell _ m r9 tr1 _ _ _ _ _ 1 r10 tr1 Hc8 ltac:(discriminate)).
      - apply execg_nil.
      - rewrite execg_set with (v := 6 + vl) by exact Hus. apply execg_nil. }
    (* the argument handed out and the second bounds test *)
    assert (Ha10 : r10 "iterator->_arg" = h + a2) by exact Ha4.
    assert (Hi10 : r10 "iterator->_arg_index" = idx) by exact Hi4.
    destruct (site_rtnext_this_arg m r10 h a2 (6 + vl) idx Ha10 eq_refl Hi10 Rh ltac:(lia) ltac:(nums; lia) ltac:(nums; lia) ltac:(nums; lia))
      as (Ht1 & _).
    set (r11 := upd r10 "iterator->this_arg_index" idx).
    destruct (site_rtnext_this_arg m r11 h a2 (6 + vl) idx Ha10 eq_refl Hi10 Rh ltac:(lia) ltac:(nums; lia) ltac:(nums; lia) ltac:(nums; lia))
      as (_ & Ht2 & _).
    set (r12 := upd r11 "iterator->this_arg" (h + a2)).
    destruct (site_rtnext_this_arg m r12 h a2 (6 + vl) idx Ha10 eq_refl Hi10 Rh ltac:(lia) ltac:(nums; lia) ltac:(nums; lia) ltac:(nums; lia))
      as (_ & _ & Ht3 & _).
    set (r13 := upd r12 "iterator->this_arg_size" (6 + vl)).
    destruct (site_rtnext_this_arg m r13 h a2 (6 + vl) idx Ha10 eq_refl Hi10 Rh ltac:(lia) ltac:(nums; lia) ltac:(nums; lia) ltac:(nums; lia))
      as (_ & _ & _ & Ht4).
    set (r14 := upd r13 "iterator->_arg" (h + (a2 + (6 + vl)))).
    destruct (site_rtnext_if9 m r14 h (a2 + (6 + vl)) mx Hh4 eq_refl Hm4 Rh ltac:(lia) ltac:(nums; lia) Rm) as (Hc9 & Hr9).
    assert (Hmid2 : forall G, execg (S (S (S (S (S (S (S (S (S (S (S (S (S (S (S (S (S (S (S (S G)))))))))))))))))))) m r0 tr rtnext_tail7 =
                              execg (S (S (S (S (S (S (S (S (S (S (S (S G)))))))))))) m r14 tr1
                                [SIf "if#9" (site NEXT "if#9") [SRet "ret#3" (Some (site NEXT "ret#3"))] []; rtnext_switch1;
                                 SIf "if#12" (site NEXT "if#12") [SRet "ret#4" (Some (site NEXT "ret#4"))] []]).
    { intros G. rewrite rtnext_tail7_shape, Hmid1.
      rewrite (execg_if_true_fell _ m r4 tr _ _ _ _ _ 1 r10 tr1 Hc6 ltac:(discriminate) (Hblock _)).
      rewrite execg_set with (v := idx) by exact Ht1. fold r11.
      rewrite execg_set with (v := h + a2) by exact Ht2. fold r12.
      rewrite execg_set with (v := 6 + vl) by exact Ht3. fold r13.
      rewrite execg_set with (v := h + (a2 + (6 + vl))) by exact Ht4. fold r14. reflexivity. }
    destruct (Z.ltb_spec mx (a2 + (6 + vl))) as [Hover2 | Hin2]; cbn [b2z] in Hc9.
    + exists r14, tr1. cbn [Nat.add]. apply rtnext_pass_returns. rewrite Hprefix, Hmid2.
      apply execg_if_ret with (v := 1) (w := - EINVAL); [exact Hc9 | discriminate | exact Hr9].
    + destruct (site_rtnext_switch m r14 idx Hi4 ltac:(nums; lia)) as (_ & Hsw1 & _). rewrite Hbit in Hsw1.
      destruct (site_rtnext_vendor_case m r14 0 eq_refl ltac:(nums; lia)) as (Hw1 & _).
      set (r15 := upd r14 "iterator->_reset_on_ext" 1).
      destruct (site_rtnext_vendor_case m r15 0 eq_refl ltac:(nums; lia)) as (_ & Hw2 & _).
      set (r16 := upd r15 "iterator->is_radiotap_ns" 0).
      destruct (site_rtnext_vendor_case m r16 0 eq_refl ltac:(nums; lia)) as (_ & _ & Hw3 & _).
      set (r17 := upd r16 "iterator->this_arg_index" 30).
      destruct (site_rtnext_vendor_case m r17 0 eq_refl ltac:(nums; lia)) as (_ & _ & _ & Hw4 & Hw5). cbn [Z.eqb b2z] in Hw4.
      set (r18 := upd r17 "hit" 1).
      destruct (site_rtnext_next_entry m r18 sh idx Hsh4 Hi4 Rs ltac:(nums; lia)) as (_ & Hsh & _).
      set (r19 := upd r18 "iterator->_bitmap_shifter" (Z.shiftr sh 1)).
      assert (Rs1 : 0 <= Z.shiftr sh 1 < 2 ^ 32).
      { rewrite Z.shiftr_div_pow2 by lia. change (2 ^ 1) with 2. nums. split; [apply Z.div_pos; lia | apply Z.div_lt_upper_bound; lia]. }
      destruct (site_rtnext_next_entry m r19 (Z.shiftr sh 1) idx eq_refl Hi4 Rs1 ltac:(nums; lia)) as (_ & _ & Hix).
      set (r20 := upd r19 "iterator->_arg_index" (idx + 1)).
      destruct (site_rtnext_if12 m r20 1 eq_refl ltac:(nums; lia)) as (Hc12 & Hr12).
      exists r20, tr1. split; [ | repeat split; reflexivity].
      cbn [Nat.add]. apply rtnext_pass_returns. rewrite Hprefix, Hmid2.
      rewrite execg_if_skip by exact Hc9.
      rewrite rtnext_switch1_shape.
      rewrite (execg_switch_jump_self _ m r14 tr1 _ _ _ _ _ 30 "next_entry" r18 tr1 next_entry_tail r20 tr1 Hsw1).
      * apply execg_if_ret with (v := 1) (w := 0); [exact Hc12 | discriminate | exact Hr12].
      * change (pick_case 30 _ _) with rtnext_case2_vendor. unfold rtnext_case2_vendor.
        rewrite execg_set with (v := 1) by exact Hw1. fold r15.
        rewrite execg_set with (v := 0) by exact Hw2. fold r16.
        rewrite execg_set with (v := 30) by exact Hw3. fold r17.
        rewrite (execg_if_true_fell _ m r17 tr1 _ _ _ _ _ 1 r18 tr1 Hw4 ltac:(discriminate)).
        -- apply execg_goto_next_entry.
        -- rewrite execg_set with (v := 1) by exact Hw5. apply execg_nil.
      * exact after_label_case2_default.
      * unfold next_entry_tail.
        rewrite execg_set with (v := Z.shiftr sh 1) by exact Hsh. fold r19.
        rewrite execg_set with (v := idx + 1) by exact Hix. apply execg_nil.
Qed.
End Vendor.

Print Assumptions rtnext_code_vendor_pass.
