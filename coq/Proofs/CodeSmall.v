(* The remaining small routines AS TRANSLATED (Gen/Sites.v): libwifi_parse_data, libwifi_random_mac, libwifi_handle_ssid_tag,
   libwifi_bss_handle_rsn_tag, libwifi_bss_handle_msft_tag. *)
From Coq Require Import ZArith String Ascii List Bool Lia.
From LW Require Import Base.Bytes Base.CExpr Gen.Sites Spec.CodeSpec Proofs.SitesLemmas Proofs.CodeIter Proofs.CodeSecurity.
From LW Require Import Proofs.CodeMgmtDefs Proofs.CodeRelease.
Import ListNotations.
Local Open Scope string_scope.
Local Open Scope Z_scope.

Ltac ev := ceval_env; repeat (progress (wrap_ids; cbv beta iota)); reflexivity.
Ltac sstep :=
  first [ erewrite exec_set by ev | erewrite exec_call by ev | erewrite exec_ret by ev
        | rewrite exec_nil | rewrite exec_zero | rewrite exec_clobber | rewrite exec_break
        | erewrite exec_if_gen by ev ].
Ltac srun := repeat (sstep; decide_bools; cbv beta iota).

Lemma land_2 x : Z.land x 2 = if Z.testbit x 1 then 2 else 0.
Proof. change 2 with (2 ^ 1) at 1. rewrite land_pow2 by lia. reflexivity. Qed.

(* flags & (1 << 1), computed in int on the promoted uint16_t *)
Lemma ceval_qos_flag R m :
  ceval R m (CBin OAnd (mkty true 32) (CCast (mkty true 32) (CVar (mkty false 16) "frame->flags"))
                  (CBin OShl (mkty true 32) (CLit (mkty true 32) 1) (CLit (mkty true 32) 1)))
  = Some (if Z.testbit (wrap (mkty false 16) (R "frame->flags")) 1 then 2 else 0).
Proof.
  pose proof (wrap_u16_range (R "frame->flags")). ceval_env. wrap_ids. decide_bools. cbn [orb]. change (1 * 2 ^ 1) with 2. wrap_ids. cbv beta iota.
  rewrite land_2. destruct (Z.testbit _ 1); wrap_ids; reflexivity.
Qed.

(* ================================================================ B. libwifi_parse_data *)
Definition data_env (rho : env) (ty fl len hl b : Z) : env :=
  upd (upd (upd (upd (upd rho "frame->frame_control.type" ty) "frame->flags" fl) "frame->len" len) "frame->header_len" hl) "frame->body" b.

(* receiver and transmitter out of the header union: the QoS or the plain data view *)
Definition data_copies (rho : env) (qos : bool) : list event :=
  if qos
  then [("memcpy", [wrap u64 (rho "&data->receiver"); wrap u64 (rho "&frame->header.data_qos.addr1"); 6]);
        ("memcpy", [wrap u64 (rho "&data->transmitter"); wrap u64 (rho "&frame->header.data_qos.addr2"); 6])]
  else [("memcpy", [wrap u64 (rho "&data->receiver"); wrap u64 (rho "&frame->header.data.addr1"); 6]);
        ("memcpy", [wrap u64 (rho "&data->transmitter"); wrap u64 (rho "&frame->header.data.addr2"); 6])].

Ltac pd_leaf := eexists; split; [ srun; reflexivity | ]; env_simpl; split; (wrap_ids; first [ reflexivity | lia ]).

Theorem code_parse_data rho ty fl len hl b q m :
  0 <= ty < 2 ^ 31 -> 0 <= fl < 65536 -> 0 <= hl <= len -> len < 2 ^ 64 -> 0 <= b < 2 ^ 64 ->
  rho "ret:malloc" = q -> 0 <= q < 2 ^ 64 ->
  let n := len - hl in
  let qos := Z.testbit fl 1 in
  let t0 := [("memset", [wrap u64 (rho "data"); 0; 32])] in
  let t1 := (t0 ++ data_copies rho qos)%list in
  let res := exec 40 m (data_env rho ty fl len hl b) [] body_libwifi_parse_data in
  if negb (ty =? 2) then
    exists rho', res = Returned (Some (-22)) rho' t0 /\ rho' "data->body" = 0 /\ rho' "data->body_len" = 0
  else if n =? 0 then
    exists rho', res = Returned (Some 0) rho' t1 /\ rho' "data->body" = 0 /\ rho' "data->body_len" = 0
  else if q =? 0 then
    exists rho', res = Returned (Some (-12)) rho' (t1 ++ [("malloc", [n])])%list /\ rho' "data->body" = 0 /\ rho' "data->body_len" = n
  else
    exists rho', res = Returned (Some 0) rho' (t1 ++ [("malloc", [n]); ("memcpy", [q; b; n])])%list /\
                 rho' "data->body" = q /\ rho' "data->body_len" = n.
Proof.
  intros Hty Hfl Hhl Hlen Hb Hq Hq0 n qos t0 t1 res. subst n qos t0 t1 res. CodeRelease.nums.
  unfold body_libwifi_parse_data, data_env, data_copies.
  destruct (Z.eqb_spec ty 2) as [Ety | Nty]; cbn [negb].
  2:{ eexists. split; [ srun; reflexivity | ]. env_simpl. split; reflexivity. }
  srun.
  assert (Hfv : wrap (mkty false 16) fl = fl) by (apply wrap_u16_id; lia).
  subst q.
  destruct (Z.testbit fl 1) eqn:Hbit.
  - rewrite exec_if_true with (v := 2); [ | rewrite ceval_qos_flag; env_simpl; rewrite Hfv, Hbit; reflexivity | discriminate ].
    destruct (Z.eqb_spec (len - hl) 0) as [En | Nn]; [ | destruct (Z.eqb_spec (rho "ret:malloc") 0) as [Eq | Nq] ].
    + pd_leaf.
    + pd_leaf.
    + pd_leaf.
  - rewrite exec_if_false; [ | rewrite ceval_qos_flag; env_simpl; rewrite Hfv, Hbit; reflexivity ].
    destruct (Z.eqb_spec (len - hl) 0) as [En | Nn]; [ | destruct (Z.eqb_spec (rho "ret:malloc") 0) as [Eq | Nq] ].
    + pd_leaf.
    + pd_leaf.
    + pd_leaf.
Qed.

(* ================================================================ C. libwifi_random_mac
   void libwifi_random_mac(unsigned char buf[6], unsigned char prefix[3]): the block is cleared; with a prefix, its 3 octets are
   copied to the head and getrandom is asked for exactly the remaining 3 octets at buf + 3; without, for all 6 at buf.  The
   routine returns nothing: the answer of getrandom is not looked at (a failing getrandom leaves the zeroed octets). *)
Definition mac_trace (buf p : Z) : list event :=
  ("memset", [buf; 0; 6]) ::
  (if p =? 0 then [("getrandom", [buf; 6; 0])] else [("memcpy", [buf; p; 3]); ("getrandom", [buf + 3; 3; 0])]).

Theorem code_random_mac rho buf p m :
  0 <= buf -> buf + 6 < 2 ^ 63 -> 0 <= p < 2 ^ 64 ->
  let rho0 := upd (upd rho "buf" buf) "prefix" p in
  exec 10 m rho0 [] body_libwifi_random_mac = Fell rho0 (mac_trace buf p).
Proof.
  intros Hb Hend Hp rho0. subst rho0. CodeRelease.nums. unfold body_libwifi_random_mac, mac_trace.
  destruct (Z.eqb_spec p 0) as [E | N]; srun; reflexivity.
Qed.

(* where a call of the trace writes: memset(d, c, n) and memcpy(d, s, n) write [d, d + n), getrandom(d, n, flags) writes [d, d + n) *)
Definition write_range (ev : event) : option (Z * Z) :=
  match ev with
  | (f, [d; a; b]) =>
      if String.eqb f "memset" || String.eqb f "memcpy" then Some (d, b)
      else if String.eqb f "getrandom" then Some (d, a) else None
  | _ => None
  end.
Definition writes_inside (lo hi : Z) (tr : list event) : Prop :=
  Forall (fun ev => match write_range ev with Some (d, n) => lo <= d /\ 0 <= n /\ d + n <= hi | None => False end) tr.

(* every call of the run writes inside [buf, buf + 6); the prefix copy and the random octets tile the block: [buf, buf + 3) then
   [buf + 3, buf + 6), or the random octets alone fill [buf, buf + 6) *)
Corollary code_random_mac_writes rho buf p m :
  0 <= buf -> buf + 6 < 2 ^ 63 -> 0 <= p < 2 ^ 64 ->
  exists tr, observe (exec 10 m (upd (upd rho "buf" buf) "prefix" p) [] body_libwifi_random_mac) = Some (None, tr) /\
    writes_inside buf (buf + 6) tr /\
    (p = 0 -> tr = [("memset", [buf; 0; 6]); ("getrandom", [buf; 6; 0])]) /\
    (p <> 0 -> tr = [("memset", [buf; 0; 6]); ("memcpy", [buf; p; 3]); ("getrandom", [buf + 3; 3; 0])] /\ (buf + 3) + 3 = buf + 6).
Proof.
  intros Hb Hend Hp. rewrite (code_random_mac rho buf p m Hb Hend Hp). cbn [observe]. eexists. split; [ reflexivity | ].
  unfold mac_trace, writes_inside.
  destruct (Z.eqb_spec p 0) as [E | N].
  - split; [ repeat constructor; cbn; lia | ]. split; [ reflexivity | contradiction ].
  - split; [ repeat constructor; cbn; lia | ]. split; [ contradiction | ]. intros _. split; [ reflexivity | lia ].
Qed.

(* ================================================================ D. the element handlers of the bss / sta tag parsers *)
Lemma land_u32_range a b : 0 <= a -> 0 <= b < 4294967296 -> 0 <= Z.land a b < 4294967296.
Proof.
  intros Ha Hb. assert (H0 : 0 <= Z.land a b) by (apply Z.land_nonneg; lia).
  split; [ exact H0 | ].
  destruct (Z.eq_dec (Z.land a b) 0) as [E | E]; [ lia | ].
  change 4294967296 with (2 ^ 32). apply Z.log2_lt_pow2; [ lia | ].
  pose proof (Z.log2_land a b Ha (proj1 Hb)) as Hl.
  assert (Lb : Z.log2 b < 32).
  { destruct (Z.eq_dec b 0) as [-> | Nb]; [ cbn; lia | ]. apply Z.log2_lt_pow2; [ lia | ]. change (2 ^ 32) with 4294967296. lia. }
  lia.
Qed.

Lemma lor_u64_range a b : 0 <= a < 18446744073709551616 -> 0 <= b < 18446744073709551616 -> 0 <= Z.lor a b < 18446744073709551616.
Proof.
  intros Ha Hb. assert (H0 : 0 <= Z.lor a b) by (apply Z.lor_nonneg; lia).
  split; [ exact H0 | ].
  destruct (Z.eq_dec (Z.lor a b) 0) as [E | E]; [ lia | ].
  change 18446744073709551616 with (2 ^ 64). apply Z.log2_lt_pow2; [ lia | ].
  rewrite (Z.log2_lor a b) by lia.
  assert (La : Z.log2 a < 64).
  { destruct (Z.eq_dec a 0) as [-> | Na]; [ cbn; lia | ]. apply Z.log2_lt_pow2; [ lia | ]. change (2 ^ 64) with 18446744073709551616. lia. }
  assert (Lb : Z.log2 b < 64).
  { destruct (Z.eq_dec b 0) as [-> | Nb]; [ cbn; lia | ]. apply Z.log2_lt_pow2; [ lia | ]. change (2 ^ 64) with 18446744073709551616. lia. }
  lia.
Qed.

(* bss->encryption_info &= ~(unsigned int) WEP, guarded by the WEP bit: Model/Security.v clear_wep.  The complement is taken in
   32 bits and zero-extended: when the WEP bit is set, the bits 32..63 of the 64-bit member are cleared as well. *)
Definition clear_wep (e : Z) : Z := if Z.land e 2 =? 0 then e else Z.land e 4294967293.

Lemma clear_wep_model e : clear_wep e = LW.Model.Security.clear_wep e.
Proof. reflexivity. Qed.

Lemma clear_wep_range e : 0 <= e < 18446744073709551616 -> 0 <= clear_wep e < 18446744073709551616.
Proof.
  intros He. unfold clear_wep. destruct (Z.land e 2 =? 0); [ exact He | ].
  pose proof (land_u32_range e 4294967293 ltac:(lia) ltac:(lia)). lia.
Qed.

(* the guard  bss->encryption_info & (1ULL << 1)  and the masked value *)
Definition wep_test : cexpr :=
  CBin OAnd (mkty false 64) (CCast (mkty false 64) (CVar (mkty false 64) "bss->encryption_info"))
       (CBin OShl (mkty false 64) (CLit (mkty false 64) 1) (CLit (mkty true 32) 1)).
Definition wep_cleared : cexpr :=
  CCast (mkty false 64) (CBin OAnd (mkty false 64) (CCast (mkty false 64) (CVar (mkty false 64) "bss->encryption_info"))
       (CCast (mkty false 64) (CUn UNot (mkty false 32) (CCast (mkty false 32) (CBin OShl (mkty false 64) (CLit (mkty false 64) 1) (CLit (mkty true 32) 1)))))).

Lemma ceval_wep_test R m e : R "bss->encryption_info" = e -> 0 <= e < 18446744073709551616 ->
  ceval R m wep_test = Some (Z.land e 2).
Proof.
  intros HR He. unfold wep_test. ceval_unfold. rewrite HR. wrap_ids. decide_bools. cbn [orb]. change (1 * 2 ^ 1) with 2. wrap_ids.
  cbv beta iota. pose proof (land_u32_range e 2 ltac:(lia) ltac:(lia)). wrap_ids. reflexivity.
Qed.

Lemma ceval_wep_cleared R m e : R "bss->encryption_info" = e -> 0 <= e < 18446744073709551616 ->
  ceval R m wep_cleared = Some (Z.land e 4294967293).
Proof.
  intros HR He. unfold wep_cleared. ceval_unfold. rewrite HR. wrap_ids. decide_bools. cbn [orb]. change (1 * 2 ^ 1) with 2. wrap_ids.
  cbv beta iota. wrap_ids.
  change (wrap (mkty false 32) (Z.lnot 2)) with 4294967293. wrap_ids.
  pose proof (land_u32_range e 4294967293 ltac:(lia) ltac:(lia)). wrap_ids. reflexivity.
Qed.

(* the conditional clearing, as one step: whatever follows runs with encryption_info = clear_wep e *)
Lemma exec_clear_wep f m rho tr k k' r e :
  rho "bss->encryption_info" = e -> 0 <= e < 18446744073709551616 ->
  exec (S (S (S f))) m rho tr (SIf k wep_test [SSet k' "bss->encryption_info" wep_cleared] [] :: r) =
  exec (S (S f)) m (if Z.land e 2 =? 0 then rho else upd rho "bss->encryption_info" (clear_wep e)) tr r.
Proof.
  intros HR He. unfold clear_wep. destruct (Z.eqb_spec (Z.land e 2) 0) as [E | N].
  - rewrite exec_if_false by (rewrite (ceval_wep_test rho m e HR He), E; reflexivity). rewrite exec_nil. reflexivity.
  - rewrite exec_if_true with (v := Z.land e 2) by (first [ exact N | exact (ceval_wep_test rho m e HR He) ]).
    rewrite (exec_set _ m rho tr k' _ _ _ _ (ceval_wep_cleared rho m e HR He)). rewrite exec_nil. reflexivity.
Qed.

(* ---------------------------------------------------------------- libwifi_bss_handle_rsn_tag *)
Theorem code_bss_handle_rsn_tag rho e d len m :
  0 <= e < 2 ^ 64 -> 0 <= d < 2 ^ 63 -> - 2 ^ 31 <= len < 2 ^ 31 -> d + len < 2 ^ 63 ->
  let rho0 := upd (upd (upd rho "bss->encryption_info" e) "rsn_data" d) "rsn_len" len in
  let r := wrap s32 (rho "ret:libwifi_get_rsn_info") in
  let c1 := ("libwifi_get_rsn_info", [wrap u64 (rho "&rsn_info"); d; d + len]) in
  let res := exec 40 m rho0 [] body_libwifi_bss_handle_rsn_tag in
  exists rho', rho' "bss->encryption_info" = clear_wep e /\
    if len <? 6 then res = Returned (Some (-22)) rho' []
    else if negb (r =? 0) then res = Returned (Some (-22)) rho' [c1]
    else res = Returned (Some 0) rho' [c1; ("libwifi_enumerate_rsn_suites", [wrap u64 (rho "&rsn_info"); wrap u64 (rho "bss")]);
                                       ("memcpy", [wrap u64 (rho "&bss->rsn_info"); wrap u64 (rho "&rsn_info"); 64])].
Proof.
  intros He Hd Hlen Hend rho0 r c1 res. subst rho0 r c1 res. CodeRelease.nums.
  unfold body_libwifi_bss_handle_rsn_tag. fold wep_test. fold wep_cleared.
  rewrite (exec_clear_wep _ m _ _ _ _ _ e) by (first [ reflexivity | exact He ]).
  unfold clear_wep, s32.
  destruct (Z.eqb_spec (Z.land e 2) 0) as [Ew | Nw];
    (destruct (Z.ltb_spec len 6) as [Hs | Hl];
     [ | destruct (Z.eqb_spec (wrap (mkty true 32) (rho "ret:libwifi_get_rsn_info")) 0) as [Er | Nr]; cbn [negb] ]);
    (eexists; split; [ | srun; reflexivity ]; env_simpl; reflexivity).
Qed.

(* ---------------------------------------------------------------- libwifi_bss_handle_msft_tag *)
Lemma wrap_s8_byte t : 0 <= t < 256 -> wrap (mkty true 8) t = if t <? 128 then t else t - 256.
Proof.
  intros Ht. unfold wrap, modulus, tmax; cbn [c_signed c_bits]. change (2 ^ 8) with 256. change (2 ^ (8 - 1) - 1) with 127.
  rewrite Z.mod_small by lia. destruct (Z.leb_spec t 127); destruct (Z.ltb_spec t 128); lia.
Qed.

(* the type octet of the vendor header, read as the C code reads it: a (signed) char promoted to int *)
Definition msft_type_expr : cexpr :=
  CCast (mkty true 32) (CLoad (mkty true 8) (CBin OAdd s64 (CVar (mkty false 64) "vendor_header") (CLit s64 3))).

Lemma ceval_msft_type R a buf :
  wfbytes buf -> 4 <= zlen buf -> R "vendor_header" = a -> 0 < a -> a + zlen buf < 4611686018427387904 ->
  ceval R (mem_at a buf) msft_type_expr = Some (if znth buf 3 <? 128 then znth buf 3 else znth buf 3 - 256).
Proof.
  intros Hwf Hl HR Ha Hend. pose proof (wfbytes_znth buf 3 Hwf ltac:(lia)) as Hb.
  unfold msft_type_expr. ceval_unfold. rewrite HR. wrap_ids. cbv beta iota.
  rewrite (load_u8 a buf 3) by (assumption || lia). rewrite wrap_s8_byte by lia.
  destruct (Z.ltb_spec (znth buf 3) 128); wrap_ids; reflexivity.
Qed.

(* bss->encryption_info |= WPA (1ULL << 2) *)
Definition wpa_set : cexpr :=
  CCast (mkty false 64) (CBin OOr (mkty false 64) (CCast (mkty false 64) (CVar (mkty false 64) "bss->encryption_info"))
       (CBin OShl (mkty false 64) (CLit (mkty false 64) 1) (CLit (mkty true 32) 2))).
Lemma ceval_wpa_set R m e : R "bss->encryption_info" = e -> 0 <= e < 18446744073709551616 ->
  ceval R m wpa_set = Some (Z.lor e 4).
Proof.
  intros HR He. unfold wpa_set. ceval_unfold. rewrite HR. wrap_ids. decide_bools. cbn [orb]. change (1 * 2 ^ 2) with 4. wrap_ids.
  cbv beta iota. pose proof (lor_u64_range e 4 He ltac:(lia)). wrap_ids. reflexivity.
Qed.

Lemma pick_hit v labels body r d : existsb (Z.eqb v) labels = true -> pick_case v ((labels, body) :: r) d = body.
Proof. intros H. cbn [pick_case]. rewrite H. reflexivity. Qed.
Lemma pick_miss v labels body r d : existsb (Z.eqb v) labels = false -> pick_case v ((labels, body) :: r) d = pick_case v r d.
Proof. intros H. cbn [pick_case]. rewrite H. reflexivity. Qed.

Theorem code_bss_handle_msft_tag rho e a len buf :
  0 <= e < 2 ^ 64 -> 0 < a -> a + zlen buf < 2 ^ 62 -> wfbytes buf -> - 2 ^ 31 <= len < 2 ^ 31 -> (4 <= len -> 4 <= zlen buf) ->
  let rho0 := upd (upd (upd rho "bss->encryption_info" e) "msft_data" a) "msft_len" len in
  let t := znth buf 3 in
  let r := wrap s32 (rho "ret:libwifi_get_wpa_info") in
  let c1 := ("libwifi_get_wpa_info", [wrap u64 (rho "&wpa_info"); a + 4; a + len]) in
  let res := exec 60 (mem_at a buf) rho0 [] body_libwifi_bss_handle_msft_tag in
  if len <? 4 then exists rho', res = Returned (Some (-22)) rho' [] /\ rho' "bss->encryption_info" = e /\ rho' "bss->wps" = rho "bss->wps"
  else if t =? 1 then
    exists rho', rho' "bss->encryption_info" = Z.lor (clear_wep e) 4 /\ rho' "bss->wps" = rho "bss->wps" /\
      if len <? 10 then res = Returned (Some (-22)) rho' []
      else if negb (r =? 0) then res = Returned (Some (-22)) rho' [c1]
      else res = Returned (Some 0) rho'
                   [c1; ("libwifi_enumerate_wpa_suites", [wrap u64 (rho "&wpa_info"); wrap u64 (rho "bss")]);
                        ("memcpy", [wrap u64 (rho "&bss->wpa_info"); wrap u64 (rho "&wpa_info"); 58])]
  else exists rho', res = Returned (Some 0) rho' [] /\ rho' "bss->encryption_info" = e /\
                    rho' "bss->wps" = (if t =? 4 then 1 else rho "bss->wps").
Proof.
  intros He Ha Hend Hwf Hlen Hread rho0 t r c1 res. subst rho0 t r c1 res. CodeRelease.nums.
  pose proof (zlen_nonneg buf) as Hzl.
  unfold body_libwifi_bss_handle_msft_tag. fold wep_test. fold wep_cleared. fold wpa_set. fold msft_type_expr. unfold s32.
  destruct (Z.ltb_spec len 4) as [Hs | Hl].
  { eexists. split; [ srun; reflexivity | ]. env_simpl. split; reflexivity. }
  specialize (Hread Hl). pose proof (wfbytes_znth buf 3 Hwf ltac:(lia)) as Hb.
  erewrite exec_set by ev. erewrite exec_if_gen by ev. decide_bools. cbv beta iota. rewrite exec_nil.
  erewrite exec_switch by (apply ceval_msft_type; [ assumption | assumption | env_simpl; rewrite ?wrap_u64_id by lia; reflexivity | assumption | assumption ]).
  destruct (Z.eqb_spec (znth buf 3) 1) as [E1 | N1].
  - rewrite E1. change (1 <? 128) with true. cbv beta iota. rewrite pick_hit by reflexivity.
    rewrite (exec_clear_wep _ _ _ _ _ _ _ e) by (first [ reflexivity | exact He ]).
    pose proof (clear_wep_range e He) as Hcw. unfold clear_wep in *.
    destruct (Z.eqb_spec (Z.land e 2) 0) as [Ew | Nw].
    + erewrite exec_set by (apply ceval_wpa_set with (e := e); [ reflexivity | exact He ]).
      destruct (Z.ltb_spec len 10) as [Hs10 | Hl10];
        [ | destruct (Z.eqb_spec (wrap (mkty true 32) (rho "ret:libwifi_get_wpa_info")) 0) as [Er | Nr]; cbn [negb] ];
        (eexists; split; [ | split; [ | srun; reflexivity ] ]; env_simpl; reflexivity).
    + erewrite exec_set by (apply ceval_wpa_set with (e := Z.land e 4294967293); [ reflexivity | exact Hcw ]).
      destruct (Z.ltb_spec len 10) as [Hs10 | Hl10];
        [ | destruct (Z.eqb_spec (wrap (mkty true 32) (rho "ret:libwifi_get_wpa_info")) 0) as [Er | Nr]; cbn [negb] ];
        (eexists; split; [ | split; [ | srun; reflexivity ] ]; env_simpl; reflexivity).
  - destruct (Z.eqb_spec (znth buf 3) 2) as [E2 | N2]; [ | destruct (Z.eqb_spec (znth buf 3) 4) as [E4 | N4] ].
    + rewrite E2. change (2 <? 128) with true. cbv beta iota.
      rewrite pick_miss by reflexivity. rewrite pick_hit by reflexivity.
      eexists. split; [ srun; reflexivity | ]. env_simpl. split; reflexivity.
    + rewrite E4. change (4 <? 128) with true. cbv beta iota.
      do 2 (rewrite pick_miss by reflexivity). rewrite pick_hit by reflexivity.
      eexists. split; [ srun; reflexivity | ]. env_simpl. split; reflexivity.
    + do 3 (rewrite pick_miss by (cbn [existsb]; destruct (Z.ltb_spec (znth buf 3) 128); decide_bools; reflexivity)).
      cbn [pick_case].
      eexists. split; [ srun; reflexivity | ]. env_simpl. split; reflexivity.
Qed.

(* ---------------------------------------------------------------- libwifi_handle_ssid_tag *)
Definition ssid_head : list cstmt :=
  Eval cbv beta iota delta [firstn body_libwifi_handle_ssid_tag] in firstn 4 body_libwifi_handle_ssid_tag.
Definition ssid_loop : cstmt :=
  Eval cbv beta iota delta [nth body_libwifi_handle_ssid_tag] in nth 4 body_libwifi_handle_ssid_tag (SOther "").
Definition ssid_tail : list cstmt :=
  Eval cbv beta iota delta [skipn body_libwifi_handle_ssid_tag] in skipn 5 body_libwifi_handle_ssid_tag.
Lemma ssid_split : body_libwifi_handle_ssid_tag = (ssid_head ++ ssid_loop :: ssid_tail)%list.
Proof. reflexivity. Qed.

(* the comparison of octet j with the one-octet string "\0" *)
Definition ssid_cmp (s td j : Z) : event := ("memcmp", [td + j; s; 1]).
Definition zrange (i : Z) (n : nat) : list Z := map (fun k => i + Z.of_nat k) (seq 0 n).

Lemma zrange_S i n : zrange i (S n) = i :: zrange (i + 1) n.
Proof.
  unfold zrange. cbn [seq map]. f_equal; [ lia | ]. rewrite <- seq_shift, map_map. apply map_ext. intros k. lia.
Qed.

(* every memcmp answers 0 (the octets compared are all zero): the loop compares the n octets left, one call each, and leaves with i = tag_len;
   nothing but i is assigned *)
Lemma ssid_loop_zero m r s s0 td L rv :
  wrap (mkty true 32) rv = 0 -> 0 <= td -> td + L < 9223372036854775808 -> L < 2147483648 -> s = wrap (mkty false 64) s0 ->
  forall n f rho tr i,
    (2 <= f)%nat ->
    rho "i" = i -> rho "tag_len" = L -> rho "tag_data" = td -> rho "ret:memcmp" = rv -> rho "str:\x00" = s0 ->
    0 <= i -> i + Z.of_nat n = L ->
    exists rho',
      exec (S (n + f)) m rho tr (ssid_loop :: r) = exec f m rho' (tr ++ map (ssid_cmp s td) (zrange i n)) r /\
      (forall y, String.eqb y "i" = false -> rho' y = rho y) /\ rho' "i" = L.
Proof.
  intros Hrv Htd Hend HL Hs.
  induction n as [ | n IH]; intros f rho tr i Hf Hi Hl Hd Hr Hstr Hi0 Hin.
  - exists rho. cbn [Nat.add]. unfold ssid_loop. rewrite exec_loop_exit.
    + unfold zrange. cbn [seq map]. rewrite app_nil_r. split; [ reflexivity | ]. split; [ reflexivity | lia ].
    + ceval_unfold. rewrite Hi, Hl. wrap_ids. decide_bools. reflexivity.
  - cbn [Nat.add]. unfold ssid_loop. rewrite exec_loop_enter with (v := 1); [ | | discriminate ].
    2:{ ceval_unfold. rewrite Hi, Hl. wrap_ids. decide_bools. reflexivity. }
    destruct f as [ | [ | f]]; [ exfalso; lia | exfalso; lia | ].
    replace (n + S (S f))%nat with (S (S (n + f)))%nat by lia.
    erewrite exec_call.
    2:{ ceval_unfold. rewrite Hi, Hd, Hstr, <- Hs. wrap_ids. cbv beta iota. wrap_ids. reflexivity. }
    erewrite exec_if_false.
    2:{ ceval_unfold. rewrite Hr, Hrv. wrap_ids. reflexivity. }
    rewrite !exec_nil.
    erewrite exec_set.
    2:{ ceval_unfold. rewrite Hi. wrap_ids. cbv beta iota. wrap_ids. reflexivity. }
    rewrite exec_nil.
    fold ssid_loop.
    replace (S (S (S (n + f)))) with (S (n + S (S f)))%nat by lia.
    destruct (IH (S (S f)) (upd rho "i" (i + 1)) (tr ++ [ssid_cmp s td i])%list (i + 1)) as (rho' & Hrun & Hfr & HiL);
      try (upd_red; assumption); try lia; try reflexivity.
    exists rho'. split; [ | split ].
    + rewrite zrange_S. cbn [map].
      replace (tr ++ ssid_cmp s td i :: map (ssid_cmp s td) (zrange (i + 1) n))%list
        with ((tr ++ [ssid_cmp s td i]) ++ map (ssid_cmp s td) (zrange (i + 1) n))%list by (rewrite <- app_assoc; reflexivity).
      exact Hrun.
    + intros y Hy. rewrite (Hfr y Hy). unfold upd. rewrite Hy. reflexivity.
    + exact HiL.
Qed.

(* memcmp answers non-zero at the first comparison: one call, null_ssid = 0, the loop is left by the break *)
Lemma ssid_loop_first m r s s0 td L rv rho tr f :
  wrap (mkty true 32) rv <> 0 -> 0 <= td -> td + L < 9223372036854775808 -> 0 < L < 2147483648 -> s = wrap (mkty false 64) s0 ->
  rho "i" = 0 -> rho "tag_len" = L -> rho "tag_data" = td -> rho "ret:memcmp" = rv -> rho "str:\x00" = s0 ->
  exec (S (S (S (S (S f))))) m rho tr (ssid_loop :: r) =
  exec (S (S (S (S f)))) m (upd rho "null_ssid" 0) (tr ++ [ssid_cmp s td 0]) r.
Proof.
  intros Hrv Htd Hend HL Hs Hi Hl Hd Hr Hstr. unfold ssid_loop.
  rewrite exec_loop_enter with (v := 1); [ | | discriminate ].
  2:{ ceval_unfold. rewrite Hi, Hl. wrap_ids. decide_bools. reflexivity. }
  erewrite exec_call.
  2:{ ceval_unfold. rewrite Hi, Hd, Hstr, <- Hs. wrap_ids. cbv beta iota. wrap_ids. reflexivity. }
  erewrite exec_if_true with (v := 1); [ | | discriminate ].
  2:{ ceval_unfold. rewrite Hr. wrap_ids. destruct (Z.eqb_spec (wrap (mkty true 32) rv) 0); [ contradiction | reflexivity ]. }
  erewrite exec_set by (ceval_unfold; wrap_ids; reflexivity).
  rewrite exec_break. unfold ssid_cmp. replace (td + 0) with td by lia. reflexivity.
Qed.

(* what is stored: the 33-octet field is cleared, then tag_len octets are copied (bss: offset 18, sta: offset 20); any other target type: nothing *)
Definition ssid_store (tt tgt td L : Z) : list event :=
  if tt =? 0 then [("memset", [tgt + 18; 0; 33]); ("memcpy", [tgt + 18; td; L])]
  else if tt =? 1 then [("memset", [tgt + 20; 0; 33]); ("memcpy", [tgt + 20; td; L])] else [].

Ltac rw_facts :=
  repeat match goal with
         | H : ?R (String ?c ?x) = _ |- context [?R (String ?c ?x)] => rewrite H
         end.
Ltac tev :=
  ceval_env; rw_facts;
  repeat (progress (wrap_ids; cbv beta iota)); reflexivity.
Ltac trun :=
  repeat (first [ erewrite exec_set by tev | erewrite exec_call by tev | rewrite exec_nil | rewrite exec_clobber
                | erewrite exec_if_gen by tev ]; decide_bools; cbv beta iota).

Lemma Fell_eq rho rho' (tr tr' : list event) : rho = rho' -> tr = tr' -> Fell rho tr = Fell rho' tr'.
Proof. intros -> ->. reflexivity. Qed.

Lemma ssid_tail_run m R tr ns h tt tgt td L :
  R "null_ssid" = ns -> ns = 0 \/ ns = 1 -> R "hidden" = h -> h = 0 \/ h = 1 ->
  R "target_type" = tt -> - 2147483648 <= tt < 2147483648 ->
  R "target" = tgt -> 0 <= tgt -> tgt + 53 < 9223372036854775808 ->
  R "tag_data" = td -> 0 <= td < 18446744073709551616 -> R "tag_len" = L -> 0 <= L < 2147483648 ->
  exists R', exec 12 m R tr ssid_tail = Fell R' (tr ++ ssid_store tt tgt td L) /\
             (tt = 0 -> R' "bss->hidden" = if ns =? 0 then h else 1).
Proof.
  intros Hns Hns01 Hh Hh01 Htt Httr Htg Htg0 Htge Htd Htdr HL HLr.
  unfold ssid_tail, ssid_store.
  assert (Hstep : exists R1, exec 12 m R tr ssid_tail = exec 11 m R1 tr (tl ssid_tail) /\
                             (forall y, String.eqb y "hidden" = false -> R1 y = R y) /\ R1 "hidden" = if ns =? 0 then h else 1).
  { unfold ssid_tail. cbn [tl]. destruct Hns01 as [E | E]; rewrite E in Hns.
    - exists R. rewrite exec_if_false by (ceval_unfold; rewrite Hns; wrap_ids; reflexivity).
      rewrite exec_nil. rewrite E. split; [ reflexivity | ]. split; [ reflexivity | exact Hh ].
    - exists (upd R "hidden" 1). rewrite exec_if_true with (v := 1) by (first [ discriminate | ceval_unfold; rewrite Hns; wrap_ids; reflexivity ]).
      erewrite exec_set by (ceval_unfold; wrap_ids; reflexivity). rewrite exec_nil. rewrite E.
      split; [ reflexivity | ]. split; [ intros y Hy; unfold upd; rewrite Hy; reflexivity | reflexivity ]. }
  destruct Hstep as (R1 & Hrun & Hfr & Hh1). unfold ssid_tail in Hrun. rewrite Hrun. cbn [tl]. clear Hrun.
  set (h1 := if ns =? 0 then h else 1) in *.
  assert (Hh1r : h1 = 0 \/ h1 = 1) by (subst h1; destruct (ns =? 0); [ exact Hh01 | right; reflexivity ]).
  clear Hns Hh. clear Hns01 Hh01.
  rename Hh1 into Hh.
  assert (Htt1 : R1 "target_type" = tt) by (rewrite Hfr by reflexivity; exact Htt).
  assert (Htg1 : R1 "target" = tgt) by (rewrite Hfr by reflexivity; exact Htg).
  assert (Htd1 : R1 "tag_data" = td) by (rewrite Hfr by reflexivity; exact Htd).
  assert (HL1 : R1 "tag_len" = L) by (rewrite Hfr by reflexivity; exact HL).
  clear Htt Htg Htd HL. rename Htt1 into Htt. rename Htg1 into Htg. rename Htd1 into Htd. rename HL1 into HL.
  pose proof I as Hns.
  destruct (Z.eqb_spec tt 0) as [E0 | N0]; [ | destruct (Z.eqb_spec tt 1) as [E1 | N1] ].
  - eexists. split.
    + trun. apply Fell_eq; [ reflexivity | rewrite <- !app_assoc; reflexivity ].
    + intros _. env_simpl. destruct Hh1r as [-> | ->]; reflexivity.
  - eexists. split; [ | intros; lia ].
    trun. apply Fell_eq; [ reflexivity | rewrite <- !app_assoc; reflexivity ].
  - eexists. split; [ | intros; lia ].
    trun. apply Fell_eq; [ reflexivity | rewrite app_nil_r; reflexivity ].
Qed.

Lemma ssid_tail_run_any m R tr ns h tt tgt td L F :
  (12 <= F)%nat ->
  R "null_ssid" = ns -> ns = 0 \/ ns = 1 -> R "hidden" = h -> h = 0 \/ h = 1 ->
  R "target_type" = tt -> - 2147483648 <= tt < 2147483648 ->
  R "target" = tgt -> 0 <= tgt -> tgt + 53 < 9223372036854775808 ->
  R "tag_data" = td -> 0 <= td < 18446744073709551616 -> R "tag_len" = L -> 0 <= L < 2147483648 ->
  exists R', exec F m R tr ssid_tail = Fell R' (tr ++ ssid_store tt tgt td L) /\
             (tt = 0 -> R' "bss->hidden" = if ns =? 0 then h else 1).
Proof.
  intros HF Hns Hns01 Hh Hh01 Htt Httr Htg Htg0 Htge Htd Htdr HL HLr.
  destruct (ssid_tail_run m R tr ns h tt tgt td L Hns Hns01 Hh Hh01 Htt Httr Htg Htg0 Htge Htd Htdr HL HLr) as (R' & Hrun & Hhid).
  exists R'. split; [ | exact Hhid ].
  apply (exec_fuel_le 12 F); [ exact HF | exact Hrun | discriminate ].
Qed.

(* from the loop to the end: i = 0, null_ssid = 1, tag_len = L already clamped to 32 *)
Lemma ssid_from_loop m R L h0 tt tgt td rv s0 :
  R "i" = 0 -> R "tag_len" = L -> 0 <= L <= 32 -> R "tag_data" = td -> 0 <= td -> td + 32 < 9223372036854775808 ->
  R "ret:memcmp" = rv -> R "str:\x00" = s0 -> R "null_ssid" = 1 -> R "hidden" = h0 -> h0 = 0 \/ h0 = 1 ->
  R "target_type" = tt -> - 2147483648 <= tt < 2147483648 -> R "target" = tgt -> 0 <= tgt -> tgt + 53 < 9223372036854775808 ->
  let r := wrap (mkty true 32) rv in
  let s := wrap (mkty false 64) s0 in
  let compares := if r =? 0 then L else Z.min L 1 in
  exists R', exec 56 m R [] (ssid_loop :: ssid_tail) =
               Fell R' (map (ssid_cmp s td) (zrange 0 (Z.to_nat compares)) ++ ssid_store tt tgt td L) /\
             (tt = 0 -> R' "bss->hidden" = if (L =? 0) || (r =? 0) then 1 else h0).
Proof.
  intros Hi HL HLr Htd Htd0 Htde Hrv Hstr Hns Hh Hh01 Htt Httr Htg Htg0 Htge r s compares. subst r s compares.
  destruct (Z.eqb_spec L 0) as [EL | NL].
  - (* nothing to compare *)
    assert (Hc : Z.to_nat (if wrap (mkty true 32) rv =? 0 then L else Z.min L 1) = 0%nat)
      by (destruct (wrap (mkty true 32) rv =? 0); lia).
    rewrite Hc. unfold zrange. cbn [seq map app orb].
    unfold ssid_loop. rewrite exec_loop_exit by (ceval_unfold; rewrite Hi, HL; wrap_ids; decide_bools; reflexivity).
    destruct (ssid_tail_run_any m R [] 1 h0 tt tgt td L 55 ltac:(lia) Hns ltac:(auto) Hh Hh01 Htt Httr Htg Htg0 Htge Htd ltac:(lia) HL ltac:(lia))
      as (R' & Hrun & Hhid).
    exists R'. split; [ exact Hrun | exact Hhid ].
  - destruct (Z.eqb_spec (wrap (mkty true 32) rv) 0) as [Er | Nr]; cbn [orb].
    + (* all the comparisons answer 0 *)
      destruct (ssid_loop_zero m ssid_tail (wrap (mkty false 64) s0) s0 td L rv Er Htd0 ltac:(lia) ltac:(lia) eq_refl
                  (Z.to_nat L) (55 - Z.to_nat L)%nat R [] 0 ltac:(lia) Hi HL Htd Hrv Hstr ltac:(lia) ltac:(lia))
        as (R1 & Hrun & Hfr & _).
      replace (S (Z.to_nat L + (55 - Z.to_nat L)))%nat with 56%nat in Hrun by lia.
      rewrite Hrun. cbn [app].
      destruct (ssid_tail_run_any m R1 (map (ssid_cmp (wrap (mkty false 64) s0) td) (zrange 0 (Z.to_nat L))) 1 h0 tt tgt td L
                  (55 - Z.to_nat L)%nat ltac:(lia)) as (R' & Hrun' & Hhid);
        try (rewrite Hfr by reflexivity; assumption); try lia; auto.
      exists R'. split; [ exact Hrun' | exact Hhid ].
    + (* the first comparison answers non-zero *)
      rewrite (ssid_loop_first m ssid_tail (wrap (mkty false 64) s0) s0 td L rv R [] 51 Nr Htd0 ltac:(lia) ltac:(lia) eq_refl Hi HL Htd Hrv Hstr).
      replace (Z.to_nat (Z.min L 1)) with 1%nat by lia. unfold zrange at 1. cbn [seq map app]. replace (0 + Z.of_nat 0) with 0 by lia.
      destruct (ssid_tail_run_any m (upd R "null_ssid" 0) [ssid_cmp (wrap (mkty false 64) s0) td 0] 0 h0 tt tgt td L 55 ltac:(lia))
        as (R' & Hrun' & Hhid); try (upd_red; assumption); try lia; auto.
      exists R'. split; [ exact Hrun' | exact Hhid ].
Qed.

Ltac from_loop rho Lv hv tt tgt td :=
  match goal with
  | |- context [exec 56 ?m ?R [] (ssid_loop :: ssid_tail)] =>
      let R' := fresh "R'" in let Hrun := fresh "Hrun" in let Hhid := fresh "Hhid" in
      destruct (ssid_from_loop m R Lv hv tt tgt td (rho "ret:memcmp") (rho "str:\x00"))
        as (R' & Hrun & Hhid); try (env_simpl; reflexivity); try lia; auto;
      exists R'; split; [ exact Hrun | ]; intros Et; rewrite (Hhid Et)
  end.

(* tag_len: the element's length (0..255 from the iterators; stated for every non-negative int); r: what memcmp(tag_data + i, "\0", 1)
   answers (ONE unknown of the environment for all the calls of a run: see the remark below); hidden is stored for a bss only *)
Theorem code_handle_ssid_tag rho tgt tt td len m :
  0 <= len < 2 ^ 31 -> 0 <= td -> td + 32 < 2 ^ 63 -> 0 <= tgt -> tgt + 53 < 2 ^ 63 -> - 2 ^ 31 <= tt < 2 ^ 31 ->
  let rho0 := upd (upd (upd (upd rho "target" tgt) "target_type" tt) "tag_data" td) "tag_len" len in
  let L := Z.min len 32 in
  let r := wrap s32 (rho "ret:memcmp") in
  let s := wrap u64 (rho "str:\x00") in
  let compares := if r =? 0 then L else Z.min L 1 in
  let hidden := (len =? 0) || (r =? 0) in
  exists rho',
    exec 60 m rho0 [] body_libwifi_handle_ssid_tag =
      Fell rho' (map (ssid_cmp s td) (zrange 0 (Z.to_nat compares)) ++ ssid_store tt tgt td L) /\
    (tt = 0 -> rho' "bss->hidden" = b2z hidden).
Proof.
  intros Hlen Htd Htde Htg Htge Htt rho0 L r s compares hidden. subst rho0 L r s compares hidden. CodeRelease.nums.
  rewrite ssid_split. unfold ssid_head. cbn [app]. unfold s32, u64.
  destruct (Z.eqb_spec len 0) as [E0 | N0]; [ | destruct (Z_le_gt_dec len 32) as [Hle | Hgt] ].
  - srun. rewrite Z.min_l by lia.
    from_loop rho len 1 tt tgt td. rewrite E0. reflexivity.
  - srun. rewrite Z.min_l by lia.
    from_loop rho len 0 tt tgt td.
    rewrite (eqb_false len 0 N0). cbn [orb]. destruct (_ =? 0); reflexivity.
  - srun. rewrite Z.min_r by lia.
    from_loop rho 32 0 tt tgt td.
    change (32 =? 0) with false. cbn [orb]. destruct (_ =? 0); reflexivity.
Qed.

(* ================================================================ B'. libwifi_parse_data: the model, the lifecycle, the range of header_len *)
From LW Require Model.Frame Gen.Consts.

(* Model/Frame.v parse_data on the classified frame f, the C routine on the same object (type, flags, len, header_len as f records
   them): refused together (-EINVAL, nothing but the initial memset); accepted together, the header view chosen by the same test of
   the QoS flag, body_len = len - header_len = the model's d_body_len, one malloc(body_len) and one memcpy(body, frame->body,
   body_len) when body_len > 0, none when body_len = 0 (data->body stays NULL).  The model has no allocator: where it answers Ok, the
   C code returns -ENOMEM when body_len > 0 and malloc answered NULL (data->body NULL, data->body_len already set). *)
Theorem code_parse_data_refines_model (f : Frame.frame) rho b q m :
  let ty := Frame.fc_type (Frame.f_fc f) in
  0 <= ty < 2 ^ 31 -> 0 <= Frame.f_flags f < 65536 -> 0 <= Frame.f_header_len f <= Frame.f_len f -> Frame.f_len f < 2 ^ 64 ->
  0 <= b < 2 ^ 64 -> rho "ret:malloc" = q -> 0 <= q < 2 ^ 64 ->
  let res := exec 40 m (data_env rho ty (Frame.f_flags f) (Frame.f_len f) (Frame.f_header_len f) b) [] body_libwifi_parse_data in
  let t0 := [("memset", [wrap u64 (rho "data"); 0; 32])] in
  match Frame.parse_data f with
  | Err c => c = -22 /\ exists rho', res = Returned (Some c) rho' t0
  | Ok d =>
      let n := Frame.d_body_len d in
      let qos := negb (Z.land (Frame.f_flags f) Consts.c_LIBWIFI_FLAGS_IS_QOS =? 0) in
      exists rho',
        res = Returned (Some (if negb (n =? 0) && (q =? 0) then -12 else 0)) rho'
                (t0 ++ data_copies rho qos ++
                 (if n =? 0 then [] else ("malloc", [n]) :: (if q =? 0 then [] else [("memcpy", [q; b; n])])))%list /\
        rho' "data->body_len" = n /\ rho' "data->body" = (if n =? 0 then 0 else q)
  end.
Proof.
  intros ty Hty Hfl Hhl Hlen Hb Hq Hq0 res t0.
  pose proof (code_parse_data rho ty (Frame.f_flags f) (Frame.f_len f) (Frame.f_header_len f) b q m Hty Hfl Hhl Hlen Hb Hq Hq0) as H.
  cbv zeta in H. fold res in H. fold t0 in H.
  unfold Frame.parse_data. fold ty. unfold Consts.c_TYPE_DATA, Consts.c_LIBWIFI_FLAGS_IS_QOS.
  destruct (negb (ty =? 2)).
  - destruct H as (rho' & Hrun & _). split; [ reflexivity | ]. exists rho'. exact Hrun.
  - cbn [Frame.d_body_len].
    assert (Eq : negb (Z.land (Frame.f_flags f) 2 =? 0) = Z.testbit (Frame.f_flags f) 1)
      by (rewrite land_2; destruct (Z.testbit (Frame.f_flags f) 1); reflexivity).
    rewrite Eq.
    destruct (Z.eqb_spec (Frame.f_len f - Frame.f_header_len f) 0) as [En | Nn]; cbn [negb andb].
    + destruct H as (rho' & Hrun & Hbd & Hbl). exists rho'. rewrite app_nil_r, En. auto.
    + destruct (Z.eqb_spec q 0) as [E | N]; destruct H as (rho' & Hrun & Hbd & Hbl); exists rho'; rewrite <- app_assoc in Hrun;
        [ rewrite Hbd, E at 1; auto | auto ].
Qed.

(* libwifi_parse_data ; libwifi_free_data: at most one allocation, none released inside the parser; libwifi_free_data run on the object,
   whatever the parser answered, releases data->body: the allocator's answer when the copy was made, NULL otherwise (refused frame,
   empty body, or -ENOMEM) *)
Theorem lifecycle_data rho ty fl len hl b q m :
  0 <= ty < 2 ^ 31 -> 0 <= fl < 65536 -> 0 <= hl <= len -> len < 2 ^ 64 -> 0 <= b < 2 ^ 64 ->
  rho "ret:malloc" = q -> 0 <= q < 2 ^ 64 ->
  let n := len - hl in
  let taken := negb (negb (ty =? 2) || (n =? 0)) in       (* the routine reaches malloc *)
  exists v rho' tr,
    exec 40 m (data_env rho ty fl len hl b) [] body_libwifi_parse_data = Returned (Some v) rho' tr /\
    v = (if negb (ty =? 2) then -22 else if taken && (q =? 0) then -12 else 0) /\
    allocs tr = (if taken then [("malloc", [n])] else []) /\ frees tr = [] /\
    exec 3 m rho' tr body_libwifi_free_data = Fell rho' (tr ++ [("free", [if taken then q else 0])]).
Proof.
  intros Hty Hfl Hhl Hlen Hb Hq Hq0 n taken. subst taken.
  pose proof (code_parse_data rho ty fl len hl b q m Hty Hfl Hhl Hlen Hb Hq Hq0) as H. cbv zeta in H. fold n in H.
  assert (Hc : allocs (data_copies rho (Z.testbit fl 1)) = [] /\ frees (data_copies rho (Z.testbit fl 1)) = [])
    by (unfold data_copies; destruct (Z.testbit fl 1); split; reflexivity).
  destruct Hc as [Hc1 Hc2]. CodeRelease.nums.
  destruct (negb (ty =? 2)); cbn [negb orb andb]; [ | destruct (n =? 0); cbn [negb andb]; [ | destruct (Z.eqb_spec q 0) as [E | N] ] ];
    destruct H as (rho' & Hrun & Hbd & _); eexists _, rho', _; (split; [ exact Hrun | ]); (split; [ reflexivity | ]);
    rewrite ?allocs_app, ?frees_app, ?Hc1, ?Hc2; (split; [ reflexivity | ]); (split; [ reflexivity | ]).
  - apply (release_of_member _ _ code_free_data); [ exact Hbd | lia ].
  - apply (release_of_member _ _ code_free_data); [ exact Hbd | lia ].
  - rewrite E. apply (release_of_member _ _ code_free_data); [ exact Hbd | lia ].
  - apply (release_of_member _ _ code_free_data); [ exact Hbd | lia ].
Qed.

Definition env0 : env := fun _ => 0.

(* the hypothesis header_len <= len of code_parse_data is needed: body_len is computed in size_t without any check, so an object with
   header_len > len (not what libwifi_get_wifi_frame produces: it refuses len < header_len) asks malloc for 2^64 - 14 octets and, had
   it answered, copies as many *)
Example parse_data_header_longer_than_frame :
  observe (exec 40 (fun _ => None) (data_env (upd env0 "ret:malloc" 8192) 2 0 10 24 4096) [] body_libwifi_parse_data) =
    Some (Some 0, [("memset", [0; 0; 32]); ("memcpy", [0; 0; 6]); ("memcpy", [0; 0; 6]);
                   ("malloc", [2 ^ 64 - 14]); ("memcpy", [8192; 4096; 2 ^ 64 - 14])]).
Proof. vm_compute. reflexivity. Qed.

(* ================================================================ D'. libwifi_handle_ssid_tag: remarks and samples
   1. memcmp's answer is ONE unknown of the environment ("ret:memcmp"), the same for every call of a run (Base/CExpr.v: CCall): the
      theorem therefore covers "every compared octet is zero" (r = 0: min(len, 32) comparisons, hidden) and "the first octet is not"
      (r <> 0: one comparison, not hidden unless len = 0); an element whose first k > 0 octets are zero and whose next one is not is
      outside what the translation can express.  Only the first 32 octets are looked at (tag_len is clamped before the loop).
   2. a negative tag_len (not what the iterators pass: the length octet is 0..255) sets hidden and then asks memcpy for
      (size_t) tag_len octets. *)
Example handle_ssid_sample :
  observe (exec 60 (fun _ => None)
             (env_of [("target", 4096); ("target_type", 0); ("tag_data", 8192); ("tag_len", 40); ("str:\x00", 100)]) []
             body_libwifi_handle_ssid_tag) =
    Some (None, (map (fun j => ("memcmp", [8192 + j; 100; 1])) (zrange 0 32) ++
                 [("memset", [4114; 0; 33]); ("memcpy", [4114; 8192; 32])])%list).
Proof. vm_compute. reflexivity. Qed.

Example handle_ssid_negative_len :
  observe (exec 60 (fun _ => None)
             (env_of [("target", 4096); ("target_type", 0); ("tag_data", 8192); ("tag_len", -1)]) [] body_libwifi_handle_ssid_tag) =
    Some (None, [("memset", [4114; 0; 33]); ("memcpy", [4114; 8192; 2 ^ 64 - 1])]).
Proof. vm_compute. reflexivity. Qed.

(* the MSFT handler on a WPA element too short for the decoder (type octet 1, length 6): -EINVAL, but bss->encryption_info has
   already been changed (WEP cleared, WPA set) when the length is checked: code_bss_handle_msft_tag's case len < 10 *)

Print Assumptions code_parse_data.
Print Assumptions code_parse_data_refines_model.
Print Assumptions lifecycle_data.
Print Assumptions parse_data_header_longer_than_frame.
Print Assumptions code_random_mac.
Print Assumptions code_random_mac_writes.
Print Assumptions code_bss_handle_rsn_tag.
Print Assumptions code_bss_handle_msft_tag.
Print Assumptions ssid_loop_zero.
Print Assumptions code_handle_ssid_tag.
Print Assumptions handle_ssid_sample.
Print Assumptions handle_ssid_negative_len.
