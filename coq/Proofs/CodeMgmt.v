(* the management-frame parsers as translated: definitions and tactic in CodeMgmtDefs.v, the seven common-shape routines in CodeMgmtA/B/C.v (built in parallel),
   here what their complete traces say, the two reason-code parsers, examples *)
From Coq Require Import ZArith String Ascii List Bool Lia.
From LW Require Import Base.Bytes Base.CExpr Gen.Sites Proofs.SitesLemmas Proofs.CodeIter Proofs.CodeSecurity.
Import ListNotations.
Local Open Scope string_scope.
Local Open Scope Z_scope.
From LW Require Export Proofs.CodeMgmtDefs Proofs.CodeMgmtA Proofs.CodeMgmtB Proofs.CodeMgmtC.

(* ---------------------------------------------------------------- 3. what the complete traces say about reads and allocations *)
Lemma rule_bss_spec FIXED len hl : rule_bss FIXED len hl = (len <? hl + FIXED + 2).
Proof.
  unfold rule_bss. destruct (Z.leb_spec len (hl + FIXED)); destruct (Z.ltb_spec len (hl + FIXED + 2)); try reflexivity; lia.
Qed.

(* the copy of the tagged parameters: everything behind the fixed parameters, up to the end of the frame body *)
Definition body_copy (b len hl FIXED q : Z) (ev : event) : Prop :=
  ev = ("memcpy", [q; b + FIXED; len - hl - FIXED]) /\
  b <= b + FIXED /\ 0 <= len - hl - FIXED /\ (b + FIXED) + (len - hl - FIXED) = b + (len - hl).

Definition mallocs (tr : list event) : nat := List.length (filter (fun ev => String.eqb (fst ev) "malloc") tr).

Lemma mallocs_app a b : mallocs (a ++ b) = (mallocs a + mallocs b)%nat.
Proof. unfold mallocs. rewrite filter_app, app_length. reflexivity. Qed.
Lemma mallocs_hdr obj rho o : mallocs (hdr_copies obj rho o) = 0%nat.
Proof. unfold hdr_copies. destruct (o =? 0); reflexivity. Qed.

Ltac mall := unfold mallocs; cbn [filter fst List.length String.eqb Ascii.eqb Bool.eqb Nat.add]; lia.

(* every memcpy of the run is one of the three header copies or the copy of the tagged parameters, which reads
   [body + FIXED, body + (len - header_len)); malloc is asked at most once, exactly once when 0 is returned, and then the tagged
   parameters have been copied *)
Definition parser_reads (body : list cstmt) (FIXED : Z) (nm : names) : Prop :=
  forall rho ty st o len hl b q buf m,
    0 <= ty < 2 ^ 31 -> 0 <= st < 2 ^ 31 -> 0 <= o < 2 ^ 31 ->
    0 < b -> 0 <= hl <= len -> b + len < 2 ^ 62 -> 0 <= q < 2 ^ 62 -> rho "ret:malloc" = q ->
    wfbytes buf -> zlen buf = len - hl -> (n_cap nm <> None -> m = mem_at b buf) ->
    exists v tr,
      observe (exec 100 m (frame_env rho ty st o len hl b) [] body) = Some (Some v, tr) /\
      (v = 0 \/ v = -12 \/ v = -22) /\
      (forall ev, In ev tr -> fst ev = "memcpy" -> In ev (hdr_copies (n_obj nm) rho o) \/ body_copy b len hl FIXED q ev) /\
      (mallocs tr <= 1)%nat /\
      (v = 0 -> mallocs tr = 1%nat /\ In ("memcpy", [q; b + FIXED; len - hl - FIXED]) tr).

Theorem parser_ok_reads body subtype FIXED tl tp too_short nm :
  0 <= FIXED -> (forall len hl, hl <= len -> too_short len hl = false -> hl + FIXED <= len) ->
  String.eqb (n_tagparser nm) "memcpy" = false -> String.eqb (n_tagparser nm) "malloc" = false ->
  parser_ok body subtype FIXED tl tp too_short nm -> parser_reads body FIXED nm.
Proof.
  intros HF Hrule Hn1 Hn2 Hok rho ty st o len hl b q buf m Hty Hst Ho Hb Hhl Hend Hq Eq Hwf Hzl Hm.
  specialize (Hok rho ty st o len hl b q buf m Hty Hst Ho Hb Hhl Hend Hq Eq Hwf Hzl Hm).
  unfold parser_post in Hok. cbv zeta in Hok.
  set (res := exec 100 m (frame_env rho ty st o len hl b) [] body) in *. clearbody res.
  set (hc := hdr_copies (n_obj nm) rho o) in *.
  assert (Hmh : mallocs hc = 0%nat) by apply mallocs_hdr.
  assert (Hpar : mallocs [(n_tagparser nm, [wrap u64 (rho (n_obj nm)); wrap u64 (rho "&it")])] = 0%nat).
  { unfold mallocs. cbn [filter fst]. rewrite Hn2. reflexivity. }
  destruct (negb (ty =? 0) || negb (st =? subtype)).
  { exists (-22). eexists. split; [exact Hok | ]. split; [auto | ]. split; [ | split].
    - intros ev [<- | []] Hf. discriminate Hf.
    - mall.
    - discriminate. }
  destruct (too_short len hl) eqn:Ets.
  { exists (-22). eexists. split; [exact Hok | ]. split; [auto | ]. split; [ | split].
    - intros ev HIn Hf. apply in_app_or in HIn. destruct HIn as [[<- | []] | HIn]; [discriminate Hf | left; exact HIn].
    - rewrite mallocs_app, Hmh. mall.
    - discriminate. }
  pose proof (Hrule len hl (proj2 Hhl) Ets) as Hfit.
  destruct (Z.eqb_spec q 0) as [Eq0 | Nq].
  { exists (-12). eexists. split; [exact Hok | ]. split; [auto | ]. split; [ | split].
    - intros ev HIn Hf. apply in_app_or in HIn. destruct HIn as [HIn | [<- | []]]; [ | discriminate Hf].
      apply in_app_or in HIn. destruct HIn as [[<- | []] | HIn]; [discriminate Hf | left; exact HIn].
    - rewrite !mallocs_app, Hmh. mall.
    - discriminate. }
  destruct Hok as (rho' & Hres & _).
  assert (Hbc : body_copy b len hl FIXED q ("memcpy", [q; b + FIXED; len - hl - FIXED])).
  { unfold body_copy. repeat split; lia. }
  destruct (n_it_memset nm); destruct (wrap s32 (rho "ret:libwifi_tag_iterator_init") =? 0);
    try destruct (wrap s32 (rho ("ret:" ++ n_tagparser nm)) =? 0);
    (eexists; eexists; split; [rewrite Hres; cbn [observe]; reflexivity | ]);
    (split; [auto | ]); (split; [ | split ]).
  all: try (intros ev HIn Hf; rewrite !in_app_iff in HIn; cbn [In] in HIn;
            repeat match goal with
                   | H : _ \/ _ |- _ => destruct H
                   | H : False |- _ => destruct H
                   end; subst; try discriminate Hf;
            first [ left; assumption | right; exact Hbc | cbn [fst] in Hf; rewrite Hf in Hn1; discriminate Hn1 ]).
  all: try (rewrite !mallocs_app, ?Hmh, ?Hpar; mall).
  all: intros Hv; try discriminate Hv; split; [ rewrite !mallocs_app, ?Hmh, ?Hpar; mall | ].
  all: repeat (apply in_or_app; first [ right; left; reflexivity | left ]).
Qed.

Lemma rule_le_fits FIXED len hl : hl <= len -> rule_le FIXED len hl = false -> hl + FIXED <= len.
Proof. unfold rule_le. intros _ H. apply Z.leb_gt in H. lia. Qed.
Lemma rule_bss_fits FIXED len hl : hl <= len -> rule_bss FIXED len hl = false -> hl + FIXED <= len.
Proof. rewrite rule_bss_spec. intros _ H. apply Z.ltb_ge in H. lia. Qed.
Lemma rule_none_fits len hl : hl <= len -> rule_none len hl = false -> hl + 0 <= len.
Proof. intros H _. lia. Qed.

Theorem seven_parsers_read_inside_the_body :
  parser_reads body_libwifi_parse_beacon 12 (bss_names 10) /\
  parser_reads body_libwifi_parse_probe_resp 12 (bss_names 10) /\
  parser_reads body_libwifi_parse_assoc_resp 6 (bss_names 0) /\
  parser_reads body_libwifi_parse_reassoc_resp 6 (bss_names 0) /\
  parser_reads body_libwifi_parse_probe_req 0 sta_names /\
  parser_reads body_libwifi_parse_assoc_req 4 sta_names /\
  parser_reads body_libwifi_parse_reassoc_req 10 sta_names.
Proof.
  repeat split.
  - eapply parser_ok_reads; [ | | | | exact parse_beacon_ok ]; [ lia | exact (rule_bss_fits 12) | reflexivity | reflexivity ].
  - eapply parser_ok_reads; [ | | | | exact parse_probe_resp_ok ]; [ lia | exact (rule_bss_fits 12) | reflexivity | reflexivity ].
  - eapply parser_ok_reads; [ | | | | exact parse_assoc_resp_ok ]; [ lia | exact (rule_bss_fits 6) | reflexivity | reflexivity ].
  - eapply parser_ok_reads; [ | | | | exact parse_reassoc_resp_ok ]; [ lia | exact (rule_bss_fits 6) | reflexivity | reflexivity ].
  - eapply parser_ok_reads; [ | | | | exact parse_probe_req_ok ]; [ lia | exact rule_none_fits | reflexivity | reflexivity ].
  - eapply parser_ok_reads; [ | | | | exact parse_assoc_req_ok ]; [ lia | exact (rule_le_fits 4) | reflexivity | reflexivity ].
  - eapply parser_ok_reads; [ | | | | exact parse_reassoc_req_ok ]; [ lia | exact (rule_le_fits 10) | reflexivity | reflexivity ].
Qed.

(* ---------------------------------------------------------------- 4. deauthentication / disassociation: a different shape *)
Lemma wrap_s32_range x : - 2147483648 <= wrap (mkty true 32) x < 2147483648.
Proof.
  unfold wrap, modulus, tmax; cbn [c_signed c_bits].
  change (2 ^ 32) with 4294967296. change (2 ^ (32 - 1) - 1) with 2147483647.
  pose proof (Z.mod_pos_bound x 4294967296 ltac:(lia)) as Hm.
  destruct (Z.leb_spec (x mod 4294967296) 2147483647); lia.
Qed.

Lemma wrap_s32_idem x : wrap (mkty true 32) (wrap (mkty true 32) x) = wrap (mkty true 32) x.
Proof. apply wrap_s32_id. apply wrap_s32_range. Qed.

Lemma wrap_s32_mod64 x : wrap (mkty true 32) (x mod 18446744073709551616) = wrap (mkty true 32) x.
Proof.
  unfold wrap, modulus; cbn [c_signed c_bits]. change (2 ^ 32) with 4294967296.
  rewrite <- (Znumtheory.Zmod_div_mod 4294967296 18446744073709551616 x); [reflexivity | lia | lia | ].
  exists 4294967296. reflexivity.
Qed.

Lemma arith_u64_mod v : arith (mkty false 64) v = Some (v mod 18446744073709551616).
Proof. reflexivity. Qed.

(* (int)(len - c - 2) computed in size_t first *)
Lemma tags_len_val len c :
  wrap (mkty true 32) (wrap (mkty true 32) (((len - c) mod 18446744073709551616 - 2) mod 18446744073709551616)) =
  wrap (mkty true 32) (len - c - 2).
Proof.
  rewrite wrap_s32_idem, wrap_s32_mod64.
  rewrite <- (wrap_s32_mod64 (len - c - 2)). rewrite <- (wrap_s32_mod64 ((len - c) mod 18446744073709551616 - 2)).
  f_equal. rewrite Zminus_mod_idemp_l. reflexivity.
Qed.

(* the header view copied (by the order flag) and its size *)
Definition reason_hdr (obj : string) (rho : env) (o : Z) : event :=
  if o =? 0 then ("memcpy", [wrap u64 (rho ("&" ++ obj ++ "->frame_header.unordered")); wrap u64 (rho "&frame->header.mgmt_unordered"); 24])
  else ("memcpy", [wrap u64 (rho ("&" ++ obj ++ "->frame_header.ordered")); wrap u64 (rho "&frame->header.mgmt_ordered"); 28]).

Definition reason_post (obj : string) (subtype : Z) (rho : env) (ty st o len hl b q : Z) (res : xresult) : Prop :=
  let H := if o =? 0 then 24 else 28 in
  let n := wrap s32 (len - H - 2) in
  let t0 := [("memset", [wrap u64 (rho obj); 0; 50])] in
  let t1 := (t0 ++ [reason_hdr obj rho o; ("memcpy", [wrap u64 (rho ("&" ++ obj ++ "->fixed_parameters")%string); b; 2])])%list in
  if negb (ty =? 0) || negb (st =? subtype) then observe res = Some (Some (-22), t0)
  else if len <? hl + 2 then observe res = Some (Some (-22), t0)
  else if n <=? 0 then
    exists rho', res = Returned (Some 0) rho' t1 /\ rho' (obj ++ "->tags.length") = 0 /\ rho' (obj ++ "->tags.parameters") = 0
  else if q =? 0 then observe res = Some (Some (-12), (t1 ++ [("malloc", [n])])%list)
  else exists rho',
    res = Returned (Some 0) rho' (t1 ++ [("malloc", [n]); ("memcpy", [q; b + 2; n])])%list /\
    rho' (obj ++ "->tags.length") = n /\ rho' (obj ++ "->tags.parameters") = q.

(* no load: any memory.  The order flag is stored into an int member first (deauth->ordered), whence the same range for o. *)
Definition reason_parser_ok (body : list cstmt) (obj : string) (subtype : Z) : Prop :=
  forall rho ty st o len hl b q m,
    0 <= ty < 2 ^ 31 -> 0 <= st < 2 ^ 31 -> 0 <= o < 2 ^ 31 ->
    0 < b -> 0 <= hl <= len -> b + len < 2 ^ 62 -> 0 <= q < 2 ^ 62 -> rho "ret:malloc" = q ->
    reason_post obj subtype rho ty st o len hl b q (exec 100 m (frame_env rho ty st o len hl b) [] body).

Ltac cev2 :=
  ceval_env;
  repeat (progress (wrap_ids; decide_bools; cbv beta iota; cbn [orb andb];
                    repeat (rewrite arith_u64_mod; cbv beta iota);
                    rewrite ?tags_len_val, ?wrap_s32_idem));
  try reflexivity.

Ltac step2 :=
  lazymatch goal with
  | |- wp _ _ _ _ (SSet _ _ _ :: _) _ => eapply wp_set; [cev2 | ]
  | |- wp _ _ _ _ (SCall _ _ _ :: _) _ => eapply wp_call_n; [cev2 | cbn [app]; reflexivity | ]
  | |- wp _ _ _ _ (SClobber _ :: _) _ => eapply wp_clobber_n; [cbn [List.length]; reflexivity | ]
  | |- wp _ _ _ _ (SZero _ :: _) _ => apply wp_zero_c
  | |- wp _ _ _ _ [] _ => apply wp_nil; cbv beta iota delta [kont]
  | |- wp _ _ _ _ (SRet _ _ :: _) _ => eapply wp_ret; [cev2 | ]
  | |- wp _ _ _ _ (SIf _ _ _ _ :: _) _ =>
      first [ eapply wp_if_boolk; [solve [cev2] | lia | intro_cond | intro_cond ]
            | eapply wp_if_val; [solve [cev2] | intro_cond | intro_cond ] ]
  end.
Ltac leaf2 :=
  cbv beta iota delta [kont];
  cbv beta iota zeta delta [reason_post reason_hdr String.append s32 u64];
  eqb_hyps;
  cbv beta iota delta [negb orb andb app];
  repeat head_if;
  first [ solve [cbn [observe]; list_eq]
        | eexists; split; [ apply Returned_eq; [reflexivity | reflexivity | list_eq] | ];
          env_simpl; repeat split; try lia; reflexivity ].

Ltac reason_tac body sub :=
  intros rho ty st o len hl b q m Hty Hst Ho Hb Hhl Hend Hq Eq; nums;
  subst q;
  pose proof (wrap_s32_range (len - 24 - 2)); pose proof (wrap_s32_range (len - 28 - 2));
  apply (wp_exec 60 100); [ lia | ];
  unfold body, frame_env;
  destruct (Z.eqb_spec ty 0); destruct (Z.eqb_spec st sub);
  repeat step2; leaf2.

Theorem parse_deauth_ok : reason_parser_ok body_libwifi_parse_deauth "deauth" 12.
Proof. unfold reason_parser_ok. reason_tac body_libwifi_parse_deauth 12. Qed.

Theorem parse_disassoc_ok : reason_parser_ok body_libwifi_parse_disassoc "disassoc" 10.
Proof. unfold reason_parser_ok. reason_tac body_libwifi_parse_disassoc 10. Qed.

(* the common shape IS what the two routines do when header_len is the size of the header view the order flag selects (which is
   what the classifier stores: Gen/Sites.v, libwifi_get_wifi_frame, "set:header_len#2" = 28 and "set:header_len#3" = 24) and the
   tagged parameters are shorter than 2^31 octets: both copies read inside the body,
   the tagged parameters are everything behind the reason code *)
Theorem reason_parser_consistent body obj subtype :
  reason_parser_ok body obj subtype ->
  forall rho ty st o len hl b q m,
    0 <= ty < 2 ^ 31 -> 0 <= st < 2 ^ 31 -> 0 <= o < 2 ^ 31 ->
    0 < b -> 0 <= hl <= len -> b + len < 2 ^ 62 -> 0 <= q < 2 ^ 62 -> rho "ret:malloc" = q ->
    hl = (if o =? 0 then 24 else 28) -> len - hl - 2 < 2 ^ 31 ->
    let res := exec 100 m (frame_env rho ty st o len hl b) [] body in
    let n := len - hl - 2 in
    let t0 := [("memset", [wrap u64 (rho obj); 0; 50])] in
    let t1 := (t0 ++ [reason_hdr obj rho o; ("memcpy", [wrap u64 (rho ("&" ++ obj ++ "->fixed_parameters")%string); b; 2])])%list in
    if negb (ty =? 0) || negb (st =? subtype) then observe res = Some (Some (-22), t0)
    else if len <? hl + 2 then observe res = Some (Some (-22), t0)
    else
      b + 2 <= b + (len - hl) /\ (b + 2) + n = b + (len - hl) /\ 0 <= n /\
      if n =? 0 then
        exists rho', res = Returned (Some 0) rho' t1 /\ rho' (obj ++ "->tags.length") = n /\ rho' (obj ++ "->tags.parameters") = 0
      else if q =? 0 then observe res = Some (Some (-12), (t1 ++ [("malloc", [n])])%list)
      else exists rho',
        res = Returned (Some 0) rho' (t1 ++ [("malloc", [n]); ("memcpy", [q; b + 2; n])])%list /\
        rho' (obj ++ "->tags.length") = n /\ rho' (obj ++ "->tags.parameters") = q.
Proof.
  intros Hok rho ty st o len hl b q m Hty Hst Ho Hb Hhl Hend Hq Eq Ehl Hn res n t0 t1.
  specialize (Hok rho ty st o len hl b q m Hty Hst Ho Hb Hhl Hend Hq Eq).
  fold res in Hok. unfold reason_post in Hok. cbv zeta in Hok. fold t0 in Hok. fold t1 in Hok.
  rewrite <- Ehl in Hok. fold n in Hok. clearbody res. nums.
  destruct (negb (ty =? 0) || negb (st =? subtype)); [exact Hok | ].
  destruct (Z.ltb_spec len (hl + 2)) as [Hs | Hs]; [exact Hok | ].
  assert (Hw : wrap s32 n = n) by (apply wrap_s32_id; unfold n; lia).
  rewrite Hw in Hok.
  split; [lia | ]. split; [unfold n; lia | ]. split; [unfold n; lia | ].
  destruct (Z.eqb_spec n 0) as [E0 | N0].
  - rewrite E0 in Hok |- *. exact Hok.
  - destruct (Z.leb_spec n 0) as [Hle | Hgt]; [unfold n in *; lia | ]. exact Hok.
Qed.

(* ---------------------------------------------------------------- 5. what is false for deauth / disassoc as the common shape states it *)
Definition run_on (body : list cstmt) (q ty st o len hl b : Z) : option (option Z * list event) :=
  observe (exec 100 (fun _ => None) (frame_env (upd env0 "ret:malloc" q) ty st o len hl b) [] body).

(* a deauthentication frame of 40 octets, order flag clear, header_len 28: the body is [4096, 4108), 12 octets; the routine
   computes the length of the tagged parameters from the constant 24 and copies 14 octets from 4098: [4098, 4112) leaves
   the body by 4 octets.  Inside the stated ranges (0 <= hl <= len), outside what the classifier produces. *)
Example parse_deauth_refuted_header_len :
  run_on body_libwifi_parse_deauth 8192 0 12 0 40 28 4096 =
    Some (Some 0, [("memset", [0; 0; 50]); ("memcpy", [0; 0; 24]); ("memcpy", [0; 4096; 2]);
                   ("malloc", [14]); ("memcpy", [8192; 4098; 14])])
  /\ 4096 + (40 - 28) < 4098 + 14
  /\ run_on body_libwifi_parse_disassoc 8192 0 10 0 40 28 4096 =
    Some (Some 0, [("memset", [0; 0; 50]); ("memcpy", [0; 0; 24]); ("memcpy", [0; 4096; 2]);
                   ("malloc", [14]); ("memcpy", [8192; 4098; 14])]).
Proof. split; [vm_compute; reflexivity | split; [lia | vm_compute; reflexivity]]. Qed.

(* the narrowing to int: 2^31 octets of tagged parameters are silently dropped (0 returned, nothing allocated), 2^32 + 5 octets
   are truncated to 5.  Inside the stated ranges (b + len < 2^62). *)
Example parse_deauth_refuted_int :
  run_on body_libwifi_parse_deauth 8192 0 12 0 (2 ^ 31 + 26) 24 4096 =
    Some (Some 0, [("memset", [0; 0; 50]); ("memcpy", [0; 0; 24]); ("memcpy", [0; 4096; 2])])
  /\ run_on body_libwifi_parse_deauth 8192 0 12 0 (2 ^ 32 + 5 + 26) 24 4096 =
    Some (Some 0, [("memset", [0; 0; 50]); ("memcpy", [0; 0; 24]); ("memcpy", [0; 4096; 2]);
                   ("malloc", [5]); ("memcpy", [8192; 4098; 5])]).
Proof. split; vm_compute; reflexivity. Qed.

(* a frame with no tagged parameter at all (len = header_len + 2) is accepted: 0 and no allocation, where the other seven
   routines answer -22 for len = header_len + FIXED *)
Example parse_deauth_no_tags :
  run_on body_libwifi_parse_deauth 8192 0 12 0 26 24 4096 =
    Some (Some 0, [("memset", [0; 0; 50]); ("memcpy", [0; 0; 24]); ("memcpy", [0; 4096; 2])]).
Proof. vm_compute. reflexivity. Qed.

(* ---------------------------------------------------------------- 6. not vacuous *)
(* a beacon: header 24, fixed parameters 12 (capability 0x0411 at offset 10: privacy bit set), SSID element "ab" *)
Definition beacon_body : list byte := [1; 2; 3; 4; 5; 6; 7; 8; 100; 0; 17; 4; 0; 2; 97; 98].
Definition run_beacon (readable : list byte) : xresult :=
  exec 100 (mem_at 4096 readable) (frame_env (upd env0 "ret:malloc" 8192) 0 8 0 40 24 4096) [] body_libwifi_parse_beacon.

Example parse_beacon_sample :
  match run_beacon beacon_body with
  | Returned v rho' tr =>
      v = Some 0 /\
      tr = [("memset", [0; 0; 208]); ("memcpy", [0; 0; 6]); ("memcpy", [0; 0; 6]); ("memcpy", [0; 0; 6]);
            ("malloc", [4]); ("memcpy", [8192; 4108; 4]); ("memset", [0; 0; 32]);
            ("libwifi_tag_iterator_init", [0; 8192; 4]); ("libwifi_bss_tag_parser", [0; 0])] /\
      rho' "bss->tags.length" = 4 /\ rho' "bss->tags.parameters" = 8192 /\ rho' "bss->encryption_info" = 2
  | _ => False
  end.
Proof. vm_compute. repeat split; reflexivity. Qed.

(* the memory of the theorems is exactly the body: with the second octet of the capability field unreadable the same run is
   stuck - the evaluator notices a load outside, so "the run returns" does say that the load stays inside the body *)
Example parse_beacon_needs_capability : observe (run_beacon (firstn 11 beacon_body)) = None.
Proof. vm_compute. reflexivity. Qed.

(* probe request without any tagged parameter: no length check, malloc(0) is asked *)
Example parse_probe_req_empty :
  run_on body_libwifi_parse_probe_req 0 0 4 0 24 24 4096 =
    Some (Some (-12), [("memset", [0; 0; 70]); ("memcpy", [0; 0; 6]); ("memcpy", [0; 0; 6]); ("memcpy", [0; 0; 6]); ("malloc", [0])]).
Proof. vm_compute. reflexivity. Qed.

(* one octet of tagged parameters: accepted by assoc_req, refused by the second check of assoc_resp *)
Example one_octet_of_tags :
  run_on body_libwifi_parse_assoc_req 0 0 0 0 29 24 4096 =
    Some (Some (-12), [("memset", [0; 0; 70]); ("memcpy", [0; 0; 6]); ("memcpy", [0; 0; 6]); ("memcpy", [0; 0; 6]); ("malloc", [1])])
  /\ run_on body_libwifi_parse_assoc_resp 0 0 1 0 31 24 4096 =
    Some (Some (-22), [("memset", [0; 0; 208]); ("memcpy", [0; 0; 6]); ("memcpy", [0; 0; 6]); ("memcpy", [0; 0; 6])]).
Proof. split; vm_compute; reflexivity. Qed.

Print Assumptions parse_beacon_ok.
Print Assumptions parse_probe_resp_ok.
Print Assumptions parse_assoc_resp_ok.
Print Assumptions parse_reassoc_resp_ok.
Print Assumptions parse_probe_req_ok.
Print Assumptions parse_assoc_req_ok.
Print Assumptions parse_reassoc_req_ok.
Print Assumptions parser_ok_reads.
Print Assumptions seven_parsers_read_inside_the_body.
Print Assumptions parse_deauth_ok.
Print Assumptions parse_disassoc_ok.
Print Assumptions reason_parser_consistent.
Print Assumptions parse_deauth_refuted_header_len.
Print Assumptions parse_deauth_refuted_int.
Print Assumptions parse_beacon_sample.
Print Assumptions parse_beacon_needs_capability.

