From Coq Require Import List Arith Lia.
From LW Require Import Model.Threads.
Import ListNotations.

Section P.
  Variable G L : Type.
  Variable step : nat -> G -> L -> G * L.

  Lemma iter_comm {A} (h : A -> A) n x : Nat.iter n h (h x) = h (Nat.iter n h x).
  Proof. induction n as [|n IH]; [reflexivity|]. cbn [Nat.iter nat_rect] in *. unfold Nat.iter in *. cbn [nat_rect]. now rewrite IH. Qed.

  Lemma alone_pure f (Hf : forall t g l, step t g l = (g, f t l)) t n g l :
    alone G L step t n g l = (g, Nat.iter n (f t) l).
  Proof.
    revert l. induction n as [|n IH]; intros l; cbn [alone]; [reflexivity|].
    rewrite Hf. rewrite IH. f_equal. cbn [Nat.iter]. apply iter_comm.
  Qed.

  (* extensional form: the state of every thread after any schedule *)
  Lemma run_pure_pt f (Hf : forall t g l, step t g l = (g, f t l)) :
    forall sched g s u,
      fst (run G L step sched g s) = g /\
      snd (run G L step sched g s) u = Nat.iter (count_occ Nat.eq_dec sched u) (f u) (s u).
  Proof.
    induction sched as [|t r IH]; intros g s u; cbn [run].
    - split; reflexivity.
    - rewrite Hf. destruct (IH g (upd L s t (f t (s t))) u) as [Hg Hs]. split; [exact Hg|].
      rewrite Hs. unfold upd. cbn [count_occ].
      destruct (Nat.eq_dec t u) as [E|E].
      + subst u. rewrite Nat.eqb_refl. cbn [Nat.iter]. apply iter_comm.
      + destruct (Nat.eqb u t) eqn:E'; [apply Nat.eqb_eq in E'; congruence|reflexivity].
  Qed.

  (* any interleaving gives every thread exactly the result it obtains alone; the shared state is untouched *)
  Theorem interleaving_equals_sequential :
    footprint_empty G L step ->
    forall sched g s u,
      let n := count_occ Nat.eq_dec sched u in
      fst (run G L step sched g s) = g /\
      snd (run G L step sched g s) u = snd (alone G L step u n g (s u)).
  Proof.
    intros [f Hf] sched g s u n.
    destruct (run_pure_pt f Hf sched g s u) as [Hg Hs]. split; [exact Hg|].
    rewrite Hs. subst n. rewrite (alone_pure f Hf). reflexivity.
  Qed.

  (* two schedules that give every thread the same number of steps are indistinguishable *)
  Corollary schedules_indistinguishable :
    footprint_empty G L step ->
    forall s1 s2 g s, (forall u, count_occ Nat.eq_dec s1 u = count_occ Nat.eq_dec s2 u) ->
    forall u, snd (run G L step s1 g s) u = snd (run G L step s2 g s) u.
  Proof.
    intros H s1 s2 g s Hc u.
    destruct (interleaving_equals_sequential H s1 g s u) as [_ H1].
    destruct (interleaving_equals_sequential H s2 g s u) as [_ H2].
    rewrite H1, H2, Hc. reflexivity.
  Qed.
End P.
