(* C preprocessor tokens and function-like macros, target of the translator (Gen/Macros.v). *)
From Coq Require Import List ZArith String.
Import ListNotations.

Inductive tok :=
| TId (s : string)      (* identifier *)
| TNum (z : Z)          (* integer literal *)
| TOp (s : string)      (* operator: + - * / % << >> < > <= >= == != & ^ | && || ~ ! ? : *)
| TLParen | TRParen | TComma.

Record macro := { m_name : string; m_params : list string; m_body : list tok }.
