(* Typed C integer expressions: the target of the translator for the guards, length computations, declarations and
   call arguments of selected libwifi routines (Gen/Sites.v).  Every node carries the integer type clang computed for it,
   every implicit or explicit conversion is a CCast node, so that the evaluator below performs the usual arithmetic
   conversions, the narrowing of an initialiser to its variable's type, and wrap-around of unsigned arithmetic exactly
   where the C source does.  Signed overflow, division by zero and oversized shifts are undefined behaviour: [None].

   Pointers are evaluated as addresses (unsigned 64-bit integers); the translator only emits pointer arithmetic on
   pointers to single-octet types, anything else becomes CUnknown. *)
From Coq Require Import ZArith String Ascii List Bool.
Import ListNotations.
Local Open Scope Z_scope.

Record cty := mkty { c_signed : bool; c_bits : Z }.

Definition u8 := mkty false 8.    Definition s8 := mkty true 8.
Definition u16 := mkty false 16.  Definition s16 := mkty true 16.
Definition u32 := mkty false 32.  Definition s32 := mkty true 32.
Definition u64 := mkty false 64.  Definition s64 := mkty true 64.
Definition cbool := mkty false 1.

Inductive cbinop := OAdd | OSub | OMul | ODiv | ORem | OShl | OShr | OAnd | OOr | OXor
                  | OLt | OLe | OGt | OGe | OEq | ONe | OLAnd | OLOr.
Inductive cunop := UNeg | UNot | ULNot.

Inductive cexpr :=
| CLit (t : cty) (v : Z)
| CVar (t : cty) (name : string)           (* an lvalue read: parameter, local, struct member, array element, by its source text *)
| CCast (t : cty) (e : cexpr)
| CBin (op : cbinop) (t : cty) (a b : cexpr)   (* t = the type of the result; operands were converted by CCast nodes *)
| CUn (op : cunop) (t : cty) (a : cexpr)
| CCond (t : cty) (c a b : cexpr)
| CCall (t : cty) (f : string) (args : list cexpr)
| CLoad (t : cty) (a : cexpr)              (* a read from memory at the address a: *p, p[i], q->field where q is itself loaded *)
| CUnknown.

Definition modulus (t : cty) : Z := 2 ^ c_bits t.
Definition tmin (t : cty) : Z := if c_signed t then - 2 ^ (c_bits t - 1) else 0.
Definition tmax (t : cty) : Z := if c_signed t then 2 ^ (c_bits t - 1) - 1 else 2 ^ c_bits t - 1.
Definition in_range (t : cty) (v : Z) : bool := (tmin t <=? v) && (v <=? tmax t).

(* conversion to an integer type: value-preserving when representable, modulo 2^N otherwise (implementation-defined for
   signed targets; gcc and clang reduce modulo 2^N) *)
Definition wrap (t : cty) (v : Z) : Z :=
  let r := v mod modulus t in
  if c_signed t then (if r <=? tmax t then r else r - modulus t) else r.

(* result of arithmetic in type t: unsigned wraps, signed overflow is undefined *)
Definition arith (t : cty) (v : Z) : option Z :=
  if c_signed t then (if in_range t v then Some v else None) else Some (v mod modulus t).

Definition b2z (b : bool) : Z := if b then 1 else 0.

Definition binop (op : cbinop) (t : cty) (x y : Z) : option Z :=
  match op with
  | OAdd => arith t (x + y)
  | OSub => arith t (x - y)
  | OMul => arith t (x * y)
  | ODiv => if y =? 0 then None else arith t (Z.quot x y)
  | ORem => if y =? 0 then None else arith t (Z.rem x y)
  | OShl => if (y <? 0) || (c_bits t <=? y) || (x <? 0) then None else arith t (x * 2 ^ y)
  | OShr => if (y <? 0) || (c_bits t <=? y) then None else Some (Z.shiftr x y)
  | OAnd => Some (wrap t (Z.land x y))
  | OOr => Some (wrap t (Z.lor x y))
  | OXor => Some (wrap t (Z.lxor x y))
  | OLt => Some (b2z (x <? y))
  | OLe => Some (b2z (x <=? y))
  | OGt => Some (b2z (x >? y))
  | OGe => Some (b2z (x >=? y))
  | OEq => Some (b2z (x =? y))
  | ONe => Some (b2z (negb (x =? y)))
  | OLAnd => Some (b2z (negb (x =? 0) && negb (y =? 0)))
  | OLOr => Some (b2z (negb (x =? 0) || negb (y =? 0)))
  end.

Definition env := string -> Z.

(* the memory a routine may read: the byte at an address, None where nothing is readable.  Little-endian loads. *)
Definition memory := Z -> option Z.
Fixpoint load_le (m : memory) (a : Z) (n : nat) : option Z :=
  match n with
  | O => Some 0
  | S k => match m a, load_le m (a + 1) k with Some b, Some r => Some (b + 256 * r) | _, _ => None end
  end.

(* && and || do not evaluate their right operand when the left one decides; the sites translated here have no side
   effects, but undefined behaviour on the unevaluated side must not make the whole expression undefined *)
Fixpoint ceval (rho : env) (m : memory) (e : cexpr) : option Z :=
  match e with
  | CLit t v => Some (wrap t v)
  | CVar t x => Some (wrap t (rho x))
  | CCast t a => match ceval rho m a with Some v => Some (wrap t v) | None => None end
  | CBin OLAnd t a b =>
      match ceval rho m a with
      | Some x => if x =? 0 then Some 0 else match ceval rho m b with Some y => Some (b2z (negb (y =? 0))) | None => None end
      | None => None end
  | CBin OLOr t a b =>
      match ceval rho m a with
      | Some x => if negb (x =? 0) then Some 1 else match ceval rho m b with Some y => Some (b2z (negb (y =? 0))) | None => None end
      | None => None end
  | CBin op t a b =>
      match ceval rho m a, ceval rho m b with Some x, Some y => binop op t x y | _, _ => None end
  | CUn UNeg t a => match ceval rho m a with Some x => arith t (- x) | None => None end
  | CUn UNot t a => match ceval rho m a with Some x => Some (wrap t (Z.lnot x)) | None => None end
  | CUn ULNot t a => match ceval rho m a with Some x => Some (b2z (x =? 0)) | None => None end
  | CCond t c a b =>
      match ceval rho m c with
      | Some x => if negb (x =? 0) then ceval rho m a else ceval rho m b
      | None => None end
  | CCall t f _ => Some (wrap t (rho ("ret:" ++ f)%string))      (* the result of a call is an unknown value of its type *)
  | CLoad t a =>
      match ceval rho m a with
      | Some addr => match load_le m addr (Z.to_nat (c_bits t / 8)) with Some v => Some (wrap t v) | None => None end
      | None => None end
  | CUnknown => None
  end.

(* ---------------------------------------------------------------- statements
   The body of a routine as the translator sees it: assignments to lvalues named by their source text, calls to the
   allocation / copy / formatting routines (their evaluated arguments form the trace), conditionals, loops, returns.
   A statement the translator does not understand is SOther and makes execution stuck.

   Memory is not modelled: an lvalue keeps the value the environment gives it until an SSet with exactly that text assigns
   it.  The theorems that use [exec] are about routines whose reads do not alias their writes (dump routines writing the
   caller's buffer, list editing that only reads its own header fields); that is part of what they assume. *)
Inductive cstmt :=
| SSet (k lhs : string) (e : cexpr)
| SCall (k f : string) (args : list cexpr)
| SIf (k : string) (c : cexpr) (a b : list cstmt)
| SLoop (k : string) (pre : bool) (c : cexpr) (body step : list cstmt)
| SRet (k : string) (e : option cexpr)
| SSwitch (k : string) (e : cexpr) (cases : list (list Z * list cstmt)) (default : list cstmt)
    (* the structured form only: every case body ends in break or return (stacked labels share one body) *)
| SBreak
| SInline (x : string) (body : list cstmt)
    (* a call to another translated routine, its body placed here with the parameters replaced by the arguments: a return inside ends the
       block and stores the value in x *)
| SZero (x : string)          (* memset(p, 0, sizeof *p) / memset(&x, 0, sizeof x): every lvalue whose text starts with x reads 0 *)
| SClobber (x : string)       (* a callee was handed &x (or the local array x) through a pointer to non-const: x and its parts are unknown now *)
| SOther (what : string).

Definition upd (rho : env) (x : string) (v : Z) : env := fun y => if String.eqb y x then v else rho y.

(* after a callee may have written x: every lvalue whose text starts with x reads an arbitrary value - a name of the
   environment that nothing else mentions, different for every call made so far *)
Fixpoint primes (n : nat) : string := match n with O => EmptyString | S k => String "'"%char (primes k) end.
Definition clobber (rho : env) (n : nat) (x : string) : env :=
  fun y => if String.prefix x y then rho ("havoc:" ++ y ++ primes n)%string else rho y.

Definition zeroed (rho : env) (x : string) : env := fun y => if String.prefix x y then 0 else rho y.

Definition event := (string * list Z)%type.           (* routine called, evaluated arguments *)

Inductive xresult :=
| Fell (rho : env) (tr : list event)                   (* reached the end of the statement list *)
| Returned (v : option Z) (rho : env) (tr : list event)
| Broke (rho : env) (tr : list event)                  (* a break statement: leaves the enclosing switch or loop *)
| Stuck (why : string)
| NoFuel.

Fixpoint evals (rho : env) (m : memory) (l : list cexpr) : option (list Z) :=
  match l with
  | [] => Some []
  | e :: r => match ceval rho m e, evals rho m r with Some v, Some vs => Some (v :: vs) | _, _ => None end
  end.

Fixpoint pick_case (v : Z) (cases : list (list Z * list cstmt)) (default : list cstmt) : list cstmt :=
  match cases with
  | [] => default
  | (labels, body) :: r => if existsb (Z.eqb v) labels then body else pick_case v r default
  end.

Fixpoint exec (fuel : nat) (m : memory) (rho : env) (tr : list event) (l : list cstmt) : xresult :=
  match fuel with
  | O => NoFuel
  | S f =>
    match l with
    | [] => Fell rho tr
    | s :: r =>
      match s with
      | SSet k x e => match ceval rho m e with Some v => exec f m (upd rho x v) tr r | None => Stuck k end
      | SCall k g args => match evals rho m args with Some vs => exec f m rho (tr ++ [(g, vs)]) r | None => Stuck k end
      | SIf k c a b =>
          match ceval rho m c with
          | Some v => match exec f m rho tr (if negb (v =? 0) then a else b) with
                      | Fell rho' tr' => exec f m rho' tr' r
                      | o => o end
          | None => Stuck k end
      | SLoop k pre c body step =>
          let continue_ rho1 tr1 :=
            match exec f m rho1 tr1 body with
            | Fell rho2 tr2 => match exec f m rho2 tr2 step with
                               | Fell rho3 tr3 => exec f m rho3 tr3 (SLoop k true c body step :: r)
                               | o => o end
            | Broke rho2 tr2 => exec f m rho2 tr2 r
            | o => o end in
          if pre then
            match ceval rho m c with
            | Some v => if negb (v =? 0) then continue_ rho tr else exec f m rho tr r
            | None => Stuck k end
          else continue_ rho tr
      | SSwitch k e cases default =>
          match ceval rho m e with
          | Some v => match exec f m rho tr (pick_case v cases default) with
                      | Fell rho' tr' => exec f m rho' tr' r
                      | Broke rho' tr' => exec f m rho' tr' r
                      | o => o end
          | None => Stuck k end
      | SBreak => Broke rho tr
      | SInline x body =>
          match exec f m rho tr body with
          | Returned (Some v) rho' tr' => exec f m (upd rho' x v) tr' r
          | Returned None rho' tr' => exec f m rho' tr' r
          | Fell rho' tr' => exec f m rho' tr' r
          | o => o end
      | SZero x => exec f m (zeroed rho x) tr r
      | SClobber x => exec f m (clobber rho (length tr) x) tr r
      | SRet k None => Returned None rho tr
      | SRet k (Some e) => match ceval rho m e with Some v => Returned (Some v) rho tr | None => Stuck k end
      | SOther w => Stuck w
      end
    end
  end.

(* what a caller can see of an execution: the value returned (None for void / falling off the end) and the calls made *)
Definition observe (o : xresult) : option (option Z * list event) :=
  match o with
  | Returned v _ tr => Some (v, tr)
  | Fell _ tr => Some (None, tr)
  | _ => None
  end.

(* the sites of one routine, by key ("if#0", "decl:total", "ret#1", "call:memcpy#0:2" ...) *)
Fixpoint site (l : list (string * cexpr)) (k : string) : cexpr :=
  match l with
  | [] => CUnknown
  | (k', e) :: r => if String.eqb k k' then e else site r k
  end.

Fixpoint fsites (l : list (string * list (string * cexpr))) (f : string) : list (string * cexpr) :=
  match l with
  | [] => []
  | (f', s) :: r => if String.eqb f f' then s else fsites r f
  end.

(* an environment given as an association list, 0 elsewhere *)
Fixpoint env_of (l : list (string * Z)) : env :=
  fun x => match l with
           | [] => 0
           | (k, v) :: r => if String.eqb x k then v else env_of r x
           end.
