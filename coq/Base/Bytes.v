(* Base definitions shared by every model: bytes, buffers, little/big-endian words,
   the result monad and the read-oracle discipline of DESIGN.md section 3. *)
From Coq Require Export List ZArith Lia Bool.
Export ListNotations.
Local Open Scope Z_scope.

Definition byte := Z.
Definition zlen {A} (l : list A) : Z := Z.of_nat (length l).
Definition znth (l : list byte) (i : Z) : byte := nth (Z.to_nat i) l 0.
Definition wfbytes (buf : list byte) : Prop := Forall (fun b => 0 <= b < 256) buf.
Definition wfbytesb (buf : list byte) : bool := forallb (fun b => (0 <=? b) && (b <? 256)) buf.

(* slices *)
Definition zfirstn {A} (n : Z) (l : list A) : list A := firstn (Z.to_nat n) l.
Definition zskipn {A} (n : Z) (l : list A) : list A := skipn (Z.to_nat n) l.
Definition slice {A} (off n : Z) (l : list A) : list A := zfirstn n (zskipn off l).

(* little/big endian decoding of a byte list (whole list) *)
Fixpoint le_dec (l : list byte) : Z :=
  match l with [] => 0 | b :: r => b + 256 * le_dec r end.
Definition be_dec (l : list byte) : Z := le_dec (rev l).
Definition le16 (l : list byte) (off : Z) : Z := le_dec (slice off 2 l).
Definition le32 (l : list byte) (off : Z) : Z := le_dec (slice off 4 l).
Definition le64 (l : list byte) (off : Z) : Z := le_dec (slice off 8 l).
Definition be16 (l : list byte) (off : Z) : Z := be_dec (slice off 2 l).
Definition be64 (l : list byte) (off : Z) : Z := be_dec (slice off 8 l).

(* little endian encoding on n bytes *)
Fixpoint le_enc (n : nat) (v : Z) : list byte :=
  match n with O => [] | S k => (v mod 256) :: le_enc k (v / 256) end.
Definition be_enc (n : nat) (v : Z) : list byte := rev (le_enc n v).

(* ---------- result monad ---------- *)
Inductive fault_kind := OobRead | OobWrite | Overlap | NegSize | NullDeref | DoubleFree | UseAfterFree.
Inductive res (A : Type) := Done (a : A) | Fault (k : fault_kind) (at_ : Z) | OutOfFuel.
Arguments Done {A}. Arguments Fault {A}. Arguments OutOfFuel {A}.
Definition bind {A B} (m : res A) (f : A -> res B) : res B :=
  match m with Done a => f a | Fault k z => Fault k z | OutOfFuel => OutOfFuel end.
Notation "'let*' x ':=' m 'in' k" := (bind m (fun x => k))
  (at level 200, x name, right associativity).
Notation "'let*' ' p ':=' m 'in' k" := (bind m (fun x => match x with p => k end))
  (at level 200, p pattern, right associativity).

(* what a C entry point returns *)
Inductive outcome (A : Type) := Ok (a : A) | Err (code : Z).
Arguments Ok {A}. Arguments Err {A}.

Definition agrees (rd : Z -> res byte) (buf : list byte) : Prop :=
  forall i, 0 <= i < zlen buf -> rd i = Done (znth buf i).
Definition rd_strict (buf : list byte) (i : Z) : res byte :=
  if (0 <=? i) && (i <? zlen buf) then Done (znth buf i) else Fault OobRead i.
Definition rd_env (buf : list byte) (env : Z -> byte) (i : Z) : res byte :=
  if (0 <=? i) && (i <? zlen buf) then Done (znth buf i) else Done (env i).

Section Reads.
  Variable rd : Z -> res byte.
  (* read n bytes starting at off, in increasing address order *)
  Fixpoint rd_bytes (n : nat) (off : Z) : res (list byte) :=
    match n with
    | O => Done []
    | S k => let* b := rd off in let* r := rd_bytes k (off + 1) in Done (b :: r)
    end.
  Definition rd_le (n : nat) (off : Z) : res Z := let* l := rd_bytes n off in Done (le_dec l).
  Definition rd_be (n : nat) (off : Z) : res Z := let* l := rd_bytes n off in Done (be_dec l).
End Reads.

(* ---------- lemmas ---------- *)
Lemma zlen_nonneg {A} (l : list A) : 0 <= zlen l.
Proof. unfold zlen; lia. Qed.
Lemma zlen_nil {A} : zlen (@nil A) = 0.
Proof. reflexivity. Qed.
Lemma zlen_cons {A} (x : A) l : zlen (x :: l) = 1 + zlen l.
Proof. unfold zlen; cbn [length]; lia. Qed.
Lemma zlen_app {A} (a b : list A) : zlen (a ++ b) = zlen a + zlen b.
Proof. unfold zlen; rewrite app_length; lia. Qed.

Lemma nth_skipn' {A} (d : A) : forall k l i, nth i (skipn k l) d = nth (k + i) l d.
Proof.
  induction k as [|k IH]; intros [|x l] i; cbn; try reflexivity;
    [destruct i; reflexivity | apply IH].
Qed.
Lemma skipn_skipn' {A} : forall a b (l : list A), skipn a (skipn b l) = skipn (a + b) l.
Proof.
  intros a b; revert a. induction b as [|b IH]; intros a l.
  - rewrite Nat.add_0_r. reflexivity.
  - destruct l as [|x l]; [now rewrite !skipn_nil|].
    rewrite Nat.add_succ_r. cbn [skipn]. apply IH.
Qed.
Lemma In_skipn {A} (x : A) : forall k l, In x (skipn k l) -> In x l.
Proof. induction k as [|k IH]; intros [|y l] H; cbn in *; auto. Qed.
Lemma In_firstn {A} (x : A) : forall k l, In x (firstn k l) -> In x l.
Proof.
  induction k as [|k IH]; intros [|y l] H; cbn in *; auto; try contradiction.
  destruct H; auto.
Qed.

Lemma znth_skipn buf k i : 0 <= k -> 0 <= i ->
  znth (skipn (Z.to_nat k) buf) i = znth buf (k + i).
Proof. intros Hk Hi. unfold znth. rewrite nth_skipn'. f_equal. lia. Qed.
Lemma zlen_skipn {A} (l : list A) k : 0 <= k <= zlen l ->
  zlen (skipn (Z.to_nat k) l) = zlen l - k.
Proof. unfold zlen. intros H. rewrite skipn_length. lia. Qed.
Lemma zlen_firstn {A} (l : list A) k : 0 <= k <= zlen l ->
  zlen (firstn (Z.to_nat k) l) = k.
Proof. unfold zlen. intros H. rewrite firstn_length. lia. Qed.

Lemma wfbytes_In buf b : wfbytes buf -> In b buf -> 0 <= b < 256.
Proof. unfold wfbytes. rewrite Forall_forall. auto. Qed.
Lemma wfbytes_znth buf i : wfbytes buf -> 0 <= i < zlen buf -> 0 <= znth buf i < 256.
Proof.
  intros Hwf Hi. apply (wfbytes_In buf); [assumption|].
  unfold znth. apply nth_In. unfold zlen in Hi. lia.
Qed.
Lemma wfbytes_skipn buf k : wfbytes buf -> wfbytes (skipn k buf).
Proof.
  unfold wfbytes. rewrite !Forall_forall. intros H x Hx. apply H. eapply In_skipn; eauto.
Qed.
Lemma wfbytes_firstn buf k : wfbytes buf -> wfbytes (firstn k buf).
Proof.
  unfold wfbytes. rewrite !Forall_forall. intros H x Hx. apply H. eapply In_firstn; eauto.
Qed.
Lemma wfbytes_app a b : wfbytes a -> wfbytes b -> wfbytes (a ++ b).
Proof. unfold wfbytes. intros. apply Forall_app; auto. Qed.
Lemma wfbytes_app_inv a b : wfbytes (a ++ b) -> wfbytes a /\ wfbytes b.
Proof. unfold wfbytes. intros H. apply Forall_app in H. exact H. Qed.
Lemma wfbytesb_spec buf : wfbytesb buf = true <-> wfbytes buf.
Proof.
  unfold wfbytesb, wfbytes. rewrite forallb_forall, Forall_forall.
  split; intros H x Hx; specialize (H x Hx); lia.
Qed.

Lemma agrees_strict buf : agrees (rd_strict buf) buf.
Proof.
  intros i Hi. unfold rd_strict.
  destruct (0 <=? i) eqn:A; destruct (i <? zlen buf) eqn:B; cbn; try reflexivity; lia.
Qed.
Lemma agrees_env buf env : agrees (rd_env buf env) buf.
Proof.
  intros i Hi. unfold rd_env.
  destruct (0 <=? i) eqn:A; destruct (i <? zlen buf) eqn:B; cbn; try reflexivity; lia.
Qed.

Lemma skipn_cons_nth {A} (d : A) : forall k l, (k < length l)%nat ->
  skipn k l = nth k l d :: skipn (S k) l.
Proof.
  induction k as [|k IH]; intros [|x l] Hl; cbn in *; try lia; [reflexivity|].
  apply IH. lia.
Qed.
Lemma skipn_cons_znth buf off : 0 <= off < zlen buf ->
  skipn (Z.to_nat off) buf = znth buf off :: skipn (Z.to_nat (off + 1)) buf.
Proof.
  intros H. unfold znth. replace (Z.to_nat (off + 1)) with (S (Z.to_nat off)) by lia.
  apply skipn_cons_nth. unfold zlen in H. lia.
Qed.

(* reading n bytes inside the buffer yields the slice *)
Lemma rd_bytes_agrees rd buf : agrees rd buf ->
  forall n off, 0 <= off -> off + Z.of_nat n <= zlen buf ->
  rd_bytes rd n off = Done (firstn n (skipn (Z.to_nat off) buf)).
Proof.
  intros Hag. induction n as [|n IH]; intros off Hoff Hlen; [reflexivity|].
  cbn [rd_bytes]. rewrite Hag by lia. cbn [bind].
  rewrite IH by lia. cbn [bind].
  f_equal.
  rewrite (skipn_cons_znth buf off) by lia.
  reflexivity.
Qed.

Lemma le_dec_bound l : wfbytes l -> 0 <= le_dec l < 256 ^ zlen l.
Proof.
  induction l as [|b r IH]; intros Hwf.
  - cbn. lia.
  - inversion Hwf as [|? ? Hb Hr]; subst. specialize (IH Hr).
    rewrite zlen_cons. cbn [le_dec].
    rewrite Z.pow_add_r by (try lia; apply zlen_nonneg). lia.
Qed.

Lemma le_enc_length n v : length (le_enc n v) = n.
Proof. revert v; induction n as [|n IH]; intros v; cbn; [reflexivity| now rewrite IH]. Qed.
Lemma le_enc_wf n v : wfbytes (le_enc n v).
Proof.
  revert v; induction n as [|n IH]; intros v; cbn; constructor.
  - pose proof (Z.mod_pos_bound v 256). lia.
  - apply IH.
Qed.
Lemma le_dec_enc n v : 0 <= v < 256 ^ Z.of_nat n -> le_dec (le_enc n v) = v.
Proof.
  revert v; induction n as [|n IH]; intros v Hv.
  - cbn in *. lia.
  - cbn [le_enc le_dec]. rewrite IH.
    + pose proof (Z.div_mod v 256). lia.
    + rewrite Nat2Z.inj_succ, Z.pow_succ_r in Hv by lia.
      split; [apply Z.div_pos; lia | apply Z.div_lt_upper_bound; lia].
Qed.
