(* An interpreter for translated bodies that contain FORWARD gotos (Base/CExpr.v's exec treats a goto as stuck).

   The translator leaves  SOther "goto L"  where the C text says  goto L;  and  SOther "label L"  in front of the statements
   the label  L:  is attached to (translated in place).  [execg] is [exec] with three additions:
     - SOther "goto L" ends the current statement list with the outcome  Jumped L;
     - SOther "label L" reached by falling into it does nothing;
     - when a compound statement (if, switch, inlined block) of a list  s :: r  ends in  Jumped L, the REST r of that list is
       searched for the label: at its top level, or at the top level of the DEFAULT group of a switch of r (whose statements after
       the label then run as that switch's body: a break or the end of the group leaves the switch, and r continues behind it).
       Found: execution continues there with the environment and trace of the jump.  Not found: the jump propagates to the
       enclosing list, which searches ITS rest - so only forward jumps to a label in an enclosing block (or in the last group of a
       switch of an enclosing block) are executed; anything else ends as  Jumped  at the top, which [observeg] does not accept.
   This is C's semantics for such jumps (no declaration with an initialiser is skipped into scope in the routines it is used for:
   ieee80211_radiotap_iterator_next declares its locals at the top of the loop body).

   Nothing in Base/CExpr.v changes: the existing theorems about [exec] are untouched, [execg] is used for the one routine with
   gotos.  On goto-free code the two agree (not needed, not proved here). *)
From Coq Require Import ZArith String List Bool.
From LW Require Import Base.CExpr.
Import ListNotations.
Local Open Scope Z_scope.

Inductive gresult :=
| GFell (rho : env) (tr : list event)
| GReturned (v : option Z) (rho : env) (tr : list event)
| GBroke (rho : env) (tr : list event)
| GJumped (l : string) (rho : env) (tr : list event)
| GStuck (why : string)
| GNoFuel.

Definition goto_of (w : string) : option string :=
  if String.prefix "goto " w then Some (String.substring 5 (String.length w - 5) w) else None.
Definition is_label (l w : string) : bool := String.eqb w (String.append "label " l).

(* the statements behind  label l  at the top level of a list *)
Fixpoint after_label (l : string) (r : list cstmt) : option (list cstmt) :=
  match r with
  | [] => None
  | SOther w :: r' => if is_label l w then Some r' else after_label l r'
  | _ :: r' => after_label l r'
  end.

(* where a jump to l continues in the rest r of a list: behind the label at top level, or inside the default group of a switch *)
Fixpoint landing (l : string) (r : list cstmt) : option (list cstmt) :=
  match r with
  | [] => None
  | SOther w :: r' => if is_label l w then Some r' else landing l r'
  | SSwitch k e cases d :: r' =>
      match after_label l d with
      | Some t => Some (SSwitch k (CLit (mkty true 32) 0) [] t :: r')     (* run t as the switch's body, then r' *)
      | None => landing l r'
      end
  | _ :: r' => landing l r'
  end.

Fixpoint execg (fuel : nat) (m : memory) (rho : env) (tr : list event) (l : list cstmt) : gresult :=
  match fuel with
  | O => GNoFuel
  | S f =>
    match l with
    | [] => GFell rho tr
    | s :: r =>
      let after (o : gresult) : gresult :=
        match o with
        | GFell rho' tr' => execg f m rho' tr' r
        | GJumped lab rho' tr' => match landing lab r with Some r2 => execg f m rho' tr' r2 | None => o end
        | o => o
        end in
      match s with
      | SSet k x e => match ceval rho m e with Some v => execg f m (upd rho x v) tr r | None => GStuck k end
      | SCall k g args => match evals rho m args with Some vs => execg f m rho (tr ++ [(g, vs)]) r | None => GStuck k end
      | SIf k c a b =>
          match ceval rho m c with
          | Some v => after (execg f m rho tr (if negb (v =? 0) then a else b))
          | None => GStuck k end
      | SLoop k pre c body step =>
          let continue_ rho1 tr1 :=
            match execg f m rho1 tr1 body with
            | GFell rho2 tr2 => match execg f m rho2 tr2 step with
                                | GFell rho3 tr3 => execg f m rho3 tr3 (SLoop k true c body step :: r)
                                | o => o end
            | GBroke rho2 tr2 => execg f m rho2 tr2 r
            | o => o end in
          if pre then
            match ceval rho m c with
            | Some v => if negb (v =? 0) then continue_ rho tr else execg f m rho tr r
            | None => GStuck k end
          else continue_ rho tr
      | SSwitch k e cases default =>
          match ceval rho m e with
          | Some v =>
              let finish (o : gresult) : gresult :=
                match o with GBroke rho' tr' => execg f m rho' tr' r | o => after o end in
              match execg f m rho tr (pick_case v cases default) with
              | GJumped lab rho' tr' =>
                  (* a jump out of one group to a label in this switch's own default group *)
                  match after_label lab default with
                  | Some t => finish (execg f m rho' tr' t)
                  | None => after (GJumped lab rho' tr')
                  end
              | o => finish o
              end
          | None => GStuck k end
      | SBreak => GBroke rho tr
      | SInline x body =>
          match execg f m rho tr body with
          | GReturned (Some v) rho' tr' => execg f m (upd rho' x v) tr' r
          | GReturned None rho' tr' => execg f m rho' tr' r
          | o => after o end
      | SZero x => execg f m (zeroed rho x) tr r
      | SClobber x => execg f m (clobber rho (length tr) x) tr r
      | SRet k None => GReturned None rho tr
      | SRet k (Some e) => match ceval rho m e with Some v => GReturned (Some v) rho tr | None => GStuck k end
      | SOther w =>
          match goto_of w with
          | Some lab => GJumped lab rho tr
          | None => if String.prefix "label " w then execg f m rho tr r else GStuck w
          end
      end
    end
  end.

Definition observeg (o : gresult) : option (option Z * list event) :=
  match o with
  | GReturned v _ tr => Some (v, tr)
  | GFell _ tr => Some (None, tr)
  | _ => None
  end.
