(* Small arithmetic-expression language over a clock reading, target of the translator for
   libwifi_get_epoch's return expression (Gen/Arith.v). C semantics of / and % on the
   non-negative operands that occur here: truncation = Z.quot / Z.rem. *)
From Coq Require Import ZArith.
Local Open Scope Z_scope.

Inductive texpr :=
| EConst (z : Z) | ESec | ENsec
| EAdd (a b : texpr) | ESub (a b : texpr) | EMul (a b : texpr) | EDiv (a b : texpr) | EMod (a b : texpr)
| EUnknown.

Fixpoint teval (e : texpr) (sec nsec : Z) : option Z :=
  let bin f a b := match teval a sec nsec, teval b sec nsec with
                   | Some x, Some y => f x y | _, _ => None end in
  match e with
  | EConst z => Some z
  | ESec => Some sec
  | ENsec => Some nsec
  | EAdd a b => bin (fun x y => Some (x + y)) a b
  | ESub a b => bin (fun x y => Some (x - y)) a b
  | EMul a b => bin (fun x y => Some (x * y)) a b
  | EDiv a b => bin (fun x y => if y =? 0 then None else Some (Z.quot x y)) a b
  | EMod a b => bin (fun x y => if y =? 0 then None else Some (Z.rem x y)) a b
  | EUnknown => None
  end.
