(* Finite sweeps: a boolean check over an explicit finite range, evaluated by vm_compute and lifted
   to a universally quantified statement whose bound is visible in the lemma. *)
From Coq Require Import List ZArith Lia Bool String.
Import ListNotations.
Local Open Scope Z_scope.

Fixpoint zrange_nat (lo : Z) (n : nat) : list Z :=
  match n with O => [] | S k => lo :: zrange_nat (lo + 1) k end.
Definition zrange (lo n : Z) : list Z := zrange_nat lo (Z.to_nat n).

Lemma in_zrange_nat : forall n lo z, lo <= z < lo + Z.of_nat n -> In z (zrange_nat lo n).
Proof.
  induction n as [|n IH]; intros lo z H; [lia|].
  cbn [zrange_nat]. destruct (Z.eq_dec lo z) as [->|Hne]; [left; reflexivity|].
  right. apply IH. lia.
Qed.
Lemma in_zrange lo n z : lo <= z < lo + n -> In z (zrange lo n).
Proof. intros H. apply in_zrange_nat. lia. Qed.
Lemma forallb_zrange (f : Z -> bool) lo n :
  forallb f (zrange lo n) = true -> forall z, lo <= z < lo + n -> f z = true.
Proof. intros H z Hz. rewrite forallb_forall in H. apply H. apply in_zrange; assumption. Qed.

(* association lists keyed by Z *)
Fixpoint lookup_z {A} (z : Z) (l : list (Z * A)) : option A :=
  match l with
  | [] => None
  | (k, v) :: r => if k =? z then Some v else lookup_z z r
  end.
Definition keys_in {A} (lo hi : Z) (l : list (Z * A)) : bool :=
  forallb (fun p => (lo <=? fst p) && (fst p <=? hi)) l.
Lemma lookup_z_outside {A} lo hi (l : list (Z * A)) z :
  keys_in lo hi l = true -> z < lo \/ hi < z -> lookup_z z l = None.
Proof.
  unfold keys_in. induction l as [|[k v] r IH]; intros H Hz; [reflexivity|].
  cbn [forallb fst] in H. apply andb_prop in H as [Hk Hr].
  cbn [lookup_z]. destruct (k =? z) eqn:E; [lia|]. apply IH; assumption.
Qed.

(* association lists keyed by name *)
Fixpoint lookup_s {A} (s : string) (l : list (string * A)) : option A :=
  match l with
  | [] => None
  | (k, v) :: r => if String.eqb k s then Some v else lookup_s s r
  end.
Lemma lookup_s_In {A} (s : string) (l : list (string * A)) v :
  lookup_s s l = Some v -> In (s, v) l.
Proof.
  induction l as [|[k w] r IH]; cbn [lookup_s]; intros H; [discriminate|].
  destruct (String.eqb k s) eqn:E.
  - apply String.eqb_eq in E. injection H as <-. subst. left; reflexivity.
  - right. apply IH. exact H.
Qed.

(* first entry whose value is z *)
Fixpoint find_value (z : Z) (l : list (string * Z)) : option string :=
  match l with
  | [] => None
  | (n, v) :: r => if v =? z then Some n else find_value z r
  end.
Definition values_in (lo hi : Z) (l : list (string * Z)) : bool :=
  forallb (fun p => (lo <=? snd p) && (snd p <=? hi)) l.
Lemma find_value_outside lo hi l z :
  values_in lo hi l = true -> z < lo \/ hi < z -> find_value z l = None.
Proof.
  unfold values_in. induction l as [|[n v] r IH]; intros H Hz; [reflexivity|].
  cbn [forallb snd] in H. apply andb_prop in H as [Hk Hr].
  cbn [find_value]. destruct (v =? z) eqn:E; [lia|]. apply IH; assumption.
Qed.

(* duplicate-freeness of the values of a table, as a boolean *)
Fixpoint nodup_zb (l : list Z) : bool :=
  match l with
  | [] => true
  | x :: r => negb (existsb (Z.eqb x) r) && nodup_zb r
  end.
Lemma nodup_zb_NoDup l : nodup_zb l = true -> NoDup l.
Proof.
  induction l as [|x r IH]; intros H; [constructor|].
  cbn [nodup_zb] in H. apply andb_prop in H as [Hx Hr].
  constructor; [|apply IH; exact Hr].
  intros Hin. apply negb_true_iff in Hx.
  assert (existsb (Z.eqb x) r = true) as Hc; [|congruence].
  apply existsb_exists. exists x. split; [exact Hin|apply Z.eqb_refl].
Qed.
