(* C11 - the IEEE 802.3 frame check sequence as the standard describes it for hardware
   (IEEE 802.3 clause 3.2.9, referenced by IEEE 802.11 for the FCS field):
   - the message is a bit stream, each octet least-significant bit first;
   - G(x) = x^32+x^26+x^23+x^22+x^16+x^12+x^11+x^10+x^8+x^7+x^5+x^4+x^2+x+1;
   - a 32-stage division register preset to all ones (= complementing the first 32 bits);
   - one register step per message bit: feedback = incoming bit xor coefficient of x^31;
   - the register content is complemented and sent highest-order coefficient first.
   Nothing here mentions 0xEDB88320 or byte-at-a-time processing. *)
From Coq Require Import List ZArith Bool.
From LW Require Import Base.Bytes.
Import ListNotations.
Local Open Scope Z_scope.

(* exponents of G below x^32 *)
Definition g_exponents : list nat := [26; 23; 22; 16; 12; 11; 10; 8; 7; 5; 4; 2; 1; 0]%nat.
(* register: coefficient of x^i at index i, 32 entries *)
Definition reg := list bool.
Definition g_low : reg := map (fun i => existsb (Nat.eqb i) g_exponents) (seq 0 32).
Definition reg_ones : reg := repeat true 32.
Definition top (r : reg) : bool := nth 31 r false.
(* multiply by x, drop x^32 *)
Definition shift_up (r : reg) : reg := false :: firstn 31 r.
Fixpoint xor_reg (a b : reg) : reg :=
  match a, b with x :: a', y :: b' => xorb x y :: xor_reg a' b' | _, _ => [] end.
Definition reg_step (r : reg) (bit : bool) : reg :=
  let fb := xorb bit (top r) in
  if fb then xor_reg (shift_up r) g_low else shift_up r.
(* an octet as bits, least significant first *)
Definition octet_bits (b : Z) : list bool := map (fun i => Z.testbit b (Z.of_nat i)) (seq 0 8).
Definition message_bits (msg : list byte) : list bool := flat_map octet_bits msg.
Definition remainder (msg : list byte) : reg := fold_left reg_step (message_bits msg) reg_ones.
(* complemented, highest-order coefficient first: the FCS bit stream as sent *)
Definition fcs_bits (msg : list byte) : list bool := rev (map negb (remainder msg)).
(* the same stream packed into octets (first bit sent = least significant bit of the first octet) *)
Fixpoint bits_to_Z (l : list bool) : Z :=
  match l with [] => 0 | b :: r => (if b then 1 else 0) + 2 * bits_to_Z r end.
Fixpoint chunks8 (n : nat) (l : list bool) : list (list bool) :=
  match n with O => [] | S k => firstn 8 l :: chunks8 k (skipn 8 l) end.
Definition fcs_octets (msg : list byte) : list byte := map bits_to_Z (chunks8 4 (fcs_bits msg)).
(* the CRC-32 as a number: the FCS stream read as a 32-bit little-endian integer *)
Definition crc32_spec (msg : list byte) : Z := bits_to_Z (fcs_bits msg).

(* an independent table-driven formulation: 256-entry table derived from G alone *)
Definition reflect_g : Z := bits_to_Z (rev g_low).     (* the reflected polynomial, computed not quoted *)
Fixpoint tbl_entry (n : nat) (c : Z) : Z :=
  match n with O => c | S k => tbl_entry k (if Z.odd c then Z.lxor (Z.shiftr c 1) reflect_g else Z.shiftr c 1) end.
Definition crc_table : list Z := map (fun i => tbl_entry 8 (Z.of_nat i)) (seq 0 256).
Definition tbl_byte (c b : Z) : Z :=
  Z.lxor (nth (Z.to_nat (Z.land (Z.lxor c b) 255)) crc_table 0) (Z.shiftr c 8).
Definition crc32_tbl (msg : list byte) : Z := Z.lxor (fold_left tbl_byte msg 4294967295) 4294967295.

(* last n elements *)
Definition lastn {A} (n : nat) (l : list A) : list A := skipn (length l - n) l.

(* ---------- corruption of a frame in transit (statement vocabulary for error detection) ---------- *)
(* the received frame: sent frame xor error pattern, octet by octet *)
Definition xor_bytes (a b : list byte) : list byte :=
  map (fun p => Z.lxor (fst p) (snd p)) (combine a b).
(* an error pattern, as the bit stream in transmission order (each octet least significant bit first):
   zeros, then a window of at most 32 bits that starts with a 1, then zeros *)
Definition burst32 (e : list bool) : Prop :=
  exists i w j, e = repeat false i ++ (true :: w) ++ repeat false j /\ (length w < 32)%nat.
(* a frame that carries its own FCS: at least four octets, the last four are the FCS of the rest *)
Definition valid_frame (f : list byte) : Prop :=
  4 <= zlen f /\ lastn 4 f = fcs_octets (firstn (length f - 4) f).
(* the error pattern of one flipped bit: n octets, all zero except bit b of octet k *)
Definition single_bit_error (n k b : nat) : list byte :=
  repeat 0 k ++ 2 ^ Z.of_nat b :: repeat 0 (n - k - 1).
(* the frame with bit b of octet k inverted *)
Definition flip_bit (f : list byte) (k b : nat) : list byte :=
  firstn k f ++ Z.lxor (nth k f 0) (2 ^ Z.of_nat b) :: skipn (S k) f.
