(* C09 - radiotap decoding, stated on the byte list.  The alignment/size table is transcribed from the
   radiotap specification (radiotap.org "defined fields"), independently of the library's table. *)
From LW Require Import Base.Bytes Model.Radiotap.
Local Open Scope Z_scope.

(* bit number -> (alignment, size) *)
Definition s_align_size : list (Z * Z) := [
  (8, 8);   (*  0 TSFT *)              (1, 1);   (*  1 Flags *)
  (1, 1);   (*  2 Rate *)              (2, 4);   (*  3 Channel: frequency u16, flags u16 *)
  (2, 2);   (*  4 FHSS *)              (1, 1);   (*  5 Antenna signal dBm *)
  (1, 1);   (*  6 Antenna noise dBm *) (2, 2);   (*  7 Lock quality *)
  (2, 2);   (*  8 TX attenuation *)    (2, 2);   (*  9 dB TX attenuation *)
  (1, 1);   (* 10 dBm TX power *)      (1, 1);   (* 11 Antenna *)
  (1, 1);   (* 12 dB antenna signal *) (1, 1);   (* 13 dB antenna noise *)
  (2, 2);   (* 14 RX flags *)          (2, 2);   (* 15 TX flags *)
  (1, 1);   (* 16 RTS retries *)       (1, 1);   (* 17 data retries *)
  (4, 8);   (* 18 XChannel *)          (1, 3);   (* 19 MCS: known, flags, mcs *)
  (4, 8);   (* 20 A-MPDU status *)     (2, 12);  (* 21 VHT *)
  (8, 12)   (* 22 timestamp: u64, accuracy u16, unit/position u8, flags u8 *)
].
Definition align_up (off a : Z) : Z := if off mod a =? 0 then off else off + (a - off mod a).

(* offsets (from the start of the header) of the fields a single present word selects, bits 0..22,
   data starting right after the 8-byte header: list of (bit, offset) and the end of the data *)
Fixpoint s_offsets (bits : list (Z * (Z * Z))) (present cur : Z) : list (Z * Z) * Z :=
  match bits with
  | [] => ([], cur)
  | (bit, (al, sz)) :: r =>
    if Z.testbit present bit then
      let o := align_up cur al in
      let '(l, e) := s_offsets r present (o + sz) in ((bit, o) :: l, e)
    else s_offsets r present cur
  end.
Fixpoint number_from (n : Z) (l : list (Z * Z)) : list (Z * (Z * Z)) :=
  match l with [] => [] | x :: r => (n, x) :: number_from (n + 1) r end.
Definition s_field_offsets (present : Z) : list (Z * Z) * Z :=
  s_offsets (number_from 0 s_align_size) present 8.
Definition s_off (present bit : Z) : option Z :=
  match find (fun p => fst p =? bit) (fst (s_field_offsets present)) with Some p => Some (snd p) | None => None end.

(* well-formed single-word header: version 0, only defined bits (0..22), length field covering the
   selected fields, inside the supplied bytes and representable *)
Definition s_it_len (buf : list byte) : Z := le16 buf 2.
Definition s_present (buf : list byte) : Z := le32 buf 4.
Definition s_wf1 (buf : list byte) : Prop :=
  8 <= zlen buf /\ znth buf 0 = 0 /\ s_present buf < 2 ^ 23 /\
  snd (s_field_offsets (s_present buf)) <= s_it_len buf /\ s_it_len buf <= zlen buf /\ s_it_len buf <= 255.
Definition s_wf1b (buf : list byte) : bool :=
  (8 <=? zlen buf) && (znth buf 0 =? 0) && (s_present buf <? 2 ^ 23) &&
  (snd (s_field_offsets (s_present buf)) <=? s_it_len buf) && (s_it_len buf <=? zlen buf) && (s_it_len buf <=? 255).

(* frequency -> (channel number, band bit): 2.4 GHz channels 1-13 at 2407+5n and 14 at 2484,
   5 GHz at 5000+5n (5160..5885), 6 GHz at 5950+5n (5955..7115); otherwise nothing is derived *)
Definition s_band_center (f : Z) : Z * Z :=
  if f =? 2484 then (14, 1)
  else if (2412 <=? f) && (f <=? 2484) then ((f - 2407) / 5, 1)
  else if (5160 <=? f) && (f <=? 5885) then ((f - 5000) / 5, 2)
  else if (5955 <=? f) && (f <=? 7115) then ((f - 5950) / 5, 4)
  else (0, 0).

Definition fld (buf : list byte) (present bit : Z) (f : Z -> Z) : Z :=
  match s_off present bit with Some o => f o | None => 0 end.
(* what decoding a well-formed single-word header must report *)
Definition s_info (buf : list byte) : rt_info :=
  let p := s_present buf in
  let freq := fld buf p 3 (fun o => le16 buf o) in
  {| i_chan_flags := fld buf p 3 (fun o => le16 buf (o + 2));
     i_chan_freq := freq;
     i_chan_center := (if Z.testbit p 3 then fst (s_band_center freq) else 0);
     i_chan_band := (if Z.testbit p 3 then snd (s_band_center freq) else 0);
     i_rate_raw := fld buf p 2 (fun o => znth buf o);
     i_antennas := [];                                   (* per-antenna entries need further present words *)
     i_signal := fld buf p 5 (fun o => znth buf o);
     i_flags := fld buf p 1 (fun o => znth buf o);
     i_ext_flags := 0;
     i_rx_flags := fld buf p 14 (fun o => le16 buf o);
     i_tx_flags := fld buf p 15 (fun o => le16 buf o);
     i_mcs_known := fld buf p 19 (fun o => znth buf o);
     i_mcs_flags := fld buf p 19 (fun o => znth buf (o + 1));
     i_mcs_mcs := fld buf p 19 (fun o => znth buf (o + 2));
     i_tx_power := fld buf p 10 (fun o => znth buf o);
     i_ts := fld buf p 22 (fun o => le64 buf o);
     i_ts_accuracy := fld buf p 22 (fun o => le16 buf (o + 8));
     i_ts_unit := fld buf p 22 (fun o => znth buf (o + 10));
     i_ts_flags := fld buf p 22 (fun o => znth buf (o + 11));
     i_rts_retries := fld buf p 16 (fun o => znth buf o);
     i_data_retries := fld buf p 17 (fun o => znth buf o);
     i_length := s_it_len buf |}.

(* the four malformed classes the property names *)
Definition s_refused (buf : list byte) : Prop :=
  zlen buf < 8 \/ znth buf 0 <> 0 \/ s_it_len buf < 8 \/ zlen buf < s_it_len buf \/ 255 < s_it_len buf.
