(* C08 - RSN / WPA element decoding and the security summary, stated on byte lists with hand-written
   tables (IEEE 802.11-2016 9.4.2.25 RSNE, Table 9-131 cipher suite selectors, Table 9-133 AKM suite
   selectors; WPA element as specified by the Wi-Fi Alliance WPA v3.1 under the Microsoft OUI; the
   summary bit of each suite and the generation documented for each AKM are those of the library's
   core/misc/security.h comments). *)
From LW Require Import Base.Bytes Base.Sweep Model.Security.
Local Open Scope Z_scope.

Definition IEEE_OUI : list byte := [0; 15; 172].        (* 00-0F-AC *)
Definition MSFT_OUI : list byte := [0; 80; 242].        (* 00-50-F2 *)
Definition F_WEP := 2. Definition F_WPA := 4. Definition F_WPA2 := 8. Definition F_WPA3 := 16.
Definition bit (n : Z) : Z := 2 ^ n.

(* selector -> summary bit *)
Definition s_rsn_group (sel : Z) : Z := if (1 <=? sel) && (sel <=? 13) then bit (sel + 4) else 0.
Definition s_rsn_pairwise (sel : Z) : Z :=
  if (sel =? 1) || (sel =? 5) then 0 else if (0 <=? sel) && (sel <=? 13) then bit (sel + 18) else 0.
(* AKM 0..5 -> bits 32..37, 6..20 -> bits 39..53; suites 0-7 are WPA2 generation, 8-20 WPA3 *)
Definition s_akm_bit (sel : Z) : Z :=
  if (0 <=? sel) && (sel <=? 5) then bit (sel + 32) else if (6 <=? sel) && (sel <=? 20) then bit (sel + 33) else 0.
Definition s_rsn_akm (sel : Z) : Z :=
  if (0 <=? sel) && (sel <=? 7) then Z.lor F_WPA2 (s_akm_bit sel)
  else if (8 <=? sel) && (sel <=? 20) then Z.lor F_WPA3 (s_akm_bit sel) else 0.
Definition s_wpa_group (sel : Z) : Z := if (sel =? 1) || (sel =? 2) || (sel =? 3) || (sel =? 5) then bit (sel + 4) else 0.
Definition s_wpa_pairwise (sel : Z) : Z :=
  if (sel =? 0) || (sel =? 1) || (sel =? 2) || (sel =? 3) || (sel =? 5) then bit (sel + 18) else 0.
Definition s_wpa_akm (sel : Z) : Z := if (0 <=? sel) && (sel <=? 4) then Z.lor F_WPA (bit (sel + 32)) else 0.

Definition s_suite_flag (oui : list byte) (f : Z -> Z) (s : suite) : Z :=
  if oui_eqb (fst s) oui then f (snd s) else 0.
Definition s_or (l : list Z) : Z := fold_left Z.lor l 0.
Definition s_rsn_flags (i : rsn_info) : Z :=
  Z.lor (s_suite_flag IEEE_OUI s_rsn_group (r_group i))
    (Z.lor (s_or (map (s_suite_flag IEEE_OUI s_rsn_pairwise) (r_pairwise i)))
           (s_or (map (s_suite_flag IEEE_OUI s_rsn_akm) (r_akms i)))).
Definition s_wpa_flags (i : wpa_info) : Z :=
  Z.lor (s_suite_flag MSFT_OUI s_wpa_group (wi_multicast i))
    (Z.lor (s_or (map (s_suite_flag MSFT_OUI s_wpa_pairwise) (wi_unicast i)))
           (s_or (map (s_suite_flag MSFT_OUI s_wpa_akm) (wi_akms i)))).

(* ---- element bodies: suites are 4 octets (OUI, type); counts are 16-bit little-endian; a list is
   delimited by its declared count, of which at most the first six suites are kept; an element too short for its
   declared counts does not decode *)
Definition s_suite_at (b : list byte) (o : Z) : suite := (slice o 3 b, znth b (o + 3)).
Fixpoint s_suites (n : nat) (b : list byte) (o : Z) : list suite :=
  match n with O => [] | S k => s_suite_at b o :: s_suites k b (o + 4) end.
(* (suites, offset after them) *)
Definition s_suite_list (b : list byte) (o : Z) : option (list suite * Z) :=
  if zlen b <? o + 2 then None else
  let c := le16 b o in
  if zlen b <? o + 2 + 4 * c then None else Some (s_suites (Z.to_nat (Z.min c 6)) b (o + 2), o + 2 + 4 * c).

(* version and group cipher suite are mandatory; the pairwise list, the key-management list and the capabilities
   are optional in this order (IEEE 802.11 9.4.2.25: "all fields after the Version field are optional") *)
Definition s_rsn_decode (b : list byte) : option rsn_info :=
  if zlen b <? 6 then None else
  if zlen b =? 6 then Some {| r_version := le16 b 0; r_group := s_suite_at b 2; r_pairwise := []; r_akms := []; r_caps := 0 |} else
  match s_suite_list b 6 with
  | None => None
  | Some (pw, o2) =>
    if zlen b =? o2 then Some {| r_version := le16 b 0; r_group := s_suite_at b 2; r_pairwise := pw; r_akms := []; r_caps := 0 |} else
    match s_suite_list b o2 with
    | None => None
    | Some (ak, o3) =>
      Some {| r_version := le16 b 0; r_group := s_suite_at b 2; r_pairwise := pw; r_akms := ak;
              r_caps := (if zlen b <? o3 + 2 then 0 else le16 b o3) |}
    end
  end.
(* b is the whole vendor element body: OUI(3) type(1) version(2) multicast(4) ... *)
Definition s_wpa_decode (b : list byte) : option wpa_info :=
  if zlen b <? 10 then None else
  if zlen b =? 10 then Some {| wi_version := le16 b 4; wi_multicast := s_suite_at b 6; wi_unicast := []; wi_akms := [] |} else
  match s_suite_list b 10 with
  | None => None
  | Some (uc, o2) =>
    if zlen b =? o2 then Some {| wi_version := le16 b 4; wi_multicast := s_suite_at b 6; wi_unicast := uc; wi_akms := [] |} else
    match s_suite_list b o2 with
    | None => None
    | Some (ak, _) => Some {| wi_version := le16 b 4; wi_multicast := s_suite_at b 6; wi_unicast := uc; wi_akms := ak |}
    end
  end.
