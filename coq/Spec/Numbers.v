(* C19 - what the published numbers and the tag-name lookup have to be.  The IEEE assignments are the
   independent transcription in Spec/IEEE.v (names that could not be vouched for are absent from it). *)
From Coq Require Import List ZArith String Bool.
From LW Require Import Base.Sweep Spec.IEEE Gen.Consts.
Import ListNotations.
Local Open Scope Z_scope.

(* the six kinds of the property: (kind, published enumerators as compiled, IEEE table) *)
Definition kinds : list (string * list (string * Z) * list (string * Z)) := [
  ("frame type"%string, enum_libwifi_frame_type, ieee_frame_type);
  ("management subtype"%string, enum_libwifi_mgmt_subtypes, ieee_mgmt_subtypes);
  ("control subtype"%string, enum_libwifi_control_subtypes, ieee_control_subtypes);
  ("control extension subtype"%string, enum_libwifi_control_extension_subtypes, ieee_control_extension_subtypes);
  ("data subtype"%string, enum_libwifi_data_subtypes, ieee_data_subtypes);
  ("extension subtype"%string, enum_libwifi_extension_subtypes, ieee_extension_subtypes);
  ("action category"%string, enum_libwifi_actions, ieee_actions);
  ("element id"%string, enum_libwifi_tag_numbers, ieee_tag_numbers);
  ("reason code"%string, enum_libwifi_reason_codes, ieee_reason_codes);
  ("status code"%string, enum_libwifi_status_codes, ieee_status_codes)
].

(* published enumerators whose value differs from the IEEE assignment: (name, published, ieee) *)
Definition mismatches (pub ieee : list (string * Z)) : list (string * Z * Z) :=
  flat_map (fun p => match lookup_s (fst p) ieee with
                     | Some v' => if snd p =? v' then [] else [(fst p, snd p, v')]
                     | None => [] end) pub.
Definition all_mismatches : list (string * Z * Z) :=
  flat_map (fun k => mismatches (snd (fst k)) (snd k)) kinds.
(* names of one kind sharing a number *)
Fixpoint dups (l : list (string * Z)) : list (string * string * Z) :=
  match l with
  | [] => []
  | (n, v) :: r => match find_value v r with Some n' => [(n, n', v)] | None => [] end ++ dups r
  end.
Definition all_dups : list (string * string * Z) := flat_map (fun k => dups (snd (fst k))) kinds.
(* how much of the published set the transcription covers (reported in the evidence) *)
Definition covered (pub ieee : list (string * Z)) : nat :=
  List.length (filter (fun p => match lookup_s (fst p) ieee with Some _ => true | None => false end) pub).

Definition unknown_tag : string := "Unknown Tag"%string.
(* the published identifier of the tag with that number, else the fixed unknown-tag string *)
Definition spec_tag_name (z : Z) : string :=
  match find_value z enum_libwifi_tag_numbers with Some n => n | None => unknown_tag end.
