(* C02 - frame classification, stated on the input byte list.  Wire constants are written out here
   independently of the library's headers (IEEE 802.11-2016 9.2.4.1 and 9.3): the theorem fails if the
   compiled header structures or flag values stop matching them. *)
From LW Require Import Base.Bytes Model.Radiotap Model.Frame.
Local Open Scope Z_scope.

(* frame control: protocol version B0-B1, type B2-B3, subtype B4-B7 of the first octet; +HTC/order is B15 *)
Definition s_type (fc0 : Z) : Z := (fc0 / 4) mod 4.
Definition s_subtype (fc0 : Z) : Z := fc0 / 16.
Definition s_ordered (fc1 : Z) : bool := 128 <=? fc1.
(* QoS data subtypes: 8-12, 14, 15 minus the reserved 13 (Table 9-1) *)
Definition s_qos (st : Z) : bool := (8 <=? st) && negb (st =? 13).
Definition T_MGMT := 0. Definition T_CTRL := 1. Definition T_DATA := 2.
(* header implied by type, subtype and order bit: 24/28 management, 4 control, 24/26 data *)
Definition s_hdr_len (ty st : Z) (ord : bool) : option Z :=
  if ty =? T_MGMT then Some (if ord then 28 else 24)
  else if ty =? T_CTRL then Some 4
  else if ty =? T_DATA then Some (if s_qos st then 26 else 24)
  else None.
Definition FL_FCS := 1. Definition FL_QOS := 2. Definition FL_ORDERED := 4. Definition FL_RADIOTAP := 8.
Definition RT_F_FCS := 16.       (* radiotap Flags field, bit 0x10: frame includes FCS *)

(* rtres = what decoding the radiotap header at the start of buf gave (None: no radiotap mode).
   The decode itself is C09's subject; here only its reported length and flags are used. *)
Definition spec_classify (buf : list byte) (rtres : option (outcome rt_info)) : outcome frame :=
  let pre : outcome (list byte * Z * option rt_info) :=
    match rtres with
    | None => Ok (buf, 0, None)
    | Some (Err c) => Err c
    | Some (Ok info) =>
      let rest := zskipn (i_length info) buf in
      if Z.land (i_flags info) RT_F_FCS =? 0 then Ok (rest, FL_RADIOTAP, Some info)
      else if zlen rest <? 4 then Err (- EINVAL)
      else Ok (zfirstn (zlen rest - 4) rest, Z.lor FL_FCS FL_RADIOTAP, Some info)
    end in
  match pre with
  | Err c => Err c
  | Ok (rest, fl0, rt) =>
    match rest with
    | fc0 :: fc1 :: _ =>
      match s_hdr_len (s_type fc0) (s_subtype fc0) (s_ordered fc1) with
      | None => Err (- EINVAL)
      | Some hl =>
        if zlen rest <? hl then Err (- EINVAL) else
        let fl := Z.lor fl0
                    (if (s_type fc0 =? T_DATA) && s_qos (s_subtype fc0) then FL_QOS
                     else if (s_type fc0 =? T_MGMT) && s_ordered fc1 then FL_ORDERED else 0) in
        Ok {| f_rtap := rt; f_flags := fl; f_fc := [fc0; fc1]; f_len := zlen rest;
              f_header := zfirstn hl rest; f_header_len := hl; f_body := zskipn hl rest |}
      end
    | _ => Err (- EINVAL)
    end
  end.

(* data-frame extraction: address 1 is the receiver, address 2 the transmitter (header bytes 4..9, 10..15) *)
Definition spec_data (f : frame) : outcome data_info :=
  match f_fc f with
  | fc0 :: _ =>
    if s_type fc0 =? T_DATA then
      Ok {| d_receiver := slice 4 6 (f_header f); d_transmitter := slice 10 6 (f_header f);
            d_body := f_body f; d_body_len := zlen (f_body f) |}
    else Err (- EINVAL)
  | [] => Err (- EINVAL)
  end.
