(* Vocabulary of the statements about the C code as translated (Gen/Sites.v): what it means for a dump routine to stay inside the
   caller's buffer, for a length routine to return header + fixed parameters + payload, the memory that holds exactly one buffer,
   and how the iterator object's fields appear in an environment.  Definitions only. *)
From Coq Require Import ZArith String List Bool.
From LW Require Import Base.Bytes Base.CExpr Model.TagIter.
Import ListNotations.
Local Open Scope string_scope.
Local Open Scope Z_scope.

(* the copies of a trace, in order, fill [a, fin) without gap or overlap *)
Fixpoint writes_from (a : Z) (tr : list event) (fin : Z) : Prop :=
  match tr with
  | [] => a = fin
  | (f, [d; _; n]) :: r => f = "memcpy"%string /\ d = a /\ 0 <= n /\ writes_from (a + n) r fin
  | _ => False
  end.

(* [len_body] is the length routine, [dump_body] the dump routine, [len_fn] the name of the length routine, [arg] the text
   of the argument the dump routine passes to it, [lv] the lvalue holding the payload length (0 <= its value < lmax),
   [E] the error value as the size_t the routine returns.
   The length routine returns some L without calling anything; the dump routine, told that the length routine answers L,
   either returns E having done nothing but ask for the length (L > buf_len), or returns L after copies that fill
   [buf, buf + L) in order without gap or overlap. *)
Definition dump_ok (m : memory) (len_body dump_body : list cstmt) (len_fn arg lv : string) (lmax E : Z) : Prop :=
  forall rho buf bl tl,
  0 <= buf -> 0 <= bl -> buf + bl < 2 ^ 63 -> 0 <= tl < lmax ->
  let rho0 := upd (upd (upd rho "buf" buf) "buf_len" bl) lv tl in
  exists L,
    observe (exec 10 m rho0 [] len_body) = Some (Some L, []) /\
    let rho1 := upd rho0 ("ret:" ++ len_fn) L in
    exists tr,
      observe (exec 60 m rho1 [] dump_body) =
        (if L >? bl then Some (Some E, [(len_fn, [wrap u64 (rho arg)])])
         else Some (Some L, (len_fn, [wrap u64 (rho arg)]) :: tr)) /\
      (L <= bl -> writes_from buf tr (buf + L)).

(* the value each length routine returns: header (24) + fixed parameters + payload, without wrap-around *)
Definition length_site_ok (m : memory) (S : list (string * cexpr)) (lv : string) (lmax fixed : Z) : Prop :=
  forall rho, 0 <= rho lv < lmax -> ceval rho m (site S "ret#0") = Some (fixed + rho lv).

(* memory that holds exactly the bytes of buf at address start *)
Definition mem_at (start : Z) (buf : list byte) : memory :=
  fun a => if (start <=? a) && (a <? start + zlen buf) then Some (znth buf (a - start)) else None.

(* the iterator object's four pointers, as addresses, in an environment *)
Definition it_env (rho : env) (start : Z) (it : tag_it) : env :=
  upd (upd (upd (upd rho "it->tag_header" (start + it_hdr it)) "it->tag_data" (start + it_data it))
           "it->_next_tag_header" (start + it_next it)) "it->_frame_end" (start + it_end it).

Definition it_fields (rho1 : env) (start : Z) (it : tag_it) : Prop :=
  rho1 "it->tag_header" = start + it_hdr it /\ rho1 "it->tag_data" = start + it_data it /\
  rho1 "it->_next_tag_header" = start + it_next it /\ rho1 "it->_frame_end" = start + it_end it.
