(* C03 - what each generator has to serialise, written out as byte lists from IEEE 802.11-2016
   (9.3.3 management frame formats, 9.3.1 control frames, 9.4.1 fixed fields).  No layout constant of the
   library is used here: frame control octets, field widths and defaults are spelled out. *)
From LW Require Import Base.Bytes Spec.TagSpec.
Local Open Scope Z_scope.

Definition MGMT (subtype : Z) : list byte := [subtype * 16; 0].        (* version 0, type 00, flags 0 *)
Definition CTRL (subtype : Z) : list byte := [4 + subtype * 16; 0].    (* type 01 *)
(* frame control, zero duration, the three addresses in argument order, zero sequence control *)
Definition s_mgmt_header (subtype : Z) (a1 a2 a3 : list byte) : list byte :=
  MGMT subtype ++ [0; 0] ++ a1 ++ a2 ++ a3 ++ [0; 0].
Definition DEFAULT_CAPAB := 1.            (* 0x0001 *)
Definition DEFAULT_INTERVAL := 100.       (* 0x0064 *)
Definition DEFAULT_LISTEN := 1.
Definition DEFAULT_RATES : list byte := [130; 132; 139; 150; 36; 48; 72; 108].
Definition T_SSID := 0. Definition T_RATES := 1. Definition T_DS := 3. Definition T_TIME_ADV := 69.

Definition s_beacon a1 a2 a3 ssid ch (now : Z) (extras : list tag) : list byte :=
  s_mgmt_header 8 a1 a2 a3 ++ le_enc 8 now ++ le_enc 2 DEFAULT_INTERVAL ++ le_enc 2 DEFAULT_CAPAB ++
  enc ([(T_SSID, ssid); (T_DS, [ch])] ++ extras).
Definition s_probe_resp a1 a2 a3 ssid ch (now : Z) (extras : list tag) : list byte :=
  s_mgmt_header 5 a1 a2 a3 ++ le_enc 8 now ++ le_enc 2 DEFAULT_INTERVAL ++ le_enc 2 DEFAULT_CAPAB ++
  enc ([(T_SSID, ssid); (T_DS, [ch])] ++ extras).
Definition s_probe_req a1 a2 a3 ssid ch (extras : list tag) : list byte :=
  s_mgmt_header 4 a1 a2 a3 ++ enc ([(T_SSID, ssid); (T_DS, [ch])] ++ extras).
Definition s_assoc_req a1 a2 a3 ssid ch (extras : list tag) : list byte :=
  s_mgmt_header 0 a1 a2 a3 ++ le_enc 2 DEFAULT_CAPAB ++ le_enc 2 DEFAULT_LISTEN ++
  enc ([(T_SSID, ssid); (T_DS, [ch])] ++ extras).
Definition s_reassoc_req a1 a2 a3 cur_ap ssid ch (extras : list tag) : list byte :=
  s_mgmt_header 2 a1 a2 a3 ++ le_enc 2 DEFAULT_CAPAB ++ le_enc 2 DEFAULT_LISTEN ++ cur_ap ++
  enc ([(T_SSID, ssid); (T_DS, [ch])] ++ extras).
(* capability, status code 0 (success), association id 0 *)
Definition s_assoc_resp a1 a2 a3 ch (extras : list tag) : list byte :=
  s_mgmt_header 1 a1 a2 a3 ++ le_enc 2 DEFAULT_CAPAB ++ [0; 0] ++ [0; 0] ++
  enc ([(T_DS, [ch]); (T_RATES, DEFAULT_RATES)] ++ extras).
Definition s_reassoc_resp a1 a2 a3 ch (extras : list tag) : list byte :=
  s_mgmt_header 3 a1 a2 a3 ++ le_enc 2 DEFAULT_CAPAB ++ [0; 0] ++ [0; 0] ++ enc ([(T_DS, [ch])] ++ extras).
Definition s_auth a1 a2 a3 algo seq status (extras : list tag) : list byte :=
  s_mgmt_header 11 a1 a2 a3 ++ le_enc 2 algo ++ le_enc 2 seq ++ le_enc 2 status ++ enc extras.
Definition s_deauth a1 a2 a3 reason (extras : list tag) : list byte :=
  s_mgmt_header 12 a1 a2 a3 ++ le_enc 2 reason ++ enc extras.
Definition s_disassoc a1 a2 a3 reason (extras : list tag) : list byte :=
  s_mgmt_header 10 a1 a2 a3 ++ le_enc 2 reason ++ enc extras.
Definition s_action (noack : bool) a1 a2 a3 category (details : list (list byte)) : list byte :=
  s_mgmt_header (if noack then 14 else 13) a1 a2 a3 ++ [category] ++ concat details.
(* timing advertisement fixed fields in the order the library's structure gives them, then the Time
   Advertisement element: capabilities octet followed by value(10)+error(5) for 1, +update(1) for 2 *)
Definition s_time_adv_body (cap : Z) (tvalue terror tupdate : list byte) : list byte :=
  [cap] ++ (if cap =? 1 then tvalue ++ terror else if cap =? 2 then tvalue ++ terror ++ tupdate else []).
Definition s_timing_advert a1 a2 a3 cap tvalue terror tupdate country max_reg max_tx tx_used noise (now : Z)
    (extras : list tag) : list byte :=
  s_mgmt_header 6 a1 a2 a3 ++ le_enc 8 now ++ [DEFAULT_INTERVAL] ++ le_enc 2 DEFAULT_INTERVAL ++ le_enc 2 DEFAULT_CAPAB ++
  country ++ le_enc 2 max_reg ++ [max_tx; tx_used; noise] ++
  enc ([(T_TIME_ADV, s_time_adv_body cap tvalue terror tupdate)] ++ extras).
Definition s_atim a1 a2 a3 : list byte := s_mgmt_header 9 a1 a2 a3.
(* RTS: frame control, duration, RA, TA; CTS: frame control, duration, RA *)
Definition s_rts (transmitter receiver : list byte) (duration : Z) : list byte :=
  CTRL 11 ++ le_enc 2 duration ++ receiver ++ transmitter.
Definition s_cts (receiver : list byte) (duration : Z) : list byte := CTRL 12 ++ le_enc 2 duration ++ receiver.

(* argument well-formedness *)
Definition mac_ok (a : list byte) : Prop := zlen a = 6 /\ wfbytes a.
Definition u8 (v : Z) : Prop := 0 <= v < 256.
Definition u16 (v : Z) : Prop := 0 <= v < 65536.
(* running element length stays within what the library's size_t arithmetic and one-octet fields carry *)
Definition ssid_ok (s : list byte) : Prop := zlen s <= 255 /\ wfbytes s.
