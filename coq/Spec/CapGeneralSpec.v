(* C18 - the capability test on ARBITRARY argument expressions: what is assumed of the argument.
   Definitions only. *)
From Coq Require Import List ZArith String.
From LW Require Import Base.Tok Gen.Macros Model.Macro.
Import ListNotations.

(* The argument of [libwifi_check_capabilities(arg, cap)] is any token list that the expression grammar of
   Model/Macro.v accepts as ONE expression ([parse_expr arg = Some e], stated separately) and that
   mentions no macro of the library.
   Nothing is assumed about commas or parentheses: a token list accepted by [parse_expr] contains no
   comma (the modelled grammar has no comma operator) and has balanced parentheses - both are proved,
   not assumed (Proofs/MacroGeneral.v, [parsed_scan]). *)
Definition arg_ok (arg : list tok) : Prop :=
  forall s, In (TId s) arg -> find_macro s all_macros = None.

(* the example argument   c ? a | 256 : ( b ^ a ) << 1 *)
Definition example_arg : list tok :=
  [TId "c"; TOp "?"; TId "a"; TOp "|"; TNum 256; TOp ":";
   TLParen; TId "b"; TOp "^"; TId "a"; TRParen; TOp "<<"; TNum 1]%string.
