(* C10 - what a generated radiotap header has to look like, and which fields a description can carry. *)
From LW Require Import Base.Bytes Model.Radiotap Spec.RadiotapSpec.
Local Open Scope Z_scope.

(* the fields libwifi_radiotap_info can carry into a header: flags, rate, channel, signal, TX power,
   RX flags, TX flags, RTS retries, data retries, MCS, timestamp *)
Definition carried_bits : list Z := [1; 2; 3; 5; 10; 14; 15; 16; 17; 19; 22].
Definition carried (present : Z) : Prop :=
  0 <= present < 2 ^ 23 /\ forall b, 0 <= b < 23 -> Z.testbit present b = true -> In b carried_bits.
Definition carriedb (present : Z) : bool :=
  (0 <=? present) && (present <? 2 ^ 23) &&
  forallb (fun b => negb (Z.testbit present b) || existsb (Z.eqb b) carried_bits)
          [0;1;2;3;4;5;6;7;8;9;10;11;12;13;14;15;16;17;18;19;20;21;22].

(* the value bytes of one carried field, little-endian *)
Definition s_field_bytes (info : rt_info) (bit : Z) : list byte :=
  if bit =? 1 then le_enc 1 (i_flags info)
  else if bit =? 2 then le_enc 1 (i_rate_raw info)
  else if bit =? 3 then le_enc 2 (i_chan_freq info) ++ le_enc 2 (i_chan_flags info)
  else if bit =? 5 then le_enc 1 (i_signal info)
  else if bit =? 10 then le_enc 1 (i_tx_power info)
  else if bit =? 14 then le_enc 2 (i_rx_flags info)
  else if bit =? 15 then le_enc 2 (i_tx_flags info)
  else if bit =? 16 then le_enc 1 (i_rts_retries info)
  else if bit =? 17 then le_enc 1 (i_data_retries info)
  else if bit =? 19 then le_enc 1 (i_mcs_known info) ++ le_enc 1 (i_mcs_flags info) ++ le_enc 1 (i_mcs_mcs info)
  else if bit =? 22 then le_enc 8 (i_ts info) ++ le_enc 2 (i_ts_accuracy info) ++ le_enc 1 (i_ts_unit info) ++ le_enc 1 (i_ts_flags info)
  else [].

(* field bytes placed at their naturally aligned offsets in bit order, zero padding in between;
   acc is what has been laid out so far (its length is the current offset from the header start) *)
Fixpoint s_layout (offs : list (Z * Z)) (info : rt_info) (acc : list byte) : list byte :=
  match offs with
  | [] => acc
  | (bit, o) :: r => s_layout r info (acc ++ repeat 0 (Z.to_nat (o - zlen acc)) ++ s_field_bytes info bit)
  end.
Definition s_render (present : Z) (info : rt_info) : list byte :=
  let offs := fst (s_field_offsets present) in
  let len := snd (s_field_offsets present) in
  s_layout offs info ([0; 0] ++ le_enc 2 len ++ le_enc 4 present).

(* field values are in range for their width *)
Definition info_in_range (i : rt_info) : Prop :=
  0 <= i_flags i < 256 /\ 0 <= i_rate_raw i < 256 /\ 0 <= i_chan_freq i < 65536 /\ 0 <= i_chan_flags i < 65536 /\
  0 <= i_signal i < 256 /\ 0 <= i_tx_power i < 256 /\ 0 <= i_rx_flags i < 65536 /\ 0 <= i_tx_flags i < 65536 /\
  0 <= i_rts_retries i < 256 /\ 0 <= i_data_retries i < 256 /\ 0 <= i_mcs_known i < 256 /\ 0 <= i_mcs_flags i < 256 /\
  0 <= i_mcs_mcs i < 256 /\ 0 <= i_ts i < 2 ^ 64 /\ 0 <= i_ts_accuracy i < 65536 /\ 0 <= i_ts_unit i < 256 /\
  0 <= i_ts_flags i < 256.

(* the description restricted to the selected fields (everything else as a decoder leaves it: zero),
   with band/channel derived from the frequency and the header length filled in *)
Definition s_restrict (present : Z) (i : rt_info) : rt_info :=
  let t b := Z.testbit present b in
  let freq := if t 3 then i_chan_freq i else 0 in
  {| i_chan_flags := (if t 3 then i_chan_flags i else 0); i_chan_freq := freq;
     i_chan_center := (if t 3 then fst (s_band_center freq) else 0);
     i_chan_band := (if t 3 then snd (s_band_center freq) else 0);
     i_rate_raw := (if t 2 then i_rate_raw i else 0); i_antennas := [];
     i_signal := (if t 5 then i_signal i else 0); i_flags := (if t 1 then i_flags i else 0); i_ext_flags := 0;
     i_rx_flags := (if t 14 then i_rx_flags i else 0); i_tx_flags := (if t 15 then i_tx_flags i else 0);
     i_mcs_known := (if t 19 then i_mcs_known i else 0); i_mcs_flags := (if t 19 then i_mcs_flags i else 0);
     i_mcs_mcs := (if t 19 then i_mcs_mcs i else 0); i_tx_power := (if t 10 then i_tx_power i else 0);
     i_ts := (if t 22 then i_ts i else 0); i_ts_accuracy := (if t 22 then i_ts_accuracy i else 0);
     i_ts_unit := (if t 22 then i_ts_unit i else 0); i_ts_flags := (if t 22 then i_ts_flags i else 0);
     i_rts_retries := (if t 16 then i_rts_retries i else 0); i_data_retries := (if t 17 then i_data_retries i else 0);
     i_length := snd (s_field_offsets present) |}.
