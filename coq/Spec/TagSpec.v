(* C05/C06 - what tag iteration and tag-list editing have to do, stated on the byte list itself. *)
From LW Require Import Base.Bytes Model.TagIter.
Local Open Scope Z_scope.

(* ---------- C06: the chain of elements of a buffer ---------- *)
(* elements that fit, in wire order, starting at offset off of the original buffer; buf is what remains *)
Fixpoint chain (fuel : nat) (buf : list byte) (off : Z) : list elem :=
  match fuel with
  | O => []
  | S f =>
    match buf with
    | n :: l :: rest =>
        if zlen rest <? l then []
        else {| e_off := off; e_num := n; e_len := l |} :: chain f (skipn (Z.to_nat l) rest) (off + 2 + l)
    | _ => []
    end
  end.
Definition elements (buf : list byte) : list elem := chain (length buf + 1) buf 0.

(* what iteration must report: the whole chain (an element with an empty body is an element like any other) *)
Definition reported (buf : list byte) : list elem := elements buf.
(* refused exactly when the first element does not fit (or there is none) *)
Definition spec_iterate (buf : list byte) : outcome (list elem) :=
  match elements buf with
  | [] => Err (- EINVAL)
  | _ => Ok (reported buf)
  end.

(* a reported element is genuine: its number and length are the bytes at its offset, its body is inside *)
Definition genuine (buf : list byte) (e : elem) : Prop :=
  0 <= e_off e /\ e_off e + 2 + e_len e <= zlen buf /\
  e_num e = znth buf (e_off e) /\ e_len e = znth buf (e_off e + 1).
(* wire order, none skipped or repeated: each element starts where the previous one ended *)
Fixpoint contiguous (off : Z) (l : list elem) : Prop :=
  match l with
  | [] => True
  | e :: r => e_off e = off /\ contiguous (off + 2 + e_len e) r
  end.

(* ---------- C05: abstract element lists ---------- *)
Definition tag := (Z * list byte)%type.               (* (number, body) *)
Definition enc1 (t : tag) : list byte := fst t :: zlen (snd t) :: snd t.
Definition enc (l : list tag) : list byte := flat_map enc1 l.
Definition wf_tag (t : tag) : Prop := 0 <= fst t < 256 /\ zlen (snd t) <= 255 /\ wfbytes (snd t).
Definition wf_tags (l : list tag) : Prop := Forall wf_tag l.
Definition wf_tagb (t : tag) : bool :=
  (0 <=? fst t) && (fst t <? 256) && (zlen (snd t) <=? 255) && wfbytesb (snd t).
(* no element other than the first is empty *)
Definition nonleading_nonempty (l : list tag) : Prop :=
  match l with [] => True | _ :: r => Forall (fun t => snd t <> []) r end.
Fixpoint remove_first (n : Z) (l : list tag) : list tag :=
  match l with
  | [] => []
  | t :: r => if fst t =? n then r else t :: remove_first n r
  end.
Definition count_num (n : Z) (l : list tag) : Z :=
  zlen (filter (fun t => fst t =? n) l).

(* ---------- edit histories ---------- *)
Inductive tag_op :=
| OpAdd (num : Z) (body : list byte)
| OpRemove (num : Z)
| OpSetSsid (ssid : list byte)
| OpSetChannel (ch : Z)
| OpCheck (num : Z).

Definition nonleading_nonemptyb (l : list tag) : bool :=
  match l with [] => true | _ :: r => forallb (fun t => negb (zlen (snd t) =? 0)) r end.
Definition spec_set (l : list tag) (num : Z) (body : list byte) : list tag :=
  remove_first num l ++ [(num, body)].
(* the reference behaviour on the abstract list.  It is total: since the iterator reports empty elements like any
   other (finding F44) the condition "no element other than the first is empty" is no longer needed, and an empty list
   has count 0 and nothing to remove (finding F50).  The option type is kept for the driver's interface. *)
Definition spec_step (ssid_num ds_num : Z) (l : list tag) (o : tag_op) : option (list tag * Z) :=
  match o with
  | OpAdd n b => Some (l ++ [(n, b)], 0)
  | OpCheck n => Some (l, count_num n l)
  | OpRemove n => Some (remove_first n l, 0)
  | OpSetSsid b => Some (spec_set l ssid_num b, 0)
  | OpSetChannel c => Some (spec_set l ds_num [c], 0)
  end.
