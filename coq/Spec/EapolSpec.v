(* C12 - EAPOL-Key recognition, classification and extraction, stated on the classified frame's body
   with the standard's offsets written out (IEEE 802.2 LLC/SNAP: 3 octets LLC, 3 octets OUI, 2 octets
   EtherType; IEEE 802.1X-2010 11.3 EAPOL header: version, type, body length; IEEE 802.11-2016 12.7.2
   EAPOL-Key frame: descriptor type 1, key information 2, key length 2, replay counter 8, nonce 32,
   IV 16, RSC 8, reserved/ID 8, MIC 16, key data length 2, key data). *)
From LW Require Import Base.Bytes Model.Radiotap Model.Frame Model.Eapol Spec.FrameSpec.
Local Open Scope Z_scope.

Definition ETHERTYPE_EAPOL : Z := 34958.        (* 0x888E *)
Definition EAPOL_KEY_MIN : Z := 107.            (* 8 (LLC/SNAP) + 4 (EAPOL header) + 95 (key descriptor) *)
Definition KEY_DATA_CAP : Z := 1024.            (* the library's documented cap *)

Definition s_frame_type (f : frame) : Z := match f_fc f with fc0 :: _ => s_type fc0 | [] => -1 end.

(* a WPA handshake frame: data frame, body starting with an LLC/SNAP header (AA AA 03), zero SNAP OUI, EtherType 0x888E, long enough for the descriptor *)
Definition s_is_handshake (f : frame) : bool :=
  (s_frame_type f =? T_DATA) &&
  (8 <=? zlen (f_body f)) &&
  (znth (f_body f) 0 =? 170) && (znth (f_body f) 1 =? 170) && (znth (f_body f) 2 =? 3) &&     (* LLC with SNAP: AA AA 03 *)
  (znth (f_body f) 3 =? 0) && (znth (f_body f) 4 =? 0) && (znth (f_body f) 5 =? 0) &&
  (be16 (f_body f) 6 =? ETHERTYPE_EAPOL) &&
  (EAPOL_KEY_MIN <=? zlen (f_body f)).

(* message number from the key information field: 0x008A, 0x010A, 0x13CA, 0x030A *)
Definition M1 := 1. Definition M2 := 2. Definition M3 := 4. Definition M4 := 8. Definition MINVALID := 16.
Definition s_message (f : frame) : Z :=
  if zlen (f_body f) <? EAPOL_KEY_MIN then MINVALID else
  let ki := be16 (f_body f) 13 in
  if ki =? 138 then M1 else if ki =? 266 then M2 else if ki =? 5066 then M3 else if ki =? 778 then M4 else MINVALID.

Definition s_key_data_len (f : frame) : Z :=
  let declared := be16 (f_body f) 105 in
  Z.min declared (Z.min KEY_DATA_CAP (zlen (f_body f) - EAPOL_KEY_MIN)).

Definition s_wpa_data (f : frame) : outcome wpa_data :=
  if negb (s_is_handshake f) then Err (- EINVAL) else
  let b := f_body f in
  Ok {| w_version := znth b 8; w_type := znth b 9; w_length := be16 b 10; w_descriptor := znth b 12;
        w_information := be16 b 13; w_key_length := be16 b 15; w_replay := be64 b 17;
        w_nonce := slice 25 32 b; w_iv := slice 57 16 b; w_rsc := slice 73 8 b; w_id := slice 81 8 b;
        w_mic := slice 89 16 b;
        w_key_data_length := s_key_data_len f;
        w_key_data := slice EAPOL_KEY_MIN (s_key_data_len f) b |}.

(* the frames these routines are applied to: results of classification (body is len - header_len bytes) *)
Definition frame_ok (f : frame) : Prop :=
  wfbytes (f_body f) /\ wfbytes (f_fc f) /\ zlen (f_fc f) = 2 /\ 0 <= f_header_len f /\
  f_len f = f_header_len f + zlen (f_body f).
