(* C04 / C08 - what the management parsers have to report, stated on the classified frame with the
   standard's numbers written out (element IDs: SSID 0, DSSS parameter set 3, RSN 48, HT operation 61,
   vendor specific 221; fixed parameter sizes: beacon/probe response 12 with the capability field at
   offset 10, association response 6, (re)association request 4/10, reason code 2). *)
From LW Require Import Base.Bytes Model.TagIter Spec.TagSpec Model.Radiotap Model.Frame Spec.FrameSpec
  Model.Security Spec.SecuritySpec Model.Mgmt.
Local Open Scope Z_scope.

Definition E_SSID := 0. Definition E_DS := 3. Definition E_RSN := 48. Definition E_HT_OP := 61. Definition E_VENDOR := 221.
Definition body_of (tags : list byte) (e : elem) : list byte := slice (e_off e + 2) (e_len e) tags.

Definition is_wpa_elem (tags : list byte) (e : elem) : bool :=
  (e_num e =? E_VENDOR) && (4 <=? e_len e) && oui_eqb (zfirstn 3 (body_of tags e)) MSFT_OUI && (znth (body_of tags e) 3 =? 1).
Definition is_wps_elem (tags : list byte) (e : elem) : bool :=
  (e_num e =? E_VENDOR) && (4 <=? e_len e) && oui_eqb (zfirstn 3 (body_of tags e)) MSFT_OUI && (znth (body_of tags e) 3 =? 4).
Definition is_rsn_elem (e : elem) : bool := e_num e =? E_RSN.

(* what the elements of a BSS frame contribute, in order: the parse fails as soon as a security element
   does not decode *)
Record sec_sum := { x_enc : Z; x_wps : Z; x_rsn : rsn_info; x_wpa : wpa_info }.
Fixpoint s_security (tags : list byte) (els : list elem) (acc : sec_sum) : option sec_sum :=
  match els with
  | [] => Some acc
  | e :: r =>
    if is_rsn_elem e then
      match s_rsn_decode (body_of tags e) with
      | None => None
      | Some i => s_security tags r {| x_enc := Z.lor (clear_wep (x_enc acc)) (s_rsn_flags i); x_wps := x_wps acc;
                                        x_rsn := i; x_wpa := x_wpa acc |}
      end
    else if is_wpa_elem tags e then
      match s_wpa_decode (body_of tags e) with
      | None => None
      | Some i => s_security tags r {| x_enc := Z.lor (Z.lor (clear_wep (x_enc acc)) F_WPA) (s_wpa_flags i);
                                        x_wps := x_wps acc; x_rsn := x_rsn acc; x_wpa := i |}
      end
    else if is_wps_elem tags e then
      s_security tags r {| x_enc := x_enc acc; x_wps := 1; x_rsn := x_rsn acc; x_wpa := x_wpa acc |}
    else s_security tags r acc
  end.

(* SSID: at most 32 bytes of the LAST SSID element at the start of the 33-byte field, zero after them; hidden exactly
   when that element is empty or all zero.  Channel: first body byte of the last DS (for BSS
   frames also HT operation) element that has one. *)
Definition s_ssid_bytes (tags : list byte) (e : elem) : list byte := zfirstn (Z.min (e_len e) 32) (body_of tags e).
Definition sp_ssid (tags : list byte) (els : list elem) : list byte :=
  fold_left (fun acc e => if e_num e =? E_SSID then put0 (s_ssid_bytes tags e) zero33 else acc) els zero33.
Definition sp_hidden (tags : list byte) (els : list elem) : Z :=
  fold_left (fun acc e => if e_num e =? E_SSID
                          then (if (e_len e =? 0) || forallb (fun b => b =? 0) (s_ssid_bytes tags e) then 1 else 0)
                          else acc) els 0.
Definition s_chan (ht : bool) (tags : list byte) (els : list elem) : Z :=
  fold_left (fun acc e => if ((e_num e =? E_DS) || (ht && (e_num e =? E_HT_OP))) && (1 <=? e_len e)
                          then znth (body_of tags e) 0 else acc) els 0.

Definition s_is (f : frame) (subtype : Z) : bool :=
  match f_fc f with fc0 :: _ => (s_type fc0 =? T_MGMT) && (s_subtype fc0 =? subtype) | [] => false end.
Definition s_addr (f : frame) (n : Z) : list byte := slice (4 + 6 * (n - 1)) 6 (f_header f).   (* address n = 1,2,3 *)

(* beacon (8), probe response (5), association response (1), reassociation response (3) *)
Definition s_parse_bss (f : frame) (subtype fixed cap_off : Z) (all_addrs : bool) : outcome bss :=
  if negb (s_is f subtype) then Err (- EINVAL) else
  if zlen (f_body f) <? fixed + 2 then Err (- EINVAL) else
  let tags := zskipn fixed (f_body f) in
  match spec_iterate tags with
  | Err _ => Err (- EINVAL)
  | Ok els =>
    let privacy := Z.testbit (le16 (f_body f) cap_off) 4 in
    match s_security tags els {| x_enc := (if privacy then F_WEP else 0); x_wps := 0; x_rsn := rsn0; x_wpa := wpa0 |} with
    | None => Err (- EINVAL)
    | Some x =>
      Ok {| b_transmitter := (if all_addrs then s_addr f 2 else zero6);
            b_receiver := (if all_addrs then s_addr f 1 else zero6);
            b_bssid := s_addr f 3;
            b_ssid := sp_ssid tags els; b_hidden := sp_hidden tags els; b_channel := s_chan true tags els;
            b_wps := x_wps x; b_enc := x_enc x; b_wpa := x_wpa x; b_rsn := x_rsn x; b_tags := tags |}
    end
  end.
Definition s_parse_beacon f := s_parse_bss f 8 12 10 true.
Definition s_parse_probe_resp f := s_parse_bss f 5 12 10 true.
Definition s_parse_assoc_resp f := s_parse_bss f 1 6 0 true.
Definition s_parse_reassoc_resp f := s_parse_bss f 3 6 0 true.

(* probe request (4), association request (0), reassociation request (2) *)
Definition s_parse_sta (f : frame) (subtype fixed : Z) : outcome sta :=
  if negb (s_is f subtype) then Err (- EINVAL) else
  if (0 <? fixed) && (zlen (f_body f) <=? fixed) then Err (- EINVAL) else
  let tags := zskipn fixed (f_body f) in
  match spec_iterate tags with
  | Err _ => Err (- EINVAL)
  | Ok els =>
    Ok {| s_channel := s_chan false tags els;
          s_randomized := (if Z.testbit (znth (s_addr f 2) 0) 1 then 1 else 0);     (* locally administered bit *)
          s_transmitter := s_addr f 2; s_receiver := s_addr f 1; s_bssid := s_addr f 3;
          s_ssid := sp_ssid tags els; s_broadcast_ssid := 0; s_tags := tags |}
  end.
Definition s_parse_probe_req f := s_parse_sta f 4 0.
Definition s_parse_assoc_req f := s_parse_sta f 0 4.
Definition s_parse_reassoc_req f := s_parse_sta f 2 10.

(* deauthentication (12), disassociation (10) *)
Definition s_parse_reason (f : frame) (subtype : Z) : outcome parsed_reason :=
  if negb (s_is f subtype) then Err (- EINVAL) else
  if zlen (f_body f) <? 2 then Err (- EINVAL) else
  Ok {| p_ordered := (match f_fc f with [_; fc1] => if s_ordered fc1 then 1 else 0 | _ => 0 end);
        p_header := f_header f; p_reason := le16 (f_body f) 0; p_tags := zskipn 2 (f_body f) |}.
