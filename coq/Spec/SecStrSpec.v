(* C17 - what the four description routines have to write: which name belongs to which summary flag
   (hand-written from core/misc/security.h's documented flag names; the flag VALUES are the ones
   compiled into the library), and the shape of the resulting string. *)
From Coq Require Import List ZArith String Ascii.
From LW Require Import Base.Bytes Gen.Consts.
Import ListNotations.
Local Open Scope Z_scope.

Definition bytes_of_string (s : string) : list byte :=
  map (fun a => Z.of_nat (nat_of_ascii a)) (list_ascii_of_string s).
Notation "# s" := (bytes_of_string s%string) (at level 9, only parsing).

Definition spec_generations : list (Z * list byte) :=
  [ (c_WPA3, #"WPA3"); (c_WPA2, #"WPA2"); (c_WPA, #"WPA"); (c_WEP, #"WEP") ].
Definition spec_group : list (Z * list byte) :=
  [ (c_LIBWIFI_GROUP_CIPHER_SUITE_WEP40, #"WEP40"); (c_LIBWIFI_GROUP_CIPHER_SUITE_TKIP, #"TKIP");
    (c_LIBWIFI_GROUP_CIPHER_SUITE_RESERVED, #"RESERVED"); (c_LIBWIFI_GROUP_CIPHER_SUITE_CCMP128, #"CCMP128");
    (c_LIBWIFI_GROUP_CIPHER_SUITE_WEP104, #"WEP104"); (c_LIBWIFI_GROUP_CIPHER_SUITE_BIP_CMAC128, #"BIP_CMAC128");
    (c_LIBWIFI_GROUP_CIPHER_SUITE_NOTALLOWED, #"NOT_ALLOWED"); (c_LIBWIFI_GROUP_CIPHER_SUITE_GCMP128, #"GCMP128");
    (c_LIBWIFI_GROUP_CIPHER_SUITE_GCMP256, #"GCMP256"); (c_LIBWIFI_GROUP_CIPHER_SUITE_CCMP256, #"CCMP256");
    (c_LIBWIFI_GROUP_CIPHER_SUITE_BIP_GMAC128, #"BIP_GMAC128"); (c_LIBWIFI_GROUP_CIPHER_SUITE_BIP_GMAC256, #"BIP_GMAC256");
    (c_LIBWIFI_GROUP_CIPHER_SUITE_BIP_CMAC256, #"BIP_CMAC256") ].
Definition spec_pairwise : list (Z * list byte) :=
  [ (c_LIBWIFI_PAIRWISE_SUITE_GROUP, #"GROUP"); (c_LIBWIFI_PAIRWISE_CIPHER_SUITE_WEP40, #"WEP40");
    (c_LIBWIFI_PAIRWISE_CIPHER_SUITE_TKIP, #"TKIP"); (c_LIBWIFI_PAIRWISE_CIPHER_SUITE_RESERVED, #"RESERVED");
    (c_LIBWIFI_PAIRWISE_CIPHER_SUITE_CCMP128, #"CCMP128"); (c_LIBWIFI_PAIRWISE_CIPHER_SUITE_WEP104, #"WEP104");
    (c_LIBWIFI_PAIRWISE_CIPHER_SUITE_BIP_CMAC128, #"BIP_CMAC128"); (c_LIBWIFI_PAIRWISE_CIPHER_SUITE_NOTALLOWED, #"NOT_ALLOWED");
    (c_LIBWIFI_PAIRWISE_CIPHER_SUITE_GCMP128, #"GCMP128"); (c_LIBWIFI_PAIRWISE_CIPHER_SUITE_GCMP256, #"GCMP256");
    (c_LIBWIFI_PAIRWISE_CIPHER_SUITE_CCMP256, #"CCMP256"); (c_LIBWIFI_PAIRWISE_CIPHER_SUITE_BIP_GMAC128, #"BIP_GMAC128");
    (c_LIBWIFI_PAIRWISE_CIPHER_SUITE_BIP_GMAC256, #"BIP_GMAC256"); (c_LIBWIFI_PAIRWISE_CIPHER_SUITE_BIP_CMAC256, #"BIP_CMAC256") ].
Definition spec_akm : list (Z * list byte) :=
  [ (c_LIBWIFI_AKM_SUITE_RESERVED, #"RESERVED"); (c_LIBWIFI_AKM_SUITE_1X, #"802.1X"); (c_LIBWIFI_AKM_SUITE_PSK, #"PSK");
    (c_LIBWIFI_AKM_SUITE_1X_FT, #"802.1X_FT"); (c_LIBWIFI_AKM_SUITE_PSK_FT, #"PSK_FT");
    (c_LIBWIFI_AKM_SUITE_1X_SHA256, #"802.1X_SHA256"); (c_LIBWIFI_AKM_SUITE_PSK_SHA256, #"PSK_SHA256");
    (c_LIBWIFI_AKM_SUITE_TDLS, #"TDLS"); (c_LIBWIFI_AKM_SUITE_SAE, #"SAE"); (c_LIBWIFI_AKM_SUITE_SAE_FT, #"SAE_FT");
    (c_LIBWIFI_AKM_SUITE_AP_PEER, #"AP_PEER"); (c_LIBWIFI_AKM_SUITE_1X_SUITEB_SHA256, #"802.1X_SUITEB_SHA256");
    (c_LIBWIFI_AKM_SUITE_1X_SUITEB_SHA384, #"802.1X_SUITEB_SHA384"); (c_LIBWIFI_AKM_SUITE_1X_FT_SHA384, #"802.1X_FT_SHA384");
    (c_LIBWIFI_AKM_SUITE_FILS_SHA256, #"FILS_SHA256"); (c_LIBWIFI_AKM_SUITE_FILS_SHA384, #"FILS_SHA384");
    (c_LIBWIFI_AKM_SUITE_FILS_SHA256_FT, #"FILS_SHA256_FT"); (c_LIBWIFI_AKM_SUITE_FILS_SHA384_FT, #"FILS_SHA384_FT");
    (c_LIBWIFI_AKM_SUITE_OWE, #"OWE"); (c_LIBWIFI_AKM_PSK_SHA384_FT, #"PSK_SHA384_FT"); (c_LIBWIFI_AKM_PSK_SHA384, #"PSK_SHA384") ].

Definition spec_none : list byte := #"None".
Definition spec_sep : list byte := #", ".

(* names of the flags that are set, in table order *)
Definition set_names (tbl : list (Z * list byte)) (info : Z) : list (list byte) :=
  map snd (filter (fun p => negb (Z.land info (fst p) =? 0)) tbl).
Fixpoint intercalate (sep : list byte) (l : list (list byte)) : list byte :=
  match l with
  | [] => []
  | [x] => x
  | x :: r => x ++ sep ++ intercalate sep r
  end.
(* the string the property asks for, given the order in which a routine lists its names *)
Definition spec_describe (tbl : list (Z * list byte)) (info : Z) : list byte :=
  if info =? 0 then spec_none else intercalate spec_sep (set_names tbl info).

(* table facts the property needs: every flag is a single distinct bit, names are distinct and contain
   neither NUL nor the separator's comma, the library's table is the documented one up to order *)
Definition single_bit (f : Z) : bool := (0 <? f) && (Z.land f (f - 1) =? 0).
Fixpoint mem_pair (p : Z * list byte) (l : list (Z * list byte)) : bool :=
  match l with
  | [] => false
  | q :: r => ((fst p =? fst q) && (if list_eq_dec Z.eq_dec (snd p) (snd q) then true else false)) || mem_pair p r
  end.
Definition same_table (a b : list (Z * list byte)) : bool :=
  forallb (fun p => mem_pair p b) a && forallb (fun p => mem_pair p a) b && (length a =? length b)%nat.
Fixpoint distinct_names (l : list (list byte)) : bool :=
  match l with
  | [] => true
  | x :: r => negb (existsb (fun y => if list_eq_dec Z.eq_dec x y then true else false) r) && distinct_names r
  end.
Definition name_ok (n : list byte) : bool :=
  negb (zlen n =? 0) && forallb (fun b => (0 <? b) && (b <? 128) && negb (b =? 44)) n.
