(* C18 - the Capability Information field (IEEE 802.11-2016 Figure 9-68 / 9.4.1.4): which bit each
   published capability name denotes.  Hand-written, independent of the header's numbers. *)
From Coq Require Import List ZArith String.
Import ListNotations.
Local Open Scope Z_scope.
Local Open Scope string_scope.

Definition ieee_cap_bits : list (string * Z) := [
  ("CAPABILITIES_ESS", 0);
  ("CAPABILITIES_IBSS", 1);
  ("CAPABILITIES_POLL", 2);               (* CF-Pollable *)
  ("CAPABILITIES_POLL_REQ", 3);           (* CF-Poll Request *)
  ("CAPABILITIES_PRIVACY", 4);
  ("CAPABILITIES_SHORT_PREAMBLE", 5);
  ("CAPABILITIES_PBCC", 6);
  ("CAPABILITIES_CHAN_AGILITY", 7);
  ("CAPABILITIES_SPECTRUM_AGILITY", 8);   (* Spectrum Management *)
  ("CAPABILITIES_SHORT_SLOT", 10);        (* bit 9 is QoS, not published by the library *)
  ("CAPABILITIES_POWER_SAVE", 11);        (* APSD *)
  ("CAPABILITIES_MEASUREMENT", 12);       (* Radio Measurement *)
  ("CAPABILITIES_DSSS_OFDM", 13);
  ("CAPABILITIES_DELAYED_ACK", 14);       (* Delayed Block Ack *)
  ("CAPABILITIES_IMMEDIATE_ACK", 15)      (* Immediate Block Ack *)
].

(* the argument expression shapes of the property, as C token lists over variables a, b, c,
   and what each denotes *)
From LW Require Import Base.Tok.
Record shape := { sh_name : string; sh_toks : list tok; sh_sem : Z -> Z -> Z -> Z }.
Definition shapes : list shape := [
  {| sh_name := "var";    sh_toks := [TId "a"];                                        sh_sem := fun a b c => a |};
  {| sh_name := "paren";  sh_toks := [TLParen; TId "a"; TRParen];                      sh_sem := fun a b c => a |};
  {| sh_name := "or";     sh_toks := [TId "a"; TOp "|"; TId "b"];                      sh_sem := fun a b c => Z.lor a b |};
  {| sh_name := "cond";   sh_toks := [TId "c"; TOp "?"; TId "a"; TOp ":"; TId "b"];    sh_sem := fun a b c => if (c =? 0)%Z then b else a |};
  {| sh_name := "and";    sh_toks := [TId "a"; TOp "&"; TId "b"];                      sh_sem := fun a b c => Z.land a b |};
  {| sh_name := "xor";    sh_toks := [TId "a"; TOp "^"; TId "b"];                      sh_sem := fun a b c => Z.lxor a b |};
  {| sh_name := "plus";   sh_toks := [TId "a"; TOp "+"; TId "b"];                      sh_sem := fun a b c => (a + b) mod 65536 |};
  {| sh_name := "shift";  sh_toks := [TId "a"; TOp "<<"; TNum 1];                      sh_sem := fun a b c => (a * 2) mod 65536 |}
].
