(* C09, chains of present words - what a radiotap header with several present words, namespace
   resets and vendor namespaces must decode to.  Written against the byte list only: a structural
   recursion over the list of present words (no iterator, no read oracle).  The alignment/size table
   and the single-word layout (s_align_size, align_up, s_offsets) are those of Spec/RadiotapSpec.v.

   radiotap.org, "extended presence masks" / "namespaces":
   - bit 31 of a present word: another present word follows; the field data starts after the last one;
   - bits 0..28 select fields of the CURRENT namespace; the n-th word of a namespace selects its fields
     32n .. 32n+28.  The radiotap namespace defines fields 0..22 only (s_align_size);
   - bit 29: the NEXT present word starts again at field 0 of the radiotap namespace;
   - bit 30: a vendor namespace starts: its 6-byte header (OUI[3], sub-namespace[1], skip_length[2],
     little-endian, 2-byte aligned) and skip_length bytes of vendor data are stored after the fields of
     this word, and the NEXT present word belongs to the vendor namespace: its bits 0..28 select vendor
     fields that all live inside the skipped vendor data;
   - bits 29 and 30 may not both be set. *)
From LW Require Import Base.Bytes Base.Sweep Model.Radiotap Spec.RadiotapSpec.
Local Open Scope Z_scope.

(* ---------------------------------------------------------------- the present words *)
(* the 32-bit little-endian words at off, off+4, ... up to and including the first whose bit 31 is
   clear; at most n of them *)
Fixpoint s_words_from (buf : list byte) (n : nat) (off : Z) : list Z :=
  match n with
  | O => []
  | S k => let w := le32 buf off in
           w :: (if Z.testbit w 31 then s_words_from buf k (off + 4) else [])
  end.
(* the words start at offset 4 and must lie inside it_len: at most (it_len - 4) / 4 of them *)
Definition s_words (buf : list byte) : list Z :=
  s_words_from buf (Z.to_nat ((s_it_len buf - 4) / 4)) 4.

(* ---------------------------------------------------------------- namespaces *)
(* what the bits 0..28 of a present word mean *)
Inductive s_mode :=
| RtFirst   (* radiotap namespace, fields 0..28 (first word of the header, or first word after bit 29) *)
| RtCont    (* radiotap namespace, a further word without reset: fields 32.. - none of them is defined *)
| Vend.     (* vendor namespace: the fields live inside the skipped vendor data *)

Definition s_next_mode (m : s_mode) (w : Z) : s_mode :=
  if Z.testbit w 30 then Vend
  else if Z.testbit w 29 then RtFirst
  else match m with Vend => Vend | _ => RtCont end.

(* the data a word with bit 30 adds after its own fields: vendor header at 2-byte alignment, then
   skip_length bytes *)
Definition s_vendor_end (buf : list byte) (w cur : Z) : Z :=
  if Z.testbit w 30 then
    let a := align_up cur 2 in a + 6 + le16 buf (a + 4)
  else cur.

(* layout of the data selected by the words ws, the first of them read in mode m, its data starting
   at cur: (bit, offset) of every radiotap-namespace field in order, and the end of the data *)
Fixpoint s_chain_layout (buf : list byte) (m : s_mode) (cur : Z) (ws : list Z) : list (Z * Z) * Z :=
  match ws with
  | [] => ([], cur)
  | w :: r =>
    let '(h1, c1) := match m with
                     | RtFirst => s_offsets (number_from 0 s_align_size) w cur
                     | _ => ([], cur)
                     end in
    let '(h2, e) := s_chain_layout buf (s_next_mode m w) (s_vendor_end buf w c1) r in
    (h1 ++ h2, e)
  end.

Definition s_chain_start (buf : list byte) : Z := 4 + 4 * zlen (s_words buf).
Definition s_chain_hits (buf : list byte) : list (Z * Z) :=
  fst (s_chain_layout buf RtFirst (s_chain_start buf) (s_words buf)).
Definition s_chain_end (buf : list byte) : Z :=
  snd (s_chain_layout buf RtFirst (s_chain_start buf) (s_words buf)).

(* ---------------------------------------------------------------- well-formed chains *)
Definition s_bits_clear (w lo n : Z) : bool := forallb (fun i => negb (Z.testbit w i)) (zrange lo n).

(* one word read in mode m: never both bit 29 and bit 30; in the radiotap namespace only defined
   fields (first word: bits 23..28 clear; continuation word: bits 0..28 clear); vendor words are free *)
Definition s_word_okb (m : s_mode) (w : Z) : bool :=
  negb (Z.testbit w 29 && Z.testbit w 30) &&
  match m with
  | RtFirst => s_bits_clear w 23 6
  | RtCont => s_bits_clear w 0 29
  | Vend => true
  end.
Fixpoint s_words_okb (m : s_mode) (ws : list Z) : bool :=
  match ws with
  | [] => true
  | w :: r => s_word_okb m w && s_words_okb (s_next_mode m w) r
  end.

(* version 0; 8 <= it_len <= 255, inside the supplied bytes; the chain of present words ends inside
   it_len (the last word read has bit 31 clear); every word is acceptable in its namespace; all the
   selected data - fields, vendor headers and vendor data - ends inside it_len *)
Definition s_wf_chainb (buf : list byte) : bool :=
  (znth buf 0 =? 0) && (8 <=? s_it_len buf) && (s_it_len buf <=? 255) && (s_it_len buf <=? zlen buf) &&
  negb (Z.testbit (last (s_words buf) 0) 31) &&
  s_words_okb RtFirst (s_words buf) &&
  (s_chain_end buf <=? s_it_len buf).
Definition s_wf_chain (buf : list byte) : Prop :=
  znth buf 0 = 0 /\ 8 <= s_it_len buf <= 255 /\ s_it_len buf <= zlen buf /\
  Z.testbit (last (s_words buf) 0) 31 = false /\
  s_words_okb RtFirst (s_words buf) = true /\
  s_chain_end buf <= s_it_len buf.

(* ---------------------------------------------------------------- the decoded record *)
Definition s_max_antennas : Z := 16.      (* LIBWIFI_MAX_RADIOTAP_ANTENNAS *)

Definition s_info0 (len : Z) : rt_info :=
  {| i_chan_flags := 0; i_chan_freq := 0; i_chan_center := 0; i_chan_band := 0; i_rate_raw := 0;
     i_antennas := []; i_signal := 0; i_flags := 0; i_ext_flags := 0; i_rx_flags := 0; i_tx_flags := 0;
     i_mcs_known := 0; i_mcs_flags := 0; i_mcs_mcs := 0; i_tx_power := 0;
     i_ts := 0; i_ts_accuracy := 0; i_ts_unit := 0; i_ts_flags := 0;
     i_rts_retries := 0; i_data_retries := 0; i_length := len |}.

Definition set_chan (x : rt_info) (fl freq center band : Z) : rt_info :=
  {| i_chan_flags := fl; i_chan_freq := freq; i_chan_center := center; i_chan_band := band;
     i_rate_raw := i_rate_raw x; i_antennas := i_antennas x; i_signal := i_signal x;
     i_flags := i_flags x; i_ext_flags := i_ext_flags x; i_rx_flags := i_rx_flags x;
     i_tx_flags := i_tx_flags x; i_mcs_known := i_mcs_known x; i_mcs_flags := i_mcs_flags x;
     i_mcs_mcs := i_mcs_mcs x; i_tx_power := i_tx_power x; i_ts := i_ts x;
     i_ts_accuracy := i_ts_accuracy x; i_ts_unit := i_ts_unit x; i_ts_flags := i_ts_flags x;
     i_rts_retries := i_rts_retries x; i_data_retries := i_data_retries x; i_length := i_length x |}.
Definition set_rate (x : rt_info) (v : Z) : rt_info :=
  {| i_chan_flags := i_chan_flags x; i_chan_freq := i_chan_freq x; i_chan_center := i_chan_center x;
     i_chan_band := i_chan_band x; i_rate_raw := v; i_antennas := i_antennas x; i_signal := i_signal x;
     i_flags := i_flags x; i_ext_flags := i_ext_flags x; i_rx_flags := i_rx_flags x;
     i_tx_flags := i_tx_flags x; i_mcs_known := i_mcs_known x; i_mcs_flags := i_mcs_flags x;
     i_mcs_mcs := i_mcs_mcs x; i_tx_power := i_tx_power x; i_ts := i_ts x;
     i_ts_accuracy := i_ts_accuracy x; i_ts_unit := i_ts_unit x; i_ts_flags := i_ts_flags x;
     i_rts_retries := i_rts_retries x; i_data_retries := i_data_retries x; i_length := i_length x |}.
Definition set_antennas (x : rt_info) (l : list (Z * Z)) : rt_info :=
  {| i_chan_flags := i_chan_flags x; i_chan_freq := i_chan_freq x; i_chan_center := i_chan_center x;
     i_chan_band := i_chan_band x; i_rate_raw := i_rate_raw x; i_antennas := l; i_signal := i_signal x;
     i_flags := i_flags x; i_ext_flags := i_ext_flags x; i_rx_flags := i_rx_flags x;
     i_tx_flags := i_tx_flags x; i_mcs_known := i_mcs_known x; i_mcs_flags := i_mcs_flags x;
     i_mcs_mcs := i_mcs_mcs x; i_tx_power := i_tx_power x; i_ts := i_ts x;
     i_ts_accuracy := i_ts_accuracy x; i_ts_unit := i_ts_unit x; i_ts_flags := i_ts_flags x;
     i_rts_retries := i_rts_retries x; i_data_retries := i_data_retries x; i_length := i_length x |}.
Definition set_signal (x : rt_info) (v : Z) : rt_info :=
  {| i_chan_flags := i_chan_flags x; i_chan_freq := i_chan_freq x; i_chan_center := i_chan_center x;
     i_chan_band := i_chan_band x; i_rate_raw := i_rate_raw x; i_antennas := i_antennas x; i_signal := v;
     i_flags := i_flags x; i_ext_flags := i_ext_flags x; i_rx_flags := i_rx_flags x;
     i_tx_flags := i_tx_flags x; i_mcs_known := i_mcs_known x; i_mcs_flags := i_mcs_flags x;
     i_mcs_mcs := i_mcs_mcs x; i_tx_power := i_tx_power x; i_ts := i_ts x;
     i_ts_accuracy := i_ts_accuracy x; i_ts_unit := i_ts_unit x; i_ts_flags := i_ts_flags x;
     i_rts_retries := i_rts_retries x; i_data_retries := i_data_retries x; i_length := i_length x |}.
Definition set_flags (x : rt_info) (v : Z) : rt_info :=
  {| i_chan_flags := i_chan_flags x; i_chan_freq := i_chan_freq x; i_chan_center := i_chan_center x;
     i_chan_band := i_chan_band x; i_rate_raw := i_rate_raw x; i_antennas := i_antennas x; i_signal := i_signal x;
     i_flags := v; i_ext_flags := i_ext_flags x; i_rx_flags := i_rx_flags x;
     i_tx_flags := i_tx_flags x; i_mcs_known := i_mcs_known x; i_mcs_flags := i_mcs_flags x;
     i_mcs_mcs := i_mcs_mcs x; i_tx_power := i_tx_power x; i_ts := i_ts x;
     i_ts_accuracy := i_ts_accuracy x; i_ts_unit := i_ts_unit x; i_ts_flags := i_ts_flags x;
     i_rts_retries := i_rts_retries x; i_data_retries := i_data_retries x; i_length := i_length x |}.
Definition set_rx_flags (x : rt_info) (v : Z) : rt_info :=
  {| i_chan_flags := i_chan_flags x; i_chan_freq := i_chan_freq x; i_chan_center := i_chan_center x;
     i_chan_band := i_chan_band x; i_rate_raw := i_rate_raw x; i_antennas := i_antennas x; i_signal := i_signal x;
     i_flags := i_flags x; i_ext_flags := i_ext_flags x; i_rx_flags := v;
     i_tx_flags := i_tx_flags x; i_mcs_known := i_mcs_known x; i_mcs_flags := i_mcs_flags x;
     i_mcs_mcs := i_mcs_mcs x; i_tx_power := i_tx_power x; i_ts := i_ts x;
     i_ts_accuracy := i_ts_accuracy x; i_ts_unit := i_ts_unit x; i_ts_flags := i_ts_flags x;
     i_rts_retries := i_rts_retries x; i_data_retries := i_data_retries x; i_length := i_length x |}.
Definition set_tx_flags (x : rt_info) (v : Z) : rt_info :=
  {| i_chan_flags := i_chan_flags x; i_chan_freq := i_chan_freq x; i_chan_center := i_chan_center x;
     i_chan_band := i_chan_band x; i_rate_raw := i_rate_raw x; i_antennas := i_antennas x; i_signal := i_signal x;
     i_flags := i_flags x; i_ext_flags := i_ext_flags x; i_rx_flags := i_rx_flags x;
     i_tx_flags := v; i_mcs_known := i_mcs_known x; i_mcs_flags := i_mcs_flags x;
     i_mcs_mcs := i_mcs_mcs x; i_tx_power := i_tx_power x; i_ts := i_ts x;
     i_ts_accuracy := i_ts_accuracy x; i_ts_unit := i_ts_unit x; i_ts_flags := i_ts_flags x;
     i_rts_retries := i_rts_retries x; i_data_retries := i_data_retries x; i_length := i_length x |}.
Definition set_mcs (x : rt_info) (known fl mcs : Z) : rt_info :=
  {| i_chan_flags := i_chan_flags x; i_chan_freq := i_chan_freq x; i_chan_center := i_chan_center x;
     i_chan_band := i_chan_band x; i_rate_raw := i_rate_raw x; i_antennas := i_antennas x; i_signal := i_signal x;
     i_flags := i_flags x; i_ext_flags := i_ext_flags x; i_rx_flags := i_rx_flags x;
     i_tx_flags := i_tx_flags x; i_mcs_known := known; i_mcs_flags := fl;
     i_mcs_mcs := mcs; i_tx_power := i_tx_power x; i_ts := i_ts x;
     i_ts_accuracy := i_ts_accuracy x; i_ts_unit := i_ts_unit x; i_ts_flags := i_ts_flags x;
     i_rts_retries := i_rts_retries x; i_data_retries := i_data_retries x; i_length := i_length x |}.
Definition set_tx_power (x : rt_info) (v : Z) : rt_info :=
  {| i_chan_flags := i_chan_flags x; i_chan_freq := i_chan_freq x; i_chan_center := i_chan_center x;
     i_chan_band := i_chan_band x; i_rate_raw := i_rate_raw x; i_antennas := i_antennas x; i_signal := i_signal x;
     i_flags := i_flags x; i_ext_flags := i_ext_flags x; i_rx_flags := i_rx_flags x;
     i_tx_flags := i_tx_flags x; i_mcs_known := i_mcs_known x; i_mcs_flags := i_mcs_flags x;
     i_mcs_mcs := i_mcs_mcs x; i_tx_power := v; i_ts := i_ts x;
     i_ts_accuracy := i_ts_accuracy x; i_ts_unit := i_ts_unit x; i_ts_flags := i_ts_flags x;
     i_rts_retries := i_rts_retries x; i_data_retries := i_data_retries x; i_length := i_length x |}.
Definition set_ts (x : rt_info) (ts acc unit_ fl : Z) : rt_info :=
  {| i_chan_flags := i_chan_flags x; i_chan_freq := i_chan_freq x; i_chan_center := i_chan_center x;
     i_chan_band := i_chan_band x; i_rate_raw := i_rate_raw x; i_antennas := i_antennas x; i_signal := i_signal x;
     i_flags := i_flags x; i_ext_flags := i_ext_flags x; i_rx_flags := i_rx_flags x;
     i_tx_flags := i_tx_flags x; i_mcs_known := i_mcs_known x; i_mcs_flags := i_mcs_flags x;
     i_mcs_mcs := i_mcs_mcs x; i_tx_power := i_tx_power x; i_ts := ts;
     i_ts_accuracy := acc; i_ts_unit := unit_; i_ts_flags := fl;
     i_rts_retries := i_rts_retries x; i_data_retries := i_data_retries x; i_length := i_length x |}.
Definition set_rts_retries (x : rt_info) (v : Z) : rt_info :=
  {| i_chan_flags := i_chan_flags x; i_chan_freq := i_chan_freq x; i_chan_center := i_chan_center x;
     i_chan_band := i_chan_band x; i_rate_raw := i_rate_raw x; i_antennas := i_antennas x; i_signal := i_signal x;
     i_flags := i_flags x; i_ext_flags := i_ext_flags x; i_rx_flags := i_rx_flags x;
     i_tx_flags := i_tx_flags x; i_mcs_known := i_mcs_known x; i_mcs_flags := i_mcs_flags x;
     i_mcs_mcs := i_mcs_mcs x; i_tx_power := i_tx_power x; i_ts := i_ts x;
     i_ts_accuracy := i_ts_accuracy x; i_ts_unit := i_ts_unit x; i_ts_flags := i_ts_flags x;
     i_rts_retries := v; i_data_retries := i_data_retries x; i_length := i_length x |}.
Definition set_data_retries (x : rt_info) (v : Z) : rt_info :=
  {| i_chan_flags := i_chan_flags x; i_chan_freq := i_chan_freq x; i_chan_center := i_chan_center x;
     i_chan_band := i_chan_band x; i_rate_raw := i_rate_raw x; i_antennas := i_antennas x; i_signal := i_signal x;
     i_flags := i_flags x; i_ext_flags := i_ext_flags x; i_rx_flags := i_rx_flags x;
     i_tx_flags := i_tx_flags x; i_mcs_known := i_mcs_known x; i_mcs_flags := i_mcs_flags x;
     i_mcs_mcs := i_mcs_mcs x; i_tx_power := i_tx_power x; i_ts := i_ts x;
     i_ts_accuracy := i_ts_accuracy x; i_ts_unit := i_ts_unit x; i_ts_flags := i_ts_flags x;
     i_rts_retries := i_rts_retries x; i_data_retries := v; i_length := i_length x |}.

(* one field of the radiotap namespace, stored at offset o, added to what has been decoded so far;
   seen = an antenna signal (bit 5) occurred earlier in the chain.
   - a later occurrence of a scalar field replaces the earlier value;
   - CHANNEL: frequency and flags are replaced; the channel number is replaced when the frequency
     lies in a known band, and the band bits of all CHANNEL fields accumulate;
   - DBM_ANTSIGNAL: the first one in the chain is the overall signal; each later one adds a
     per-antenna entry numbered by its position, as long as fewer than s_max_antennas are stored;
   - ANTENNA: names the antenna of the most recently stored per-antenna entry (if there is one) *)
Definition s_apply (buf : list byte) (acc : rt_info * bool) (h : Z * Z) : rt_info * bool :=
  let '(x, seen) := acc in
  let '(bit, o) := h in
  if bit =? 3 then
    let freq := le16 buf o in
    let '(center, band) := s_band_center freq in
    (set_chan x (le16 buf (o + 2)) freq (if band =? 0 then i_chan_center x else center)
               (Z.lor (i_chan_band x) band), seen)
  else if bit =? 2 then (set_rate x (znth buf o), seen)
  else if bit =? 5 then
    if negb seen then (set_signal x (znth buf o), true)
    else if zlen (i_antennas x) <? s_max_antennas
         then (set_antennas x (i_antennas x ++ [(zlen (i_antennas x), znth buf o)]), seen)
         else (x, seen)
  else if bit =? 11 then (set_antennas x (set_last_antenna (i_antennas x) (znth buf o)), seen)
  else if bit =? 1 then (set_flags x (znth buf o), seen)
  else if bit =? 14 then (set_rx_flags x (le16 buf o), seen)
  else if bit =? 15 then (set_tx_flags x (le16 buf o), seen)
  else if bit =? 19 then (set_mcs x (znth buf o) (znth buf (o + 1)) (znth buf (o + 2)), seen)
  else if bit =? 10 then (set_tx_power x (znth buf o), seen)
  else if bit =? 22 then
    (set_ts x (le64 buf o) (le16 buf (o + 8)) (znth buf (o + 10)) (znth buf (o + 11)), seen)
  else if bit =? 16 then (set_rts_retries x (znth buf o), seen)
  else if bit =? 17 then (set_data_retries x (znth buf o), seen)
  else (x, seen).

(* what decoding a well-formed header must report *)
Definition s_info_chain (buf : list byte) : rt_info :=
  fst (fold_left (s_apply buf) (s_chain_hits buf) (s_info0 (s_it_len buf), false)).
