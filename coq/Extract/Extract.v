(* Extraction of the executable models and specs for the correspondence driver (ocaml/driver.ml).
   ExtrOcamlBasic only: bool/option/list/prod/unit map to OCaml natives; Z, N, positive, nat, string
   stay Coq data types.  No Extract Constant / Extract Inductive of our own. *)
Require Extraction.
Require ExtrOcamlBasic.
From Coq Require Import ZArith String List.
From LW Require Import Base.Bytes Model.Epoch Model.TagName.
Extraction Language OCaml.
Set Extraction KeepSingleton.
Extraction "model.ml"
  Z.add Z.mul Z.sub Z.div Z.modulo Z.eqb Z.ltb Z.leb Z.of_nat Z.to_nat Z.opp
  le_enc le_dec rd_bytes rd_strict
  epoch get_tag_name.
