(* Extraction of the executable models and specs for the correspondence driver (ocaml/driver.ml).
   ExtrOcamlBasic only: bool/option/list/prod/unit map to OCaml natives; Z, N, positive, nat, string
   stay Coq data types.  No Extract Constant / Extract Inductive of our own. *)
Require Extraction.
Require ExtrOcamlBasic.
From Coq Require Import ZArith String List.
From LW Require Import Gen.Consts Base.Bytes Base.Sweep Model.Epoch Model.TagName Spec.Numbers Model.TagIter Spec.TagSpec Model.Tags Model.CRC Spec.CRCSpec Model.SecStr Spec.SecStrSpec Gen.Tables Model.Radiotap Model.Frame Spec.FrameSpec Model.Macro Spec.CapSpec Model.RadiotapGen Spec.RadiotapSpec Spec.RadiotapChainSpec Spec.RadiotapGenSpec Model.Eapol Spec.EapolSpec Model.Gen Spec.GenSpec Model.Security Model.Mgmt Spec.SecuritySpec Spec.MgmtSpec Model.Alloc Model.AllocScen.
Extraction Language OCaml.
Set Extraction KeepSingleton.
Extraction "model.ml"
  Z.add Z.mul Z.sub Z.div Z.modulo Z.eqb Z.ltb Z.leb Z.of_nat Z.to_nat Z.opp Z.testbit
  le_enc le_dec rd_bytes rd_strict
  epoch get_tag_name spec_tag_name all_mismatches all_dups kinds covered
  tag_init tag_next cur_elem iterate spec_iterate elements reported
  tags_empty quick_add_tag remove_tag check_tag set_ssid set_channel dump_tag step enc spec_step
  c_TAG_SSID c_TAG_DS_PARAMETER
  crc32 calculate_fcs frame_verify crc32_list crc32_spec crc32_tbl fcs_octets
  describe cstr set_names spec_generations spec_group spec_pairwise spec_akm
  sec_table_security_type sec_none_security_type sec_table_group_ciphers sec_none_group_ciphers
  sec_table_pairwise_ciphers sec_none_pairwise_ciphers sec_table_auth_key_suites sec_none_auth_key_suites
  parse_radiotap_info parse_radiotap_rssi rt_init rt_next
  get_wifi_frame parse_data spec_classify spec_data
  check_cap_eval lookup_enum shapes ieee_cap_bits
  create_radiotap s_render s_restrict carriedb s_info s_wf1b s_info_chain s_wf_chainb
  check_wpa_handshake check_wpa_message get_wpa_key_data_length get_wpa_data s_is_handshake s_message s_wpa_data be16
  create_beacon create_probe_resp create_probe_req create_assoc_req create_reassoc_req create_assoc_resp create_reassoc_resp
  create_auth create_deauth create_disassoc create_timing_advert create_action add_action_detail a_length a_dump
  create_atim create_rts create_cts g_length g_dump g_add
  s_beacon s_probe_resp s_probe_req s_assoc_req s_reassoc_req s_assoc_resp s_reassoc_resp s_auth s_deauth s_disassoc
  s_action s_timing_advert s_atim s_rts s_cts
  random_mac g_dump_mem a_dump_mem dump_tag_mem
  parse_beacon parse_probe_resp parse_assoc_resp parse_reassoc_resp parse_probe_req parse_assoc_req parse_reassoc_req
  parse_deauth parse_disassoc handle_msft bss0 get_rsn_info get_wpa_info enumerate_rsn enumerate_wpa
  s_parse_beacon s_parse_probe_resp s_parse_assoc_resp s_parse_reassoc_resp s_parse_probe_req s_parse_assoc_req s_parse_reassoc_req s_parse_reason
  s_rsn_decode s_wpa_decode s_rsn_flags s_wpa_flags
  sk_gen_scenario sk_parse_scenario sk_add_detail sk_free_action sk_run sk_free live_blocks heap0 tobj0 dobj0 h_free.
