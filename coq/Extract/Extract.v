(* Extraction of the executable models and specs for the correspondence driver (ocaml/driver.ml).
   ExtrOcamlBasic only: bool/option/list/prod/unit map to OCaml natives; Z, N, positive, nat, string
   stay Coq data types.  No Extract Constant / Extract Inductive of our own. *)
Require Extraction.
Require ExtrOcamlBasic.
From Coq Require Import ZArith String List.
From LW Require Import Gen.Consts Base.Bytes Base.Sweep Model.Epoch Model.TagName Spec.Numbers Model.TagIter Spec.TagSpec Model.Tags.
Extraction Language OCaml.
Set Extraction KeepSingleton.
Extraction "model.ml"
  Z.add Z.mul Z.sub Z.div Z.modulo Z.eqb Z.ltb Z.leb Z.of_nat Z.to_nat Z.opp
  le_enc le_dec rd_bytes rd_strict
  epoch get_tag_name spec_tag_name all_mismatches all_dups kinds covered
  tag_init tag_next cur_elem iterate spec_iterate elements reported
  tags_empty quick_add_tag remove_tag check_tag set_ssid set_channel dump_tag step enc spec_step
  c_TAG_SSID c_TAG_DS_PARAMETER.
