import random


def hx(bs):
    return bytes(bs).hex() if len(bs) else "-"


def crashed(impl):
    return impl.startswith(("CRASH", "HANG", "MISSING", "unknown-op"))


def crash_sig(impl):
    p = impl.split()
    return "crash:" + (p[1] if len(p) > 1 else p[0])
