"""C02 - frame classification slices radiotap, header, body and FCS exactly."""
import random, struct, zlib
from .common import hx, crashed, crash_sig
from . import rtgen

ID = "C02"
PROP_FILE = "Properties/Properties_C02.v"
RULE = ("frame-control values x frame lengths {0,1,2,3,4,5,23..29,64} without radiotap: all 256 first octets x 7 second "
        "octets (quick) / all 65536 values (thorough), random payloads; crossed with radiotap prefixes (valid single- and "
        "multi-word, vendor namespaces, bad version, it_len 7/8/avail-1/avail/avail+1/255/256) x FCS flag x 3/4/5 remaining "
        "bytes; every case also runs data-frame extraction; non-trivial = distinct input accepted, or refused with at least "
        "two bytes of frame control present")
TRUSTED = ["Coq 8.16.1 kernel incl. vm_compute (65536-value bit-field sweep)", "translator: header struct sizes, frame-control "
           "bit-field masks, flag values (compiled probe), QoS subtype switch (clang AST)",
           "hand-written control flow of Model/Frame.v and Model/Radiotap.v tied by this correspondence",
           "harness/ops_frame.c under ASan/UBSan on exactly sized heap inputs; ocaml/driver.ml + extraction"]
ASSUMPTIONS = ["frame_len < 2^31", "x86-64 little-endian, gcc bit-field layout (checked through the probe's masks)"]

LENS = [0, 1, 2, 3, 4, 5, 23, 24, 25, 26, 27, 28, 29, 64]


def gen_cases(tier, seed):
    rng = random.Random(seed)
    q = tier == "quick"
    cases = []
    fc1s = [0, 0x80, 0x7f, 0xff, 0x01, 0x40, 0x81] if q else range(256)
    for fc0 in range(256):
        for fc1 in fc1s:
            for L in LENS:
                b = bytes([fc0, fc1]) + bytes(rng.randrange(256) for _ in range(max(0, L - 2)))
                cases.append("classify 0 " + hx(b[:L]))
    n_plain = len(cases)
    if not q:
        for fc0 in range(256):
            for fc1 in (0, 0x80):
                for L in range(65):
                    b = bytes([fc0, fc1]) + bytes(rng.randrange(256) for _ in range(max(0, L - 2)))
                    cases.append("classify 0 " + hx(b[:L]))
    # radiotap prefixes
    pre = []
    for fl in (0x00, 0x10, 0x12):
        pre.append(rtgen.rtap_single(0x2, rng, flags=fl))
        pre.append(rtgen.rtap_single(0x2E, rng, flags=fl))
        pre.append(rtgen.rtap_single(rng.getrandbits(23) | 2, rng, flags=fl))
        for _ in range(4 if q else 40):
            pre.append(rtgen.rtap_multi(rng, with_flags=fl))
    pre.append(rtgen.rtap_single(0, rng))
    pre.append(rtgen.rtap_single(0x2, rng, flags=0x10, version=1))
    frames = []
    for st in (0x80, 0x88, 0x08, 0xb4, 0xc4, 0x48, 0xd0, 0x0c, 0xfc):
        for L in (0, 1, 2, 3, 4, 5, 6, 8, 10, 24, 26, 28, 30, 40):
            fr = bytes([st, rng.choice([0, 0x80])]) + bytes(rng.randrange(256) for _ in range(max(0, L - 2)))
            frames.append(fr[:L])
    for p in pre:
        for fr in (frames if not q else frames[::3]):
            cases.append("classify 1 " + hx(p + fr))
    # it_len perturbations around the available bytes
    base = rtgen.rtap_single(0x2, rng, flags=0x10)
    for rem in (0, 1, 2, 3, 4, 5, 6, 28, 32):
        payload = bytes([0x80, 0]) + bytes(rng.randrange(256) for _ in range(40))
        payload = payload[:rem]
        avail = len(base) + len(payload)
        for itl in (0, 7, 8, 9, avail - 1, avail, avail + 1, 255, 256, 65535):
            h = bytearray(base)
            h[2:4] = struct.pack("<H", itl & 0xFFFF)
            cases.append("classify 1 " + hx(bytes(h) + payload))
    # long headers: it_len 250..260 with enough bytes
    for itl in (250, 254, 255, 256, 257, 300):
        h = bytearray(rtgen.rtap_single(0x2, rng, flags=0, extra=itl))
        h[2:4] = struct.pack("<H", itl)
        cases.append("classify 1 " + hx(bytes(h[:itl]) + bytes([0x80, 0] + [1] * 30)))
    nr = 1500 if q else 40000
    for _ in range(nr):
        r = rng.random()
        fr = bytes([rng.randrange(256), rng.choice([0, 0x80, rng.randrange(256)])]) + bytes(rng.randrange(256) for _ in range(rng.choice([0, 2, 8, 22, 24, 26, 30, 100])))
        if r < 0.5:
            cases.append("classify 0 " + hx(fr))
        else:
            fl = rng.choice([0, 0x10, rng.randrange(256)])
            p = rtgen.rtap_single(rng.getrandbits(23) | 2, rng, flags=fl) if rng.random() < 0.6 else rtgen.rtap_multi(rng, with_flags=fl)
            tail = bytes(rng.randrange(256) for _ in range(4)) if fl & 0x10 and rng.random() < 0.8 else b""
            cases.append("classify 1 " + hx(p + fr + tail))
    # the radiotap argument is an int: any non-zero value means "radiotap present"
    for rtv in (2, -1, 255, 65536):
        cases.append("classify %d 000009000200000010b4000102030405060708" % rtv)
        cases.append("classify %d 8000" % rtv + "00" * 22)
    from . import frames as F
    wide = F.wide(rng, q)
    cases += ["classify %d %s" % (rt, hx(buf)) for rt, buf in wide["classify"] + wide["mgmt"][-2:]]
    return cases, {"frames_over_65535_bytes": len(wide["classify"]) + 2, "plain_grid": n_plain, "radiotap_prefixes": len(pre), "random": nr, "total": len(cases)}


def judge(case, impl, model, spec=None):
    if crashed(impl):
        return (crash_sig(impl), "the library crashed or hung on " + case[:200])
    if "INPUT-MODIFIED" in impl or "LEAK" in impl:
        return ("side-effect", impl[-40:])
    if spec is not None and impl != spec:
        kind = "refusal" if ("err" in impl.split()[1]) != ("err" in spec.split()[1]) else "fields"
        return ("classify:" + kind + ":rt" + case.split()[1], "classification gave '%s', the input's slices are '%s'" % (impl[:300], spec[:300]))
    return None


def nontrivial(case, impl):
    return case if (impl.startswith("classify ok") or len(case.split()[2]) >= 4) else None
