"""C03 - generated frames are byte-exact 802.11 encodings of their arguments."""
import random
from .common import hx, crashed, crash_sig

ID = "C03"
PROP_FILE = "Properties/Properties_C03.v"
RULE = ("all 16 generators x argument vectors: MACs all-zero/all-FF/random, SSIDs of 0,1,31,32,33,254,255 and random lengths "
        "(no NUL: the API takes a C string), channels incl. 0/255, 16-bit boundary values of reason/status/algorithm/sequence/"
        "duration/power, all 256 action categories, the three timing-capabilities shapes, 0..6 appended tags or details; the "
        "clock is injected; dumped bytes, reported length and in-memory images are compared; non-trivial = distinct argument vector")
TRUSTED = ["Coq 8.16.1 kernel", "translator: struct sizes/offsets, bit-field masks, enumerators and defaults as compiled (probe)",
           "hand-written create/dump structure of Model/Gen.v tied by this correspondence", "Spec/GenSpec.v: 802.11 layouts, hand-written",
           "harness/ops_gen.c under ASan/UBSan with --wrap=clock_gettime; ocaml/driver.ml + extraction"]
ASSUMPTIONS = ["allocation succeeds (failure is C15)", "little-endian host", "running tag/detail lengths within the one-octet fields"]

KINDS_SSID = ["beacon", "probe_resp", "probe_req", "assoc_req", "reassoc_req"]


def rmac(rng):
    return rng.choice(["000000000000", "ffffffffffff", "%012x" % rng.getrandbits(48)])


def rssid(rng, L=None):
    if L is None:
        L = rng.choice([0, 1, 2, 8, 31, 32, 33, 100, 254, 255])
    return hx([rng.randrange(1, 256) for _ in range(L)])


def extras(rng, n=None):
    n = rng.randrange(0, 7) if n is None else n
    out = []
    for _ in range(n):
        L = rng.choice([0, 1, 2, 8, 32, 255, rng.randrange(256)])
        out.append("A:%d:%s" % (rng.randrange(256), hx([rng.randrange(256) for _ in range(L)])))
    return " ".join(out)


def one(rng, kind, B="B4096"):
    a = "%s %s %s" % (rmac(rng), rmac(rng), rmac(rng))
    v16 = lambda: rng.choice([0, 1, 255, 256, 0x7fff, 0x8000, 0xffff, rng.randrange(65536)])
    if kind in KINDS_SSID:
        p = "%s %d %s - - - -" % (rssid(rng), rng.choice([0, 1, 6, 11, 14, 36, 255, rng.randrange(256)]), rmac(rng) if kind == "reassoc_req" else "-")
        return "gen %s %s %s %s %s" % (kind, a, p, extras(rng), B)
    if kind in ("assoc_resp", "reassoc_resp"):
        return "gen %s %s - %d - - - - - %s %s" % (kind, a, rng.choice([0, 1, 13, 255, rng.randrange(256)]), extras(rng), B)
    if kind == "auth":
        return "gen auth %s %d %d %d - - - - %s %s" % (a, v16(), v16(), v16(), extras(rng), B)
    if kind in ("deauth", "disassoc"):
        return "gen %s %s %d - - - - - - %s %s" % (kind, a, v16(), extras(rng), B)
    if kind == "timing_ad":
        return "gen timing_ad %s %d %s %s %s %s %d %d,%d,%d %s %s" % (
            a, rng.choice([0, 1, 2, 2, 1, 3, 255]), hx([rng.randrange(256) for _ in range(10)]), hx([rng.randrange(256) for _ in range(5)]),
            hx([rng.randrange(256)]), hx([rng.randrange(256) for _ in range(3)]), v16(), rng.randrange(256), rng.randrange(256),
            rng.randrange(256), extras(rng, rng.randrange(0, 3)), B)
    if kind in ("action", "action_noack"):
        ds = []
        tot = 0
        for _ in range(rng.randrange(0, 7)):
            L = rng.choice([0, 1, 3, 40, rng.randrange(0, 100)])
            if tot + L > 255:
                break
            tot += L
            ds.append("D:" + hx([rng.randrange(256) for _ in range(L)]))
        return "gen %s %s %d - - - - - - %s %s" % (kind, a, rng.randrange(256), " ".join(ds), B)
    if kind == "atim":
        return "gen atim %s - - - - - - - B0" % a
    if kind == "rts":
        return "gen rts %s %d - - - - - - B0" % (a, v16())
    return "gen cts %s %d - - - - - - B0" % (a, v16())


ALL = KINDS_SSID + ["assoc_resp", "reassoc_resp", "auth", "deauth", "disassoc", "timing_ad", "action", "action_noack", "atim", "rts", "cts"]


def gen_cases(tier, seed):
    rng = random.Random(seed)
    per = 320 if tier == "quick" else 12000
    cases = []
    for k in ALL:
        for _ in range(per):
            cases.append(" ".join(one(rng, k).split()))
    m = "%012x" % rng.getrandbits(48)
    for cat in range(256):
        cases.append("gen action %s %s %s %d - - - - - - B64" % (m, m, m, cat))
    # every single-octet argument of every generator over all 256 values (a table / mask / clamp on an argument shows only on the
    # values it folds together): timing capabilities with its three power octets, the channel of every generator that takes one
    for v in range(256):
        w = (v * 7 + 3) % 256
        cases.append("gen timing_ad %s %s %s %d %s %s %s %s %d %d,%d,%d - B4096" % (
            m, m, m, v, hx([rng.randrange(256) for _ in range(10)]), hx([rng.randrange(256) for _ in range(5)]),
            hx([rng.randrange(256)]), hx([rng.randrange(256) for _ in range(3)]), 513, w, (w * 3) % 256, 255 - v))
        for k in KINDS_SSID:
            cases.append(" ".join(("gen %s %s %s %s %s %d %s - - - - - B4096" % (k, m, m, m, "6e6574", v, m if k == "reassoc_req" else "-")).split()))
        for k in ("assoc_resp", "reassoc_resp"):
            cases.append("gen %s %s %s %s - %d - - - - - - B4096" % (k, m, m, m, v))
    # objects edited through their own setters after creation (the SSID moves behind the channel element on the first set, a second
    # set then has to find it in a non-first position; repeated elements added in between), then dumped: S:<ssid> C:<channel>
    for k in ("beacon", "probe_resp", "assoc_resp", "reassoc_resp"):
        for _ in range(60 if tier == "quick" else 3000):
            base = " ".join(one(rng, k).split()).split()
            base = [x for x in base if not x.startswith("A:")]
            ops = []
            for _ in range(rng.randrange(1, 6)):
                r = rng.random()
                if r < 0.4 and k in ("beacon", "probe_resp"):
                    ops.append("S:" + hx([rng.randrange(1, 256) for _ in range(rng.choice([0, 1, 5, 32]))]))
                elif r < 0.8:
                    ops.append("C:%d" % rng.randrange(256))
                else:
                    ops.append("A:%d:%s" % (rng.choice([0, 3, 7, 221]), hx([rng.randrange(256) for _ in range(rng.choice([0, 1, 4]))])))
            cases.append(" ".join(base[:-1] + ops + [base[-1]]))
    for L in range(0, 256, 1 if tier != "quick" else 5):
        cases.append("gen beacon %s %s %s %s 1 - - - - - B400" % (m, m, m, rssid(rng, L)))
    if tier != "quick":
        for v in range(0, 65536, 1):
            cases.append("gen deauth %s %s %s %d - - - - - - B26" % (m, m, m, v))
    return cases, {"per_generator": per, "generators": len(ALL), "total": len(cases)}


def judge(case, impl, model, spec=None):
    if crashed(impl):
        return (crash_sig(impl), "the library crashed on " + case[:200])
    if any(x in impl for x in ("TOUCHED", "BEYOND", "LEN-MISMATCH", "SWEEP-BAD", "LEAK")):
        return ("dump-contract:" + case.split()[1], impl[:200])
    if spec is not None and impl != spec:
        return ("bytes:" + case.split()[1], "generator wrote '%s', the encoding of its arguments is '%s'" % (impl[:400], spec[:400]))
    return None


def nontrivial(case, impl):
    return case
