"""C14 - every object lifecycle releases exactly what it allocated."""
import random, re
from .common import hx, crashed, crash_sig
from . import frames as F, c04, c03

ID = "C14"
PROP_FILE = "Properties/Properties_C14.v"
RULE = ("create/edit/free histories of the eight tag-carrying generator objects and of action objects (0..12 edits drawn from add / "
        "remove / set-SSID / set-channel / check / add-detail, incl. empty bodies and removal down to the empty list); classify -> "
        "all nine management parsers, data and EAPOL extraction -> release of every object, for generator-layout, crafted, truncated "
        "and mutated frames with and without radiotap; release routines on zero-initialised objects; after every history the "
        "allocation ledger kept by the --wrap shims must be empty and the allocation trace (sizes, order, which block is released) "
        "must equal the skeleton's; non-trivial = distinct history with at least one allocation")
TRUSTED = ["Coq 8.16.1 kernel", "hand-written allocation skeletons Model/Alloc.v, Model/AllocScen.v (branches and sizes from the functional "
           "models) tied by this correspondence", "the allocator itself and AddressSanitizer's double-free / use-after-free detection",
           "harness/ops_life.c with --wrap=malloc,realloc,calloc,free ledger; ocaml/driver.ml + extraction"]
ASSUMPTIONS = ["parsed deauthentication/disassociation objects have no release routine (F33): the harness frees tags.parameters itself",
               "allocation succeeds in this property (failure schedules are C15)"]


def rand_ops(rng, kind, n):
    ops = []
    for _ in range(n):
        r = rng.random()
        num = rng.choice([0, 3, 5, 48, 221, rng.randrange(256)])
        if r < 0.4:
            L = rng.choice([0, 1, 2, 8, 32, 255])
            ops.append("A:%d:%s" % (num, hx([rng.randrange(256) for _ in range(L)])))
        elif r < 0.7:
            ops.append("R:%d" % num)
        elif r < 0.8:
            ops.append("K:%d" % num)
        elif r < 0.9 and kind in (0, 1):
            ops.append("S:" + hx([rng.randrange(1, 256) for _ in range(rng.choice([0, 1, 8, 32]))]))
        elif kind in (0, 1, 5, 6):
            ops.append("C:%d" % rng.randrange(256))
        else:
            ops.append("R:%d" % num)
    return ops


def gen_line(rng, fail_at=-1, fail_from=-1, kind=None, nops=None):
    kind = rng.randrange(8) if kind is None else kind
    ssid = hx([rng.randrange(1, 256) for _ in range(rng.choice([0, 1, 8, 32]))])
    el = hx([rng.choice([0, 1, 2, 3])] + [rng.randrange(256) for _ in range(16)])
    ops = rand_ops(rng, kind, rng.randrange(0, 13) if nops is None else nops)
    return "allocgen %d %d %d %s %d %s %s" % (fail_at, fail_from, kind, ssid, rng.randrange(256), el, " ".join(ops))


def act_line(rng, fail_at=-1, fail_from=-1):
    ds = []
    tot = 0
    for _ in range(rng.randrange(0, 8)):
        L = rng.choice([0, 1, 3, 40])
        if rng.random() < 0.12:      # appends at and beyond the one-octet limit, incl. multiples of 256 (refused; nothing may be kept)
            L = rng.choice([255 - tot, 256 - tot, 255, 256, 257, 511, 512, 768, 1024, 65536, 65536 + 256 - tot])
        if tot + L > 255:
            if rng.random() < 0.3:
                break
        else:
            tot += L
        ds.append("D:" + hx([rng.randrange(256) for _ in range(L)]))
    return "allocact %d %d %s" % (fail_at, fail_from, " ".join(ds))


def parse_frames(rng, n):
    out = []
    for _ in range(n):
        r = rng.random()
        if r < 0.4:
            fr = c04.generated(rng, rng.choice(F.PARSABLE))
        elif r < 0.7:
            fr = F.mgmt(rng, rng.choice(F.PARSABLE), F.elements(rng), ordered=rng.random() < 0.2)
        elif r < 0.85:     # data / EAPOL
            qos = rng.randrange(2)
            hdr = bytes([0x88 if qos else 0x08, 0]) + bytes(rng.randrange(256) for _ in range(22 + 2 * qos))
            body = bytes([0xaa, 0xaa, 3, 0, 0, 0, 0x88, 0x8e]) + bytes(rng.randrange(256) for _ in range(97)) + \
                bytes([0, rng.choice([0, 5, 40])]) + bytes(rng.randrange(256) for _ in range(rng.choice([0, 3, 40, 60])))
            fr = hdr + (body if rng.random() < 0.8 else body[:rng.randrange(0, len(body))])
        else:
            fr = bytes(rng.randrange(256) for _ in range(rng.randrange(0, 60)))
        if rng.random() < 0.2 and len(fr) > 0:
            fr = fr[:rng.randrange(0, len(fr) + 1)]
        rt, buf = F.wrap(rng, fr, rng.randrange(3))
        out.append((rt, buf))
    return out


def gen_cases(tier, seed):
    rng = random.Random(seed)
    q = tier == "quick"
    cases = ["freezero"]
    for _ in range(1500 if q else 60000):
        cases.append(gen_line(rng))
    # a generator object whose tagged parameters reach exactly 65536 bytes (beacon: empty SSID + DS = 5 bytes, 254 elements of
    # 257 bytes, one of 253), then one more add, a set and the release
    big = ["A:221:%s" % hx([rng.randrange(256) for _ in range(255)]) for _ in range(254)] + ["A:221:%s" % hx([rng.randrange(256) for _ in range(251)])]
    cases.append("allocgen -1 -1 0 - 6 00 %s A:1:02 C:3 K:221" % " ".join(big))
    cases.append("allocgen -1 -1 1 - 6 00 %s A:1:0204 A:9:01" % " ".join(big))
    for _ in range(300 if q else 8000):
        cases.append(act_line(rng))
    for rt, buf in parse_frames(rng, 1500 if q else 60000):
        cases.append("allocparse -1 -1 %d %s" % (rt, hx(buf)))
    return cases, {"total": len(cases)}


def judge(case, impl, model, spec=None):
    if crashed(impl):
        return (crash_sig(impl), "crash / sanitizer report (double free, use after free, overflow?) on " + case[:200])
    m = re.search(r"live=(\d+)", impl)
    if m and int(m.group(1)) != 0:
        return ("leak:" + case.split()[0], "%s block(s) still allocated after every release routine ran: %s" % (m.group(1), impl[-300:]))
    if "LEDGER-ERR" in impl:
        return ("bad-free:" + case.split()[0], "free/realloc of a pointer the library never obtained: " + impl[-300:])
    return None


def nontrivial(case, impl):
    return case if "m(" in impl else None


def extra(ctx):
    """F33: is there a release routine for the parsed deauthentication / disassociation objects?"""
    import glob, os
    from lib import vcore as V
    viol = []
    hdrs = ""
    for p in glob.glob(os.path.join(V.REPO, "src", "libwifi", "**", "*.h"), recursive=True):
        hdrs += open(p, errors="replace").read()
    for nm in ("parsed_deauth", "parsed_disassoc"):
        if not re.search(r"\bvoid\s+libwifi_free_\w*\s*\(\s*struct\s+libwifi_%s\s*\*" % nm, hdrs):
            viol.append(("no-release-routine:" + nm, "struct libwifi_%s owns tags.parameters but no libwifi_free_* routine takes it" % nm,
                         {"case": "api-scan " + nm}))
    return viol
