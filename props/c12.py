"""C12 - EAPOL-Key frames are recognised, classified and extracted exactly."""
import random
from .common import hx, crashed, crash_sig

ID = "C12"
PROP_FILE = "Properties/Properties_C12.v"
RULE = ("QoS and non-QoS data frames x every 16-bit key-information value (all 65536 thorough; stride 7 plus the four "
        "handshake values and their byte-swaps in quick) x declared key-data length {0,1,2,16,100,1023,1024,1025,2048,65535} x "
        "available {0,1,2,15,16,17,100,1023,1024,1025,1100} x random field contents; LLC OUI/EtherType perturbations, every "
        "truncation length 0..12 and 95..112 of the body, non-data frames with EAPOL-looking bodies; non-trivial = distinct "
        "frame that classifies")
TRUSTED = ["Coq 8.16.1 kernel", "translator: struct offsets (probe), key-information switch and key-data cap (clang AST), enumerators",
           "hand-written control flow of Model/Eapol.v tied by this correspondence", "Spec/EapolSpec.v: standard offsets, hand-written",
           "harness/ops_frame.c under ASan/UBSan; ocaml/driver.ml + extraction"]
ASSUMPTIONS = ["little-endian host (ntohs/be64toh swap)", "the routines are applied to frames produced by libwifi_get_wifi_frame"]


def frame(rng, qos, ki, declared, avail, llc=None, trunc=None, fc0=None):
    f0 = fc0 if fc0 is not None else (0x88 if qos else 0x08)
    hdr = [f0, 0] + [rng.randrange(256) for _ in range(22 + (2 if (f0 & 0x8c) == 0x88 else 0))]
    l = llc or [0xaa, 0xaa, 3, 0, 0, 0, 0x88, 0x8e]
    desc = [rng.randrange(256), rng.randrange(256), rng.randrange(256), rng.randrange(256), rng.randrange(256), ki >> 8, ki & 255] + \
           [rng.randrange(256) for _ in range(2 + 8 + 32 + 16 + 8 + 8 + 16)] + [declared >> 8, declared & 255]
    body = l + desc + [rng.randrange(256) for _ in range(avail)]
    if trunc is not None:
        body = body[:trunc]
    return "eapol 0 " + hx(hdr + body)


def gen_cases(tier, seed):
    rng = random.Random(seed)
    q = tier == "quick"
    cases = []
    kis = list(range(0, 65536, 7 if q else 1)) + [0x008a, 0x010a, 0x13ca, 0x030a, 0x8a00, 0x0a01, 0xca13, 0x0a03, 0x008b, 0x0089]
    for ki in kis:
        cases.append(frame(rng, ki & 1, ki, 0, 0))
    for declared in (0, 1, 2, 16, 100, 1023, 1024, 1025, 2048, 65535):
        for avail in (0, 1, 2, 15, 16, 17, 100, 1023, 1024, 1025, 1100):
            for qos in (0, 1):
                cases.append(frame(rng, qos, rng.choice([0x008a, 0x13ca]), declared, avail))
    for tr in list(range(0, 13)) + list(range(95, 113)):
        for qos in (0, 1):
            cases.append(frame(rng, qos, 0x010a, 4, 8, trunc=tr))
    for llc in ([0xaa, 0xaa, 3, 0, 0, 1, 0x88, 0x8e], [0xaa, 0xaa, 3, 0, 0, 0, 0x88, 0x8f], [0xaa, 0xaa, 3, 0, 0, 0, 0x8e, 0x88],
                [0, 0, 0, 1, 0, 0, 0x88, 0x8e], [0xaa, 0xaa, 3, 0, 1, 0, 0x88, 0x8e], [1, 2, 3, 0, 0, 0, 0x88, 0x8e],
                [0xaa, 0xaa, 3, 0, 0, 0, 0x08, 0x00], [0xaa, 0xaa, 3, 0, 0, 0, 0x88, 0x0e],
                [0x42, 0x42, 3, 0, 0, 0, 0x88, 0x8e], [0xaa, 0xaa, 0x13, 0, 0, 0, 0x88, 0x8e], [0xaa, 0xab, 3, 0, 0, 0, 0x88, 0x8e],
                [0xab, 0xaa, 3, 0, 0, 0, 0x88, 0x8e], [0, 0, 0, 0, 0, 0, 0x88, 0x8e]):
        for qos in (0, 1):
            cases.append(frame(rng, qos, 0x13ca, 2, 2, llc=llc))
    # every octet of the LLC/SNAP header perturbed on its own (one bit, the top bit, zeroed, all ones, every value in thorough)
    good = [0xaa, 0xaa, 3, 0, 0, 0, 0x88, 0x8e]
    for pos in range(8):
        vals = {good[pos] ^ 1, good[pos] ^ 0x80, good[pos] ^ 0x10, 0, 0xff, (good[pos] + 1) & 255} if q else set(range(256))
        for v in sorted(vals - {good[pos]}):
            l = list(good); l[pos] = v
            for qos in (0, 1):
                cases.append(frame(rng, qos, 0x13ca, 2, 2, llc=l))
    for fc0 in (0x80, 0x40, 0xb4, 0x48, 0xc8, 0xd8, 0x0c):     # non-data, null data, reserved QoS subtype
        cases.append(frame(rng, 0, 0x008a, 3, 3, fc0=fc0))
    for _ in range(1000 if q else 30000):
        cases.append(frame(rng, rng.randrange(2), rng.choice([0x008a, 0x010a, 0x13ca, 0x030a, rng.randrange(65536)]),
                           rng.choice([0, rng.randrange(0, 2100)]), rng.choice([0, rng.randrange(0, 1200)]),
                           trunc=rng.choice([None, None, None, rng.randrange(0, 130)])))
    # the same frames as captured: behind a radiotap header, and behind one that announces an FCS (the classifier removes it and
    # sets a flag; the EAPOL routines must work on what the classifier kept)
    from . import frames as F
    n_wrapped = 0
    for declared in (0, 1, 16, 100, 1024, 1025):
        for avail in (0, 3, 4, 5, 16, 100, 1024, 1030):
            for qos in (0, 1):
                fr = bytes.fromhex(frame(rng, qos, rng.choice([0x008a, 0x13ca]), declared, avail).split()[2])
                for mode in (1, 2):
                    rt, buf = F.wrap(rng, fr, mode)
                    cases.append("eapol %d %s" % (rt, hx(buf))); n_wrapped += 1
    return cases, {"key_info_values": len(kis), "radiotap_wrapped": n_wrapped, "total": len(cases)}


def judge(case, impl, model, spec=None):
    if crashed(impl):
        return (crash_sig(impl), "the library crashed or hung on " + case[:200])
    if "LEAK" in impl or "KEYDATA-PTR" in impl:
        return ("side-effect", impl[-40:])
    if spec is not None and impl != spec:
        i, s = impl.split(), spec.split()
        kind = "cls"
        for k in range(1, min(len(i), len(s))):
            if i[k] != s[k]:
                kind = i[k].split("=")[0]
                break
        return ("eapol:" + kind, "library reports '%s', the frame says '%s'" % (impl[:300], spec[:300]))
    return None


def nontrivial(case, impl):
    return case if not impl.startswith("eapol cls=err") else None
