"""C05 - tagged-parameter lists stay well-formed under any edit history."""
import random
from .common import hx, crashed, crash_sig
from lib import vcore as V

ID = "C05"
PROP_FILE = "Properties/Properties_C05.v"
RULE = ("operation sequences over {add(num in {0,3,5}, body length 0..2), remove(num), set-SSID(length 0..2), "
        "set-channel, check(num)} explored breadth-first to depth 5 (quick) / 7 (thorough) with de-duplication on the "
        "model's state, every history run on the four objects that have setters; plus long random histories "
        "(50-120 ops with bodies up to 63 bytes; one in ten 200-400 ops with bodies up to 255 bytes; all tag numbers); after every operation the return value, recorded length and "
        "stored bytes are compared; non-trivial = distinct history whose final list is non-empty")
TRUSTED = ["Coq 8.16.1 kernel", "hand-written models Model/Tags.v, Model/TagIter.v tied by this correspondence only",
           "harness/ops_tags.c under ASan/UBSan (heap blocks of the list are exactly sized by the library itself)",
           "ocaml/driver.ml + extraction (ExtrOcamlBasic only)", "allocation always succeeds here (failure is C15)"]
ASSUMPTIONS = ["SSIDs passed to the setters contain no NUL byte (the C API takes a C string)",
               "body lengths <= 255 and tag numbers 0..255 (the one-octet fields of the element header)"]

NUMS = (0, 3, 5)


def alphabet(kind):
    ops = []
    for n in NUMS:
        for L in (0, 1, 2):
            ops.append("A:%d:%s" % (n, hx([0x61 + n] * L)))
        ops.append("R:%d" % n)
        ops.append("K:%d" % n)
    ops.append("C:6")
    if kind in (0, 1):
        for L in (0, 1, 2):
            ops.append("S:" + hx([0x7a] * L))
    return ops


def final_state(model_line):
    m = model_line.split(" ## ")[0].split()
    return m[-1] if len(m) > 1 else ""


def bfs(kind, depth, drv, cap):
    """histories up to `depth`, extended only from one representative per distinct model state"""
    ops = alphabet(kind)
    frontier = [[]]
    allh = []
    seen = {""}
    for d in range(depth):
        cand = [h + [o] for h in frontier for o in ops]
        if len(cand) > cap:
            cand = cand[:cap]
        lines = ["tagops %d %s" % (kind, " ".join(h)) for h in cand]
        outs = V.run_driver(drv, lines) if drv else [""] * len(lines)
        allh += lines
        nxt = []
        for h, o in zip(cand, outs):
            st = final_state(o)
            if st not in seen:
                seen.add(st)
                nxt.append(h)
        frontier = nxt
    return allh, len(seen)


def gen_cases(tier, seed):
    rng = random.Random(seed)
    drv = V.os.path.join(V.BUILD, "extract", "driver")
    if not V.os.path.exists(drv):
        drv = None
    depth = 5 if tier == "quick" else 7
    cap = 40000 if tier == "quick" else 60000
    cases = []
    states = 0
    for kind in (0, 1, 2, 3):
        h, ns = bfs(kind, depth if kind == 0 else depth - 1, drv, cap)
        cases += h
        states += ns
    n_bfs = len(cases)
    nr = 300 if tier == "quick" else 6000
    for _ in range(nr):
        kind = rng.randrange(4)
        ops = []
        pool = [rng.randrange(256) for _ in range(rng.randrange(2, 6))]
        big = rng.random() < 0.1          # a few histories with hundreds of operations and long bodies
        for _ in range(rng.randrange(200, 400) if big else rng.randrange(50, 120)):
            k = rng.random()
            n = rng.choice(pool)
            if k < (0.45 if big else 0.38):
                L = rng.choice([0, 1, 2, 3, 32, 255, rng.randrange(256)]) if big else rng.choice([0, 1, 2, 3, 8, 32, rng.randrange(64)])
                if rng.random() < 0.7 and L == 0:
                    L = 1
                if rng.random() < 0.15:
                    # the caller's data lies INSIDE the list being extended (an element duplicated or moved to the end): pointer into the block
                    ops.append("D:%d:%d" % (n, rng.randrange(5)))
                else:
                    ops.append("A:%d:%s" % (n, hx([rng.randrange(256) for _ in range(L)])))
            elif k < 0.7:
                ops.append("R:%d" % n)
            elif k < 0.8:
                ops.append("K:%d" % n)
            elif k < 0.9 and kind in (0, 1):
                ops.append("S:" + hx([rng.randrange(1, 256) for _ in range(rng.choice([0, 1, 8, 32, 33, 200]))]))
            else:
                ops.append("C:%d" % rng.randrange(256))
        cases.append("tagops %d %s" % (kind, " ".join(ops)))
    # a history that carries the list across 65535 / 65536 / 65537 bytes (a recorded length that is narrower than size_t wraps
    # there): 256 elements of 254 body bytes are exactly 65536 bytes, then further adds, counts, a set and removals
    big = ["A:221:%s" % hx([rng.randrange(256) for _ in range(254)]) for _ in range(255)]
    cases.append("tagops 0 %s A:7:%s A:9:0102 K:221 K:9 C:11 R:7 K:7 R:9" % (" ".join(big), hx([rng.randrange(256) for _ in range(254)])))
    # duplicate / move-to-end histories: every element of a short list re-added from a pointer into the list itself
    for kind in range(4):
        cases.append("tagops %d A:0:616263 A:3:06 A:221:%s D:114:0 D:7:2 D:0:1 R:0 D:9:0 K:0 D:5:9 R:221 D:3:3" % (kind, hx([rng.randrange(256) for _ in range(40)])))
    cases.append("tagops 3 %s A:7:%s A:9:01 R:221 K:221" % (" ".join(big), hx([rng.randrange(256) for _ in range(253)])))
    return cases, {"bfs_histories": n_bfs, "bfs_depth": depth, "distinct_model_states": states, "random_histories": nr,
                   "total": len(cases)}


def wellformed(hexbytes, length):
    b = bytes.fromhex(hexbytes) if hexbytes != "-" else b""
    if len(b) != length:
        return False
    i = 0
    while i < len(b):
        if i + 2 > len(b) or i + 2 + b[i + 1] > len(b):
            return False
        i += 2 + b[i + 1]
    return True


def judge(case, impl, model, spec=None):
    if crashed(impl):
        return (crash_sig(impl), "the library crashed or hung on " + case[:300])
    if "LEAK" in impl:
        return ("leak", "blocks still allocated after the list was released: " + impl[-40:])
    steps = impl.split()[1:]
    ops = case.split()[2:]
    sp = spec.split()[1:] if spec else []
    for i, st in enumerate(steps):
        if i >= len(ops):
            break
        r, ln, by = st.split(",")
        if not wellformed(by, int(ln)):
            return ("malformed-after:" + ops[i][0], "after op %d (%s) the stored bytes are not a well-formed element "
                    "sequence of the recorded length: %s" % (i, ops[i][:40], st[:120]))
        if i < len(sp) and sp[i] != "open" and sp[i] != st:
            return ("wrong-result:" + ops[i][0], "after op %d (%s): library has %s, reference list gives %s" %
                    (i, ops[i][:40], st[:120], sp[i][:120]))
    return None


def nontrivial(case, impl):
    return case if not impl.endswith(",-") else None
