"""C16 - no shared mutable state: concurrent use equals sequential use."""
import os, subprocess, glob
from lib import vcore as V

ID = "C16"
PROP_FILE = "Properties/Properties_C16.v"
RULE = ("all schedules by construction: the section table and symbol table of every object file of the library, rebuilt with "
        "the shipping flags from the current tree, are scanned for writable, thread-local and COMMON data and the sources for "
        "function-local static variables (translator -> Gen/Globals.v, theorem c16_no_writable_state); additionally 8 and 16 "
        "threads run a mixed generate/parse workload and each thread's digest is compared with the sequential run, then fresh processes in which "
        "the barrier-started threads make the very first library calls of the process (quick: "
        "plain build; thorough, or whenever the theorem no longer checks: under ThreadSanitizer); non-trivial = one thread run")
TRUSTED = ["Coq 8.16.1 kernel", "translator: gcc -O2 -fPIC objects + readelf -S/-s (writable = flags W or T, excluding .data.rel.ro), regex scan "
           "for function-local statics", "Model/Threads.v: interleaving semantics whose only shared component is the library's writable state",
           "thread-safety of libc (malloc, getrandom, clock_gettime, snprintf); ThreadSanitizer (clang 14)"]
ASSUMPTIONS = ["each thread works on its own objects and buffers", "data races below the model's granularity are excluded only by the "
               "absence of shared objects and observed by TSan"]


def gen_cases(tier, seed):
    return [], {"note": "no per-case correspondence: tie #1 (readelf) and the thread workload"}


def judge(case, impl, model, spec=None):
    return None


def nontrivial(case, impl):
    return None


def build(tsan):
    out = os.path.join(V.BUILD, "threads_tsan" if tsan else "threads_plain")
    srcs = [p for p in V.repo_sources() if p.endswith(".c")]
    key = V.hash_files(V.repo_sources() + [os.path.join(V.VERIF, "harness", "threads", "threads.c")], extra=str(tsan))
    stamp = out + ".stamp"
    if os.path.exists(out) and os.path.exists(stamp) and open(stamp).read() == key:
        return out, ""
    cc = ["clang", "-std=gnu17", "-O1", "-g", "-fsanitize=thread"] if tsan else ["gcc", "-std=gnu17", "-O2"]
    rc, log = V.sh(cc + ["-pthread", "-w", "-Wl,--wrap=getrandom", "-I" + os.path.join(V.REPO, "src"), '-DLIBWIFI_VERSION="v"',
                         os.path.join(V.VERIF, "harness", "threads", "threads.c")] + srcs + ["-o", out], timeout=600)
    if rc != 0:
        return None, log
    open(stamp, "w").write(key)
    return out, ""


def extra(ctx):
    viol = []
    st = ctx["stats"]
    proof_broken = any(u.get("what") in ("theorem", "translator") for u in ctx["unproved"])
    use_tsan = ctx["tier"] == "thorough" or proof_broken
    runs = []
    for tsan in ([False, True] if use_tsan else [False]):
        exe, log = build(tsan)
        if exe is None:
            ctx["unproved"].append({"what": "thread-workload-build", "detail": log[-1000:]})
            continue
        thorough = ctx["tier"] == "thorough"
        for n in ((8, 16, 32, 64) if thorough else (8, 16)):
            for rep in range(3 if not tsan else 2):
                iters = (20000 if not tsan else 4000) if thorough else 1500
                rc, out = V.sh([exe, str(n), str(iters)], timeout=1800, env=dict(os.environ, TSAN_OPTIONS="halt_on_error=0 exitcode=66"))
                runs.append({"threads": n, "tsan": tsan, "rc": rc, "out": out[-300:]})
                if rc == 0 and "mismatches=0" in out and "WARNING: ThreadSanitizer" not in out:
                    # first use: fresh processes in which the threads make the library's very first calls together (3 iterations each),
                    # the sequential reference computed afterwards - lazily initialised tables and one-time flags are written here
                    for k in range((40 if not tsan else 6) * (4 if thorough else 1)):
                        rc, out = V.sh([exe, str(n), "3", "1"], timeout=600, env=dict(os.environ, TSAN_OPTIONS="halt_on_error=0 exitcode=66"))
                        if rc != 0 or "mismatches=0" not in out or "WARNING: ThreadSanitizer" in out:
                            break
                    runs.append({"threads": n, "tsan": tsan, "rc": rc, "out": out[-300:], "first_use_processes": k + 1})
                if "WARNING: ThreadSanitizer" in out:
                    viol.append(("data-race", "ThreadSanitizer reports a data race with %d threads" % n,
                                 {"case": "threads %d tsan" % n, "impl": out[-1500:]}))
                elif rc != 0 or "mismatches=0" not in out:
                    viol.append(("thread-digest", "a thread's result differs from the sequential run (%d threads)" % n,
                                 {"case": "threads %d%s" % (n, " tsan" if tsan else ""), "impl": out[-800:]}))
    st["evaluations"] = sum(r["threads"] for r in runs)
    st["nontrivial_keys"] = ["%d-%s-%d" % (r["threads"], r["tsan"], i) for i, r in enumerate(runs) for _ in range(1)] + \
                            ["thread-%d" % i for i in range(max([r["threads"] for r in runs] + [0]))]
    st["samples"] = [{"case": "threads %d tsan=%s" % (r["threads"], r["tsan"]), "impl": r["out"].strip().splitlines()[-1] if r["out"].strip() else ""} for r in runs[:4]]
    st["validated"] = sum(1 for r in runs if r["rc"] == 0)
    st["thread_runs"] = len(runs)
    return viol
