"""C11 - CRC-32 and FCS verification are exact."""
import random, zlib, struct
from .common import hx, crashed, crash_sig

ID = "C11"
PROP_FILE = "Properties/Properties_C11.v"
RULE = ("crc: all strings of length 0..1 and a grid (quick) / all (thorough) of length 2, the single-bit basis of lengths "
        "up to 2304, random strings up to 65535 bytes; verify: valid frames (FCS from Python's zlib, a third independent "
        "implementation), every single-bit flip of short valid frames, burst corruptions, every length 0..8; the spec side "
        "is the extracted IEEE 802.3 register (<= 600 bytes) or the extracted table-driven CRC derived from G (longer); "
        "non-trivial = distinct message/frame")
TRUSTED = ["Coq 8.16.1 kernel incl. vm_compute", "translator: CRC constants (init, polynomial, loop count, final xor) from the clang AST of libwifi_crc32",
           "hand-written loop structure of Model/CRC.v tied by this correspondence", "Spec/CRCSpec.v transcribes IEEE 802.3 clause 3.2.9",
           "harness/ops_misc.c under ASan/UBSan, exactly sized heap blocks; ocaml/driver.ml + extraction (ExtrOcamlBasic only)"]
ASSUMPTIONS = ["message length < 2^31 (the C routine takes an int)", "little-endian host: BYTESWAP32 is the identity"]


def fcs(b):
    return struct.pack("<I", zlib.crc32(bytes(b)) & 0xFFFFFFFF)


def gen_cases(tier, seed):
    rng = random.Random(seed)
    q = tier == "quick"
    msgs = [[]] + [[a] for a in range(256)]
    if q:
        msgs += [[a, b] for a in range(0, 256, 17) for b in range(256) if (a + b) % 3 == 0]
    else:
        msgs += [[a, b] for a in range(256) for b in range(256)]
    n_small = len(msgs)
    lens = [1, 2, 3, 4, 5, 8, 16, 64, 255, 256, 1500, 2304] if q else list(range(1, 65)) + [255, 256, 1500, 2303, 2304]
    n_basis = 0
    for L in lens:
        bits = range(L * 8)
        if q and L > 64:
            bits = sorted(set(rng.sample(range(L * 8), 48) + [0, 7, 8, L * 8 - 1, L * 8 - 8]))
        elif not q and L > 64:
            bits = sorted(set(rng.sample(range(L * 8), 1500) + [0, 7, 8, L * 8 - 1, L * 8 - 8]))
        for k in bits:
            m = [0] * L
            m[k // 8] = 1 << (k % 8)
            msgs.append(m)
            n_basis += 1
    nr = 60 if q else 1500
    for i in range(nr):
        L = rng.choice([rng.randrange(0, 40), rng.randrange(0, 600), rng.randrange(600, 2400)] + ([rng.randrange(2400, 65536)] if i % (6 if q else 20) == 0 else []))
        msgs.append([rng.randrange(256) for _ in range(L)])
    cases = ["crc " + hx(m) for m in msgs]
    # verification
    frames = []
    for L in range(0, 9):
        frames.append([rng.randrange(256) for _ in range(L)])
        frames.append([0] * L)
        frames.append([255] * L)
    nv = 120 if q else 2000
    n_flip = 0
    for i in range(nv):
        body = [rng.randrange(256) for _ in range(rng.choice([0, 1, 2, 3, 10, 24, 60, rng.randrange(0, 300)]))]
        fr = body + list(fcs(body))
        frames.append(fr)
        frames.append(body + list(fcs(body + [0])))          # FCS of something else
        frames.append(fr + [0])                               # valid frame followed by one byte
        if len(fr) <= (12 if q else 40) or i % 10 == 0:
            for k in (range(len(fr) * 8) if len(fr) <= 40 else rng.sample(range(len(fr) * 8), 64)):
                g = list(fr)
                g[k // 8] ^= 1 << (k % 8)
                frames.append(g)
                n_flip += 1
        for _ in range(3):                                    # bursts of up to 32 bits
            g = list(fr)
            start = rng.randrange(len(fr) * 8)
            width = rng.randrange(1, 33)
            pat = rng.getrandbits(width) | 1 | (1 << (width - 1))
            for j in range(width):
                k = start + j
                if k < len(fr) * 8 and (pat >> j) & 1:
                    g[k // 8] ^= 1 << (k % 8)
            frames.append(g)
    # frames longer than 65535 bytes: valid ones, a flipped bit near the end, and a corrupted frame whose first (length mod 65536)
    # bytes happen to be a self-consistent short frame (a length kept in 16 bits would accept it)
    n_wide = 0
    for L in ([65536, 65537, 65536 + 60] if q else [65536, 65537, 65540, 65536 + 60, 65536 + 300, 131072, 131072 + 24, 200000]):
        body = [rng.randrange(256) for _ in range(L)]
        fr = body + list(fcs(body))
        frames.append(fr)
        g = list(fr); g[-6] ^= 0x10; frames.append(g)
        k = (L + 4) % 65536
        if k >= 8:
            g = list(fr); g[k - 4:k] = list(fcs(g[:k - 4])); frames.append(g)
        n_wide += 3
        msgs_wide = body
        cases.append("crc " + hx(msgs_wide))
    cases += ["verify " + hx(f) for f in frames]
    # a receive buffer that is re-used: equally long frames verified one after the other in the SAME block - a valid frame, the
    # same frame with one bit flipped in place, the valid one again, another valid frame of that length, a corrupted FCS
    n_seq = 0
    for _ in range(60 if q else 2000):
        L = rng.choice([1, 2, 10, 24, 60, 300])
        body = bytes(rng.randrange(256) for _ in range(L))
        good = body + fcs(body)
        flip = bytearray(good); k = rng.randrange(len(good) * 8); flip[k // 8] ^= 1 << (k % 8)
        other_body = bytes(rng.randrange(256) for _ in range(L))
        other = other_body + fcs(other_body)
        badfcs = bytearray(other); badfcs[-1 - rng.randrange(4)] ^= 1 << rng.randrange(8)
        seq = [good, bytes(flip), good, other, bytes(badfcs), good]
        if rng.random() < 0.5:
            seq = [bytes(flip)] + seq
        cases.append("verifyseq " + " ".join(hx(x) for x in seq)); n_seq += 1
    return cases, {"small_exhaustive": n_small, "single_bit_basis": n_basis, "random_messages": nr,
                   "verify_frames": len(frames), "frames_over_65535_bytes": n_wide, "single_bit_flips": n_flip, "total": len(cases)}


def judge(case, impl, model, spec=None):
    if crashed(impl):
        return (crash_sig(impl), "the library crashed or hung on " + case[:200])
    t = case.split()
    if t[0] == "verifyseq":
        got = impl.split()[1:]
        for i, h in enumerate(t[1:]):
            fr = bytes.fromhex(h)
            ok = len(fr) >= 4 and fcs(fr[:-4]) == fr[-4:]
            want = "%d/%08x" % (1 if ok else 0, (zlib.crc32(fr[:-4]) & 0xFFFFFFFF) if len(fr) >= 4 else 0)
            if i >= len(got) or got[i] != want:
                return ("verify:reused-buffer", "frame %d of a sequence verified in one re-used buffer: library says '%s', expected '%s' (%s)"
                        % (i, got[i] if i < len(got) else "-", want, "valid frame" if ok else "corrupted frame"))
        return None
    b = bytes.fromhex(t[1]) if t[1] != "-" else b""
    if t[0] == "crc":
        want = "crc %d %s" % (zlib.crc32(b) & 0xFFFFFFFF, fcs(b).hex())
        if impl != want or (spec is not None and impl != spec):
            return ("crc-value", "for %d-byte message the library gives '%s', IEEE 802.3 CRC-32 is '%s'" % (len(b), impl, spec or want))
    else:
        ok = len(b) >= 4 and fcs(b[:-4]) == b[-4:]
        want = "verify %d" % (1 if ok else 0)
        if impl != want or (spec is not None and impl != spec):
            return ("verify:" + ("short" if len(b) < 4 else ("valid-refused" if ok else "corrupt-accepted")),
                    "frame of %d bytes: library says '%s', expected '%s'" % (len(b), impl, want))
    return None


def nontrivial(case, impl):
    return case
