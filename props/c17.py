"""C17 - security descriptions are complete, correctly named and fit their buffer."""
import random
from .common import crashed, crash_sig

ID = "C17"
PROP_FILE = "Properties/Properties_C17.v"
RULE = ("every subset of the flags each routine inspects - 2^4 generations, 2^13 group ciphers, 2^14 pairwise ciphers "
        "exhaustively; key-management suites: 2^21 subsets exhaustively (thorough) / all subsets of size <=2 and >=19, "
        "the full set and 20000 random subsets (quick) - each also with unrelated bits set; the 256-byte buffer is an exactly "
        "sized heap block; non-trivial = distinct (routine, summary) pair with at least one inspected flag set")
TRUSTED = ["Coq 8.16.1 kernel incl. vm_compute", "translator: (flag, name) lists, None string and separator from the clang AST of security.c",
           "snprintf modelled by its C11 contract (at most size-1 characters and a NUL)",
           "Spec/SecStrSpec.v: documented flag-name association, hand-written",
           "harness/ops_sec.c under ASan/UBSan; ocaml/driver.ml + extraction (ExtrOcamlBasic only)"]
ASSUMPTIONS = ["LIBWIFI_SECURITY_BUF_LEN bytes are available at buf (the documented contract)"]

RANGES = {0: (1, 4), 1: (5, 17), 2: (18, 31), 3: (32, 53)}     # inspected bit ranges per routine
AKM_BITS = [b for b in range(32, 54) if b != 38]


def gen_cases(tier, seed):
    rng = random.Random(seed)
    cases = []
    dist = {}
    def add(k, info):
        cases.append("secstr %d %d" % (k, info))
    for k in (0, 1, 2):
        lo, hi = RANGES[k]
        bits = list(range(lo, hi + 1))
        n = 0
        for m in range(1 << len(bits)):
            info = sum(1 << bits[i] for i in range(len(bits)) if (m >> i) & 1)
            add(k, info); n += 1
            if m % 7 == 0:       # with unrelated bits
                other = rng.getrandbits(64) & ~sum(1 << b for b in bits)
                add(k, info | other); n += 1
        dist[k] = n
    bits = AKM_BITS
    n = 0
    if tier == "thorough":
        for m in range(1 << len(bits)):
            add(3, sum(1 << bits[i] for i in range(len(bits)) if (m >> i) & 1)); n += 1
    else:
        full = sum(1 << b for b in bits)
        add(3, 0); add(3, full); add(3, full | (1 << 38)); add(3, 2**64 - 1); n += 4
        for a in bits:
            add(3, 1 << a); add(3, full ^ (1 << a)); n += 2
            for b in bits:
                if a < b:
                    add(3, (1 << a) | (1 << b)); add(3, full ^ (1 << a) ^ (1 << b)); n += 2
        for _ in range(20000):
            m = rng.getrandbits(len(bits))
            info = sum(1 << bits[i] for i in range(len(bits)) if (m >> i) & 1)
            if rng.random() < 0.3:
                info |= rng.getrandbits(64) & ~full
            add(3, info); n += 1
    dist[3] = n
    for k in range(4):
        for info in (0, 1, 1 << 63, 1 << 38, 1 << 54, 2**64 - 1):
            add(k, info)
    return cases, {"per_routine": dist, "total": len(cases)}


def judge(case, impl, model, spec=None):
    if crashed(impl):
        return (crash_sig(impl), "the library crashed (write outside the 256-byte buffer?) on " + case)
    t = case.split()
    if "UNTERMINATED" in impl:
        return ("unterminated", "no NUL inside the buffer for " + case)
    p = impl.split()
    s = bytes.fromhex(p[2]).decode("latin1") if p[2] != "-" else ""
    if int(p[1]) >= 256:
        return ("too-long", "description of %d bytes" % int(p[1]))
    if spec is None:
        return None
    want = spec[4:]
    if want == "None":
        if s != "None":
            return ("none:" + t[1], "empty summary described as '%s'" % s)
        return None
    names = [bytes.fromhex(x).decode("latin1") for x in want.split(",") if x] if want else []
    got = s.split(", ") if s else []
    if sorted(got) != sorted(names):
        return ("names:" + t[1], "routine %s on 0x%x wrote '%s', the set flags are %s" % (t[1], int(t[2]), s, sorted(names)))
    return None


def nontrivial(case, impl):
    p = impl.split()
    return case if len(p) > 1 and p[1] not in ("0", "4") else None
