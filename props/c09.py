"""C09 - radiotap headers are decoded at their specified aligned offsets or refused."""
import random, struct
from .common import hx, crashed, crash_sig
from . import rtgen

ID = "C09"
PROP_FILE = "Properties/Properties_C09.v"
RULE = ("single-word headers: every single field, every pair of fields, and 2^14 (quick) / 2^20 (thorough) random subsets "
        "of the 23 defined fields, random field values and random padding bytes, decoded inside a larger buffer; multi-word "
        "headers with namespace reset (per-antenna signal/antenna pairs) and vendor namespaces with skip lengths 0,1,4,7; "
        "every malformed class (version, it_len<8, it_len>available, it_len>255), truncation at every byte; the short rssi "
        "routine on valid headers; non-trivial = distinct header that decodes successfully with at least one field, or is "
        "refused for a distinct class")
TRUSTED = ["Coq 8.16.1 kernel incl. vm_compute", "translator: alignment/size table as compiled into radiotap_ns (probe), enumerators",
           "hand-written model of the radiotap iterator (Model/Radiotap.v) tied by this correspondence; multi-word chains are covered "
           "by the model-implementation correspondence and the totality theorem only (no functional spec theorem yet)",
           "Spec/RadiotapSpec.v transcribes the radiotap.org field table", "harness/ops_rtap.c under ASan/UBSan; ocaml/driver.ml + extraction"]
ASSUMPTIONS = ["frame_len < 2^31", "little-endian host", "libwifi_parse_radiotap_rssi has no length argument: it is only applied to "
               "buffers that contain a complete header (known limitation F34)"]


def gen_cases(tier, seed):
    rng = random.Random(seed)
    q = tier == "quick"
    cases = []
    sel = [1 << b for b in range(23)] + [(1 << a) | (1 << b) for a in range(23) for b in range(a + 1, 23)] + [0, (1 << 23) - 1]
    n = (1 << 14) if q else (1 << 20)
    sel += [rng.getrandbits(23) for _ in range(n)]
    for p in sel:
        h = rtgen.rtap_single(p, rng, extra=rng.choice([0, 0, 1, 5]))
        tail = bytes(rng.randrange(256) for _ in range(rng.choice([0, 0, 3, 30])))
        cases.append("rtap " + hx(h + tail))
    n_single = len(cases)
    nm = 3000 if q else 60000
    for _ in range(nm):
        h = rtgen.rtap_multi(rng)
        cases.append("rtap " + hx(h + bytes(rng.randrange(256) for _ in range(rng.choice([0, 4])))))
    # well-formed chains in the sense of the chain specification (c09_chain): all defined fields in any namespace word,
    # resets, vendor namespaces with arbitrary skip lengths, vendor after vendor, empty continuation words
    n_chain = 0
    for _ in range(6000 if q else 200000):
        h = rtgen.rtap_chain(rng)
        if h is not None:
            cases.append("rtap " + hx(h + bytes(rng.randrange(256) for _ in range(rng.choice([0, 0, 5]))))); n_chain += 1
    # many per-antenna words: around and far beyond the 16 entries the result can hold (up to the 41 that fit 255 bytes)
    for n in list(range(13, 21)) + [30, 31, 32, 33, 40, 41, 42]:
        for first in ((1, 2, 3, 5), (5,), (3,), ()):
            h = rtgen.rtap_antennas(rng, n, first)
            if h is not None:
                cases.append("rtap " + hx(h)); cases.append("classify 1 " + hx(h + bytes([0xb4, 0]) + bytes(14)))
    # undefined bits 23..28 and namespace bits without EXT
    for _ in range(300 if q else 5000):
        p = rng.getrandbits(23) | (1 << rng.randrange(23, 31))
        h = rtgen.rtap_single(p & 0x7FFFFF, rng, extra=8)
        h = h[:4] + struct.pack("<I", p) + h[8:]
        cases.append("rtap " + hx(h))
    # malformed classes
    base = rtgen.rtap_single(0x80402E, rng)
    for k in range(len(base) + 1):
        cases.append("rtap " + hx(base[:k]))
    for itl in (0, 1, 7, 8, 9, len(base) - 1, len(base), len(base) + 1, 255, 256, 1000, 65535):
        h = bytearray(base); h[2:4] = struct.pack("<H", itl)
        cases.append("rtap " + hx(bytes(h)))
        cases.append("rtap " + hx(bytes(h) + bytes(300)))
    # headers whose length field is right but at / beyond what the one-octet length of the result can hold:
    # every length 248..290 and some larger ones, complete in the buffer (zero padding or vendor data after the fields)
    for itl in list(range(248, 291)) + [511, 512, 519, 520, 767, 768, 776, 1000, 4096, 65535]:
        h = bytearray(base); h[2:4] = struct.pack("<H", itl)
        full = bytes(h) + bytes(itl - len(h))
        cases.append("rtap " + hx(full))
        cases.append("rtap " + hx(full + bytes([0x80, 0]) + bytes(22)))
        cases.append("classify 1 " + hx(full + bytes([0x80, 0]) + bytes(22)))
        if itl < 4096:
            v = rtgen.rtap_vendor(rng, itl) if hasattr(rtgen, "rtap_vendor") else None
            if v:
                cases.append("rtap " + hx(v))
    for v in (1, 2, 255):
        h = bytearray(base); h[0] = v
        cases.append("rtap " + hx(bytes(h)))
    # EXT chains running off the end
    for nw in range(1, 8):
        h = bytes([0, 0]) + struct.pack("<H", 4 + 4 * nw) + struct.pack("<I", 0x80000000) * nw
        cases.append("rtap " + hx(h))
        cases.append("rtap " + hx(h + bytes(4)))
    # random garbage
    for _ in range(2000 if q else 50000):
        L = rng.choice([8, 9, 12, 16, 24, 40])
        b = bytearray(rng.randrange(256) for _ in range(L))
        b[0] = 0 if rng.random() < 0.9 else b[0]
        b[2:4] = struct.pack("<H", rng.choice([L, L, 8, L - 1, L + 1, rng.randrange(0, 64)]))
        cases.append("rtap " + hx(bytes(b)))
    # rssi on complete headers
    for _ in range(200 if q else 5000):
        h = rtgen.rtap_single(rng.getrandbits(23), rng) if rng.random() < 0.6 else rtgen.rtap_multi(rng)
        cases.append("rssi " + hx(h))
    return cases, {"single_word": n_single, "multi_word": nm, "wellformed_chains": n_chain, "total": len(cases)}


def judge(case, impl, model, spec=None):
    if crashed(impl):
        return (crash_sig(impl), "the library crashed or hung on " + case[:200])
    if spec is not None and impl != spec:
        kind = "refusal" if ("err" in impl.split()[1]) != ("err" in spec.split()[1]) else "values"
        return ("rtap:" + kind, "decoder gave '%s', the specification's offsets give '%s'" % (impl[:300], spec[:300]))
    return None


def nontrivial(case, impl):
    return case
