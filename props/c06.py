"""C06 - tag iteration reports only genuine in-bounds elements, in order, and terminates."""
import random
from .common import hx, crashed, crash_sig

ID = "C06"
PROP_FILE = "Properties/Properties_C06.v"
RULE = ("buffers enumerated structurally: at each element start every relation between the length octet and the "
        "bytes remaining {0,1,r-4,r-3,r-2(exact fit),r-1,r,255}, two tag numbers, bodies that themselves look like "
        "headers; all buffer lengths 0..8 (quick) / 0..10 (thorough) exhaustively over that skeleton alphabet, plus "
        "random well-formed chains with truncation and random bytes up to 2304 bytes; non-trivial = distinct buffer "
        "on which the iterator is not refused or is refused for a distinct reason (length<2 / first too long)")
TRUSTED = ["Coq 8.16.1 kernel", "hand-written model Model/TagIter.v tied by this correspondence only",
           "harness/ops_tags.c under ASan/UBSan with exactly-sized heap buffers (red zones on both sides)",
           "ocaml/driver.ml + extraction (ExtrOcamlBasic only)"]
ASSUMPTIONS = ["x86-64, gcc 12; pointer comparisons modelled as integer offset comparisons"]


def skeletons(n, first=True, prefix=None, out=None, cap=None):
    """all buffers of length n over the length-skeleton alphabet"""
    if out is None:
        out = []
    prefix = prefix or []
    r = n - len(prefix)
    if cap is not None and len(out) >= cap:
        return out
    if r == 0:
        out.append(list(prefix))
        return out
    if r == 1:
        for b in (0, 7, 255):
            out.append(prefix + [b])
        return out
    nums = (0, 221) if first else (3,)
    lens = sorted(set(x for x in (0, 1, r - 4, r - 3, r - 2, r - 1, r, 255) if 0 <= x <= 255))
    for num in nums:
        for L in lens:
            if L <= r - 2:
                bodies = [[0x41] * L]
                if L >= 2:
                    bodies.append([5, 0] + [0] * (L - 2))       # body that looks like an empty element
                for body in bodies:
                    skeletons(n, False, prefix + [num, L] + body, out, cap)
            else:
                out.append(prefix + [num, L] + [0x42] * (r - 2))
                if r - 2 >= 2:
                    out.append(prefix + [num, L] + [3, 0] + [1] * (r - 4))
    return out


def gen_cases(tier, seed):
    rng = random.Random(seed)
    maxn = 8 if tier == "quick" else 10
    bufs = []
    for n in range(0, maxn + 1):
        bufs += skeletons(n)
    n_skel = len(bufs)
    # exhaustive tiny buffers over all byte values
    for a in range(256):
        bufs.append([a])
    for a in (0, 1, 2, 255):
        for b in range(256):
            bufs.append([a, b])
    for b in range(0, 256, 1 if tier != "quick" else 5):
        for c in (0, 1, 255):
            bufs.append([9, b, c])
    nr = 3000 if tier == "quick" else 20000
    for _ in range(nr):
        mode = rng.randrange(4)
        if mode == 0:   # well-formed chain, maybe truncated or extended
            buf = []
            for _ in range(rng.randrange(1, 12)):
                L = rng.choice([0, 1, 2, 32, rng.randrange(256)])
                buf += [rng.randrange(256), L] + [rng.randrange(256) for _ in range(L)]
            cut = rng.choice([0, 0, 1, 2, rng.randrange(0, 8)])
            buf = buf[:max(0, len(buf) - cut)]
        elif mode == 1:
            buf = [rng.randrange(256) for _ in range(rng.randrange(0, 40))]
        elif mode == 2:  # long
            buf = []
            while len(buf) < rng.randrange(500, 2304):
                L = rng.choice([0, 1, 255, rng.randrange(256)])
                buf += [rng.randrange(256), L] + [rng.randrange(256) for _ in range(L)]
            buf = buf[:2304]
        else:           # mutate a length octet of a valid chain
            buf = []
            offs = []
            for _ in range(rng.randrange(1, 8)):
                L = rng.randrange(0, 6)
                offs.append(len(buf) + 1)
                buf += [rng.randrange(256), L] + [rng.randrange(256) for _ in range(L)]
            o = rng.choice(offs)
            buf[o] = rng.choice([0, 1, 255, len(buf) - o - 1, len(buf) - o, len(buf) - o - 2, buf[o] + 1])
            buf[o] %= 256
        bufs.append(buf)
    from . import frames as F
    wide = F.wide(rng, tier == "quick")["iter"]
    bufs += [list(b) for b in wide]
    cases = ["iter " + hx(b) for b in bufs]
    return cases, {"skeleton_buffers": n_skel, "max_exhaustive_len": maxn, "random": nr, "over_65535_bytes": len(wide), "total": len(cases),
                   "sizes": {"0-2": sum(len(b) <= 2 for b in bufs), "3-16": sum(2 < len(b) <= 16 for b in bufs),
                             "17-255": sum(16 < len(b) <= 255 for b in bufs), "256+": sum(len(b) > 255 for b in bufs)}}


def public(line):
    """the observable part of an iteration: refusal, and (header offset, number, length, data offset) of every report;
    the private cursor fields (_frame_end, _next_tag_header) are compared with the model only"""
    import re
    if line.startswith("iter err"):
        return "err"
    return [tuple(m.split(",")[:4]) for m in re.findall(r"\(([^)]*)\)", line)] + [x for x in ("BADRET", "RUNAWAY") if x in line]


def judge(case, impl, model, spec=None):
    if crashed(impl):
        return (crash_sig(impl), "the library crashed or hung on " + case)
    if spec is not None and public(impl) != public(spec):
        return ("iter:" + ("refusal" if ("err" in impl) != ("err" in spec) else "reports"),
                "iteration gave '%s', the chain of the buffer is '%s'" % (impl[:200], spec[:200]))
    return None


def nontrivial(case, impl):
    return case
