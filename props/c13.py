"""C13 - parsing is a pure function of the input bytes."""
import random, re
from .common import hx, crashed, crash_sig
from lib import vcore as V
from . import c01, c02, c04, c08, c09, c11, c12

ID = "C13"
PROP_FILE = "Properties/Properties_C13.v"
RULE = ("a sample of the generated and mutated inputs of C01/C02/C04/C08/C09/C12, each evaluated in three deliberately different "
        "environments - (A) -O1 with ASan/UBSan, heap fill A5, output objects pre-filled 5A, input in an exactly sized block; "
        "(B) the shipping flags -O2 -D_FORTIFY_SOURCE=2 -fstack-protector-strong, heap fill 00, output pre-fill FF, 64 junk bytes "
        "41.. right after every input, after a different preceding call, stack zeroed before every call; (C) -O0, heap fill FF, pre-fill 00, junk C3.., stack filled with FF "
        "((A) fills the stack with a pattern derived from the case: small words 0..47, all ones, random) - the "
        "canonical field-wise observations (pointers followed, input wiped and released before the result is read, input compared "
        "before/after) must agree with each other and with the model; non-trivial = distinct input evaluated in all three")
TRUSTED = ["Coq 8.16.1 kernel", "the hand-written models (their results are functions of the input bytes by construction; independence from "
           "memory beyond the buffer is the rd_env corollaries)", "gcc 12 at three optimisation/hardening settings: independence from the "
           "compiler is OBSERVED across these builds, not proved (no compiler model is available)", "harness environment knobs (env op)"]
ASSUMPTIONS = ["x86-64, glibc", "libwifi_parse_radiotap_rssi is excluded (it has no length argument, F34)"]

ENVS = {"san": "env 165 90 0 0", "ship": "env 0 255 64 65 -1 0", "dbg": "env 255 0 64 195 -1 255"}   # heap fill, pre-fill, tail, tail byte, placement, stack pattern
WARM = "mgmt 0 80000000ffffffffffff0102030405060102030405060000000000000000000064000100000361626303010b"


def CONFIGS(tier):
    return ["san"]


def gen_cases(tier, seed):
    rng = random.Random(seed)
    per = 1500 if tier == "quick" else 30000
    cases = []
    for mod in (c01, c02, c04, c08, c09, c11, c12):
        cs, _ = mod.gen_cases("quick", seed + 7)
        cs = [c for c in cs if not c.startswith("rssi")]
        cases += rng.sample(cs, min(per, len(cs)))
    # boundary families that sampling must not drop
    cases += c08.count_cases(rng)
    cases += c08.ie_cases(rng)
    from . import frames as F
    wide = F.wide(rng, True)
    cases += ["iter " + hx(b) for b in wide["iter"][:5]] + ["mgmt %d %s" % (rt, hx(b)) for rt, b in wide["mgmt"]] + \
             ["classify %d %s" % (rt, hx(b)) for rt, b in wide["classify"]]
    return cases, {"per_source_property": per, "total": len(cases)}


def judge(case, impl, model, spec=None):
    if crashed(impl):
        return (crash_sig(impl), "crash on " + case[:200])
    if "INPUT-MODIFIED" in impl:
        return ("input-modified", case[:200])
    return None


def nontrivial(case, impl):
    return case


def extra(ctx):
    viol = []
    st = ctx["stats"]
    cases = ctx["cases"]
    if not cases:
        return viol
    outs = {}
    for cfg in ("san", "ship", "dbg"):
        exe = ctx["exes"].get(cfg)
        if exe is None:
            exe, log = V.build_impl(cfg)
            if exe is None:
                ctx["unproved"].append({"what": "impl-build", "config": cfg, "detail": log[-1000:]})
                continue
        lines = [ENVS[cfg]] + ([WARM] if cfg != "san" else []) + cases
        res = V.run_cases(exe, lines)
        outs[cfg] = res[len(lines) - len(cases):]
    n = 0
    ref = outs.get("san")
    for cfg in ("ship", "dbg"):
        if cfg not in outs or ref is None:
            continue
        for c, a, b in zip(cases, ref, outs[cfg]):
            n += 1
            if a != b and not (crashed(a) and crashed(b)):
                kind = "crash" if crashed(b) else "differs"
                viol.append(("env-%s:%s:%s" % (kind, cfg, c.split()[0]),
                             "the same input gives different observations in two environments/builds: [san] %s  [%s] %s" % (a[:200], cfg, b[:200]),
                             {"case": c, "impl": b, "model": a, "config": cfg}))
    st["evaluations"] = n
    st["validated"] = n - len(viol)
    st["builds_compared"] = sorted(outs.keys())
    return viol
