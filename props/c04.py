"""C04 - management parsers report what the frame says; generated frames round-trip."""
import random, struct, zlib
from .common import hx, crashed, crash_sig
from . import frames as F

ID = "C04"
PROP_FILE = "Properties/Properties_C04.v"
RULE = ("all nine parsable subtypes x {frames laid out exactly as the generators emit them (zero duration/sequence, default fixed "
        "fields, SSID 0..32 bytes, channel, 0..8 extra elements), crafted frames (SSID up to 255 bytes, blank, absent, repeated; "
        "empty and missing channel elements; order bit with HT-control field; arbitrary elements)} x {no radiotap, radiotap, "
        "radiotap + computed FCS}; all nine parsers are applied to every frame; truncation at every byte of one frame per subtype; "
        "non-trivial = distinct frame on which the matching parser succeeds")
TRUSTED = ["Coq 8.16.1 kernel", "translator: fixed-parameter struct sizes and offsets, tag numbers, subtype numbers (probe)",
           "hand-written models Model/Mgmt.v, Model/Security.v, Model/TagIter.v, Model/Frame.v tied by this correspondence",
           "Spec/MgmtSpec.v: element semantics written from the standard", "harness/ops_frame.c under ASan/UBSan; ocaml/driver.ml + extraction"]
ASSUMPTIONS = ["frames reach the parsers through libwifi_get_wifi_frame", "parsed deauth/disassoc objects have no release routine (F33): "
               "the harness frees their tag copy itself"]


def generated(rng, st):
    """bytes exactly as the generator for subtype st lays them out"""
    a = [bytes(rng.randrange(256) for _ in range(6)) for _ in range(3)]
    hdr = bytes([st << 4, 0, 0, 0]) + a[0] + a[1] + a[2] + bytes([0, 0])
    ssid = bytes(rng.randrange(1, 256) for _ in range(rng.choice([0, 1, 7, 31, 32, rng.randrange(0, 33)])))
    ch = rng.randrange(256)
    extras = b"".join(F.el(rng.choice([1, 5, 7, 42, 45, 50, 127]), bytes(rng.randrange(256) for _ in range(rng.choice([1, 2, 8, 40]))))
                      for _ in range(rng.randrange(0, 9)))
    ts = struct.pack("<Q", rng.getrandbits(64))
    if st in (8, 5):
        body = ts + struct.pack("<HH", 100, 1) + F.el(0, ssid) + F.el(3, [ch])
    elif st == 4:
        body = F.el(0, ssid) + F.el(3, [ch])
    elif st == 0:
        body = struct.pack("<HH", 1, 1) + F.el(0, ssid) + F.el(3, [ch])
    elif st == 2:
        body = struct.pack("<HH", 1, 1) + bytes(rng.randrange(256) for _ in range(6)) + F.el(0, ssid) + F.el(3, [ch])
    elif st == 1:
        body = struct.pack("<HHH", 1, 0, 0) + F.el(3, [ch]) + F.el(1, bytes([0x82, 0x84, 0x8b, 0x96, 0x24, 0x30, 0x48, 0x6c]))
    elif st == 3:
        body = struct.pack("<HHH", 1, 0, 0) + F.el(3, [ch])
    else:
        body = struct.pack("<H", rng.randrange(65536))
    return hdr + body + extras


def gen_cases(tier, seed):
    rng = random.Random(seed)
    q = tier == "quick"
    cases = []
    n = 150 if q else 6000
    for st in F.PARSABLE:
        for _ in range(n):
            fr = generated(rng, st)
            rt, buf = F.wrap(rng, fr, rng.randrange(3))
            cases.append("mgmt %d %s" % (rt, hx(buf)))
    n_gen = len(cases)
    for st in F.PARSABLE:
        for _ in range(n):
            els = F.elements(rng)
            if rng.random() < 0.15:
                els = els + [F.el(0, bytes(rng.randrange(256) for _ in range(rng.randrange(0, 40))))]     # repeated SSID
            fr = F.mgmt(rng, st, els, ordered=rng.random() < 0.25, privacy=rng.random() < 0.5)
            rt, buf = F.wrap(rng, fr, rng.randrange(3))
            cases.append("mgmt %d %s" % (rt, hx(buf)))
    # elements after an EMPTY non-leading element (findings F44), a repeated SSID element shorter than the first (F47)
    for st in F.PARSABLE:
        for empty_num in (114, 7, 0, 221, 255):
            rsn = F.el(48, F.rsn_body(rng, pairwise=F.rand_suites(rng, "rsn", 1), akms=F.rand_suites(rng, "rsn", 1)))
            els = [F.el(0, b"abc"), F.el(empty_num, b""), F.el(3, [6]), rsn, F.el(3, [11])]
            cases.append("mgmt 0 " + hx(F.mgmt(rng, st, els, privacy=True)))
            cases.append("mgmt 0 " + hx(F.mgmt(rng, st, [F.el(empty_num, b"")] + els, privacy=True)))
        for a, b in ((b"abcdef", b"xy"), (b"abc", bytes(2)), (bytes(4), b"z"), (b"q" * 32, b""), (b"", b"late")):
            cases.append("mgmt 0 " + hx(F.mgmt(rng, st, [F.el(0, a), F.el(1, [2, 4]), F.el(0, b), F.el(3, [1])])))
    for st in F.PARSABLE:            # truncation at every byte
        fr = generated(rng, st)
        for k in range(len(fr) + 1):
            cases.append("mgmt 0 " + hx(fr[:k]))
    for st in range(16):             # every subtype, also the unparsable ones
        for _ in range(10 if q else 200):
            fr = F.mgmt(rng, st, F.elements(rng), fixed=bytes(rng.randrange(256) for _ in range(rng.choice([0, 2, 4, 6, 12]))))
            cases.append("mgmt 0 " + hx(fr))
    wide = F.wide(rng, q)["mgmt"]
    cases += ["mgmt %d %s" % (rt, hx(buf)) for rt, buf in wide]
    return cases, {"generator_layout_frames": n_gen, "frames_over_65535_bytes": len(wide), "total": len(cases)}


def judge(case, impl, model, spec=None):
    if crashed(impl):
        return (crash_sig(impl), "the library crashed or hung on " + case[:200])
    if "LEAK" in impl:
        return ("leak", impl[-30:])
    if spec is not None and impl != spec:
        import re
        name = "?"
        for p, s in zip(impl.split(" "), spec.split(" ")):
            m = re.match(r"^([a-z_]+)=", p)
            if m:
                name = m.group(1)      # fields contain spaces: the record name is the last token of the form name=
            if p != s:
                kind = "refusal" if (p.endswith("=err")) != (s.endswith("=err")) else "fields"
                return ("parse:%s:%s" % (name, kind), "parser reports '%s', the frame says '%s'" % (p[:300], s[:300]))
        return ("parse:shape", impl[:100])
    return None


def nontrivial(case, impl):
    return case if impl.count("=err") < 9 and not impl.startswith("mgmt cls=err") else None
