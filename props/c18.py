"""C18 - capability tests select the IEEE-assigned capability bit."""
import random
from .common import crashed, crash_sig

ID = "C18"
PROP_FILE = "Properties/Properties_C18.v"
RULE = ("the macro as compiled by the real preprocessor/compiler, 15 published names x 8 argument shapes (variable, "
        "parenthesised, a|b, c?a:b, a&b, a^b, a+b, a<<1): all 65536 values of a for the single-operand shapes (thorough; "
        "a 4099-value stride plus single-bit and boundary values in quick) and single-bit/boundary/random operand pairs for "
        "the two-operand shapes; the model side expands the macro tokens textually and parses with C precedence; "
        "non-trivial = distinct (shape, name, operands) with the tested bit set in some operand")
TRUSTED = ["Coq 8.16.1 kernel incl. vm_compute", "translator: macro bodies as compiled (gcc -E -dM) tokenised into Gen/Macros.v; "
           "enumerator values from the compiled probe", "Model/Macro.v: preprocessor substitution + C expression grammar (hand-written, "
           "validated against the compiler by this correspondence)", "Spec/CapSpec.v: IEEE 802.11 capability bit assignments, hand-written",
           "harness/ops_misc.c; ocaml/driver.ml + extraction (ExtrOcamlBasic only)"]
ASSUMPTIONS = ["operands are 16-bit values; the capability field is 16 bits wide", "little-endian host (BYTESWAP16 is the identity)"]

NAMES = 15
SHAPES = 8


def gen_cases(tier, seed):
    rng = random.Random(seed)
    q = tier == "quick"
    single = [0, 1, 65535, 0x8000, 0x7fff, 0x00ff, 0xff00, 0xaaaa, 0x5555] + [1 << i for i in range(16)] + \
             [0xffff ^ (1 << i) for i in range(16)]
    avals = sorted(set(single + (list(range(0, 65536, 4099)) if q else list(range(65536)))))
    cases = []
    for k in range(NAMES):
        for sh in (0, 1, 7):
            for a in avals if not q or sh != 7 else avals[::3]:
                cases.append("cap %d %d %d 0 0" % (sh, k, a))
        pairs = [(a, b) for a in single[:12] + [1 << k if k < 9 else 1 << (k + 1), 1 << 4] for b in single[:12] + [1 << k if k < 9 else 1 << (k + 1)]]
        pairs += [(rng.randrange(65536), rng.randrange(65536)) for _ in range(60 if q else 2000)]
        for sh in (2, 4, 5, 6):
            for a, b in pairs:
                cases.append("cap %d %d %d %d 0" % (sh, k, a, b))
        for a, b in pairs[:: 3 if q else 1]:
            for c in (0, 1, 65535, 256):
                cases.append("cap 3 %d %d %d %d" % (k, a, b, c))
    return cases, {"single_operand_values": len(avals), "total": len(cases)}


def judge(case, impl, model, spec=None):
    if crashed(impl):
        return (crash_sig(impl), "crash on " + case)
    t = case.split()
    if spec is None:
        return None
    v = int(impl.split()[2])
    want = spec.split()[1] == "1"
    if (v != 0) != want:
        return ("cap:%s:shape%s" % (impl.split()[1], t[1]),
                "%s with shape %s on a=%s b=%s c=%s evaluates to %d but the IEEE bit is %s" %
                (impl.split()[1], t[1], t[3], t[4], t[5], v, "set" if want else "clear"))
    return None


def nontrivial(case, impl):
    return case if not impl.endswith(" 0") else None
