"""C08 - security classification follows the RSN and WPA elements exactly."""
import random, struct
from .common import hx, crashed, crash_sig
from . import frames as F

ID = "C08"
PROP_FILE = "Properties/Properties_C08.v"
RULE = ("every single-suite element exhaustively: 256 selectors x {RSN, WPA} x {group, pairwise, key management} x {IEEE, Microsoft, "
        "foreign OUI}; elements with 0..7 pairwise and 0..7 key-management suites drawn from defined, undefined and foreign "
        "selectors; counts 0..8 and 0x0100 against the suites present; truncation of RSN and WPA elements at every byte; crossed "
        "with the privacy bit, WPS/WMM/other vendor elements and element order, in beacons, probe responses and (re)association "
        "responses; non-trivial = distinct frame for which the matching parser succeeds or fails on a security element")
TRUSTED = ["Coq 8.16.1 kernel incl. vm_compute (256-selector table sweeps)", "translator: the six selector->flag switches and the OUI "
           "literals (clang AST), flag values and limits (probe)", "hand-written pointer walks of Model/Security.v, Model/Mgmt.v tied by this "
           "correspondence", "Spec/SecuritySpec.v: suite tables written from the standard and the header's documented flags; a WPA element "
           "sets the WPA generation flag by its presence", "harness/ops_frame.c under ASan/UBSan; ocaml/driver.ml + extraction"]
ASSUMPTIONS = ["frames reach the parsers through libwifi_get_wifi_frame", "little-endian host"]

BSS_SUBTYPES = [8, 5, 1, 3]


def frame(rng, els, st=8, privacy=None):
    return "mgmt 0 " + hx(F.mgmt(rng, st, els, privacy=rng.random() < 0.5 if privacy is None else privacy))


def count_cases(rng, ssid=None, st=8):
    """declared suite counts against the suites actually present, for both lists of both element kinds, with the element
    last in the frame (anything read beyond it leaves the parser's copy) and followed by another element; the counts
    include every value whose product with the 4-byte suite size or whose 16-bit truncation wraps (0x4000, 0x8000, 0xC000 + n)"""
    ssid = ssid if ssid is not None else F.el(0, b"net")
    out = []
    wrap = [0x3fff, 0x4000, 0x4001, 0x4006, 0x7fff, 0x8000, 0x8002, 0xc000, 0xc005, 0xfffe]
    for declared in [0, 1, 2, 5, 6, 7, 8, 255, 256, 0x0106, 65535] + wrap:
        for present in (0, 1, 5, 6, 7, 8):
            for tail in ([], [F.el(3, [6])]):
                pw = F.rand_suites(rng, "rsn", present)
                out.append(frame(rng, [ssid, F.el(48, F.rsn_body(rng, pairwise=pw, pw_count=declared, akms=[], ak_count=0, caps=False)[:8 + 4 * present])] + tail, st=st))
                out.append(frame(rng, [ssid, F.el(48, F.rsn_body(rng, pairwise=pw, pw_count=declared))] + tail, st=st))
                out.append(frame(rng, [ssid, F.el(48, F.rsn_body(rng, akms=pw, ak_count=declared, caps=False))] + tail, st=st))
                uc = F.rand_suites(rng, "wpa", present)
                out.append(frame(rng, [ssid, F.el(221, F.wpa_body(rng, uc=uc, uc_count=declared, akms=[], ak_count=0)[:12 + 4 * present])] + tail, st=st))
                out.append(frame(rng, [ssid, F.el(221, F.wpa_body(rng, uc=uc, uc_count=declared))] + tail, st=st))
                out.append(frame(rng, [ssid, F.el(221, F.wpa_body(rng, akms=uc, ak_count=declared))] + tail, st=st))
    return out


def ie_cases(rng, q=True):
    """the element decoders called directly (libwifi_get_rsn_info / libwifi_get_wpa_info / libwifi_bss_handle_msft_tag): every
    truncation of full elements, every string of length 0..2 over a boundary alphabet, declared counts against suites present
    (incl. wrapping counts), optional-field boundaries (element ending after the group suite / after the pairwise list)"""
    out = []
    alpha = [0, 1, 2, 4, 6, 0x40, 0x80, 0xff]
    small = [b""] + [bytes([a]) for a in alpha] + [bytes([a, b]) for a in alpha for b in alpha]
    for b in small:
        for k in ("rsn", "wpa", "msft"):
            out.append("ie %s %s" % (k, hx(b)))
    for _ in range(4 if q else 60):
        full = F.rsn_body(rng, pairwise=F.rand_suites(rng, "rsn", rng.randrange(0, 4)), akms=F.rand_suites(rng, "rsn", rng.randrange(0, 4)))
        for k in range(len(full) + 1):
            out.append("ie rsn " + hx(full[:k]))
        fullw = F.wpa_body(rng, uc=F.rand_suites(rng, "wpa", rng.randrange(0, 4)), akms=F.rand_suites(rng, "wpa", rng.randrange(0, 3)))
        for k in range(len(fullw) + 1):
            out.append("ie msft " + hx(fullw[:k]))
            if k >= 4:
                out.append("ie wpa " + hx(fullw[4:k]))
        for typ in (0, 2, 4, 5, 255):
            v = F.MSFT + bytes([typ]) + bytes(rng.randrange(256) for _ in range(rng.randrange(0, 12)))
            for k in range(len(v) + 1):
                out.append("ie msft " + hx(v[:k]))
    wrap = [0, 1, 6, 7, 8, 255, 256, 0x3fff, 0x4000, 0x4001, 0x4006, 0x7fff, 0x8000, 0x8002, 0xc000, 0xc005, 0xfffe, 0xffff]
    for declared in wrap:
        for present in (0, 1, 5, 6, 7, 8):
            pw = F.rand_suites(rng, "rsn", present)
            b1 = F.rsn_body(rng, pairwise=pw, pw_count=declared, akms=[], ak_count=0, caps=False)
            out.append("ie rsn " + hx(b1[:8 + 4 * present])); out.append("ie rsn " + hx(b1))
            out.append("ie rsn " + hx(F.rsn_body(rng, akms=pw, ak_count=declared, caps=False)))
            uc = F.rand_suites(rng, "wpa", present)
            w1 = F.wpa_body(rng, uc=uc, uc_count=declared, akms=[], ak_count=0)
            out.append("ie wpa " + hx(w1[4:12 + 4 * present])); out.append("ie wpa " + hx(w1[4:])); out.append("ie msft " + hx(w1))
            out.append("ie wpa " + hx(F.wpa_body(rng, akms=uc, ak_count=declared)[4:]))
    return out


def gen_cases(tier, seed):
    rng = random.Random(seed)
    q = tier == "quick"
    cases = []
    ssid = F.el(0, b"net")
    # single-suite elements, exhaustive over selectors
    for sel in range(256):
        for oui in (F.IEEE, F.MSFT, bytes([1, 2, 3])):
            for pos in range(3):
                g = F.suite(oui, sel) if pos == 0 else F.suite(F.IEEE, 4)
                pw = [F.suite(oui, sel)] if pos == 1 else []
                ak = [F.suite(oui, sel)] if pos == 2 else []
                cases.append(frame(rng, [ssid, F.el(48, F.rsn_body(rng, group=g, pairwise=pw, akms=ak))], st=BSS_SUBTYPES[sel % 4]))
                g = F.suite(oui, sel) if pos == 0 else F.suite(F.MSFT, 2)
                cases.append(frame(rng, [ssid, F.el(221, F.wpa_body(rng, mc=g, uc=pw, akms=ak))], st=BSS_SUBTYPES[(sel + 1) % 4]))
    n_single = len(cases)
    # counts versus suites present
    cases += count_cases(rng, ssid)
    cases += ie_cases(rng, q)
    # truncation at every byte
    for _ in range(6 if q else 60):
        full = F.rsn_body(rng, pairwise=F.rand_suites(rng, "rsn", 2), akms=F.rand_suites(rng, "rsn", 2))
        for k in range(len(full) + 1):
            cases.append(frame(rng, [ssid, F.el(48, full[:k])]))
            cases.append(frame(rng, [F.el(48, full[:k])]))                # as the last/only element
        fullw = F.wpa_body(rng, uc=F.rand_suites(rng, "wpa", 2), akms=F.rand_suites(rng, "wpa", 2))
        for k in range(len(fullw) + 1):
            cases.append(frame(rng, [ssid, F.el(221, fullw[:k])]))
            cases.append(frame(rng, [F.el(221, fullw[:k])]))
    # combinations
    for _ in range(4000 if q else 120000):
        els = F.elements(rng)
        cases.append(frame(rng, els, st=rng.choice(BSS_SUBTYPES)))
    return cases, {"single_suite_elements": n_single, "total": len(cases)}


def judge(case, impl, model, spec=None):
    if crashed(impl):
        return (crash_sig(impl), "the library crashed or hung on " + case[:200])
    if "LEAK" in impl:
        return ("leak", impl[-30:])
    if spec is not None and impl != spec:
        import re
        name = ("ie_" + case.split()[1]) if case.startswith("ie ") else "?"
        for p, s in zip(impl.split(" "), spec.split(" ")):
            m = re.match(r"^([a-z_]+)=", p)
            if m:
                name = m.group(1)      # fields contain spaces: the record name is the last token of the form name=
            if p != s:
                kind = "refusal" if (p.endswith("=err")) != (s.endswith("=err")) else "fields"
                return ("security:%s:%s" % (name, kind), "parser reports '%s', the frame says '%s'" % (p[:300], s[:300]))
        return ("security:shape", impl[:100])
    return None


def nontrivial(case, impl):
    return case
