"""shared builders for radiotap headers and 802.11 frames used by several property modules"""
import random, struct

# (align, size) per bit, radiotap.org
AS = [(8, 8), (1, 1), (1, 1), (2, 4), (2, 2), (1, 1), (1, 1), (2, 2), (2, 2), (2, 2), (1, 1), (1, 1), (1, 1), (1, 1),
      (2, 2), (2, 2), (1, 1), (1, 1), (4, 8), (1, 3), (4, 8), (2, 12), (8, 12)]


def rtap_single(present, rng, flags=None, pad_random=True, extra=0, version=0, itlen=None):
    """single-word header selecting `present` (bits 0..22) with random field values; returns bytes"""
    off = 8
    data = bytearray()
    for bit in range(23):
        if (present >> bit) & 1:
            al, sz = AS[bit]
            while off % al:
                data.append(rng.randrange(256) if pad_random else 0)
                off += 1
            v = bytearray(rng.randrange(256) for _ in range(sz))
            if bit == 1 and flags is not None:
                v[0] = flags
            if bit == 3 and rng.random() < 0.7:
                f = rng.choice([2412, 2437, 2472, 2484, 5160, 5180, 5885, 5955, 7115, 2411, 2485, 5159, 5886, 7116, 0, 65535])
                v[0:2] = struct.pack("<H", f)
            data += v
            off += sz
    data += bytes(rng.randrange(256) for _ in range(extra))
    L = (8 + len(data)) if itlen is None else itlen
    return bytes([version, 0]) + struct.pack("<H", L & 0xFFFF) + struct.pack("<I", present) + bytes(data)


def rtap_multi(rng, with_flags=None):
    """multi-word header: fields | per-antenna words with namespace reset | optional vendor namespace"""
    words = []
    body = bytearray()
    off = [0]

    def put(bit, val=None):
        al, sz = AS[bit]
        while (8 + off[0]) % al:
            body.append(0); off[0] += 1
        v = bytearray(rng.randrange(256) for _ in range(sz)) if val is None else bytearray(val)
        body.extend(v); off[0] += sz
    nant = rng.randrange(0, 4)
    vendor = rng.random() < 0.4
    first_bits = sorted(rng.sample([1, 2, 3, 5, 6, 10, 11, 14, 19], rng.randrange(1, 6)))
    if with_flags is not None and 1 not in first_bits:
        first_bits = sorted(first_bits + [1])
    nwords = 1 + nant + (2 if vendor else 0)
    ws = []
    w0 = sum(1 << b for b in first_bits)
    ws.append(w0)
    for k in range(nant):
        ws.append((1 << 5) | (1 << 11))
    if vendor:
        ws.append(1 << 30)
        ws.append(rng.getrandbits(29))
    # chain bits: every word but the last has EXT; radiotap namespace words followed by another radiotap
    # namespace word carry bit 29 so that field numbering restarts
    for i in range(len(ws) - 1):
        ws[i] |= 1 << 31
        nxt_is_rt = not (vendor and i >= len(ws) - 3)
        if nxt_is_rt and rng.random() < 0.9:
            ws[i] |= 1 << 29
    hdrwords = b"".join(struct.pack("<I", w) for w in ws)
    off[0] = len(hdrwords) - 4
    for b in first_bits:
        put(b, [with_flags] if (b == 1 and with_flags is not None) else None)
    for k in range(nant):
        put(5); put(11)
    if vendor:
        while (8 + off[0]) % 2:
            body.append(0); off[0] += 1
        skip = rng.choice([0, 1, 4, 7])
        body.extend(bytes([0x00, 0x11, 0x22, rng.randrange(256)]) + struct.pack("<H", skip) + bytes(rng.randrange(256) for _ in range(skip)))
        off[0] += 6 + skip
    L = 4 + len(hdrwords) + len(body)
    return bytes([0, 0]) + struct.pack("<H", L) + hdrwords + bytes(body)


def mgmt_frame(subtype, rng, ordered=False, body=b"", a1=None, a2=None, a3=None):
    fc0 = (subtype << 4)
    fc1 = 0x80 if ordered else 0
    rb = lambda n: bytes(rng.randrange(256) for _ in range(n))
    h = bytes([fc0, fc1]) + rb(2) + (a1 or rb(6)) + (a2 or rb(6)) + (a3 or rb(6)) + rb(2) + (rb(4) if ordered else b"")
    return h + body


def rtap_chain(rng, maxwords=6):
    """a well-formed chain of present words in the sense of Spec/RadiotapChainSpec.v: any subset of the 23 defined fields in
    every word that starts a radiotap namespace (first word, or after bit 29), vendor namespaces (bit 30: 6-byte vendor header
    at 2-byte alignment + skip bytes; the following word's bits 0..28 are arbitrary), continuation words without reset that
    select nothing; random padding and data; None when the header would exceed 255 bytes"""
    nw = rng.randrange(1, maxwords + 1)
    words, modes = [], []
    mode = "first"
    for i in range(nw):
        last = i == nw - 1
        if mode == "first":
            k = rng.choice([0, 1, 2, 2, 3, 5, 8])
            w = sum(1 << b for b in rng.sample(range(23), k))
            if i > 0 and rng.random() < 0.6:
                w = (1 << 5) | ((1 << 11) if rng.random() < 0.8 else 0)
        elif mode == "vend":
            w = rng.getrandbits(29)
        else:
            w = 0
        nxt = None
        r = rng.random()
        if r < 0.25:
            w |= 1 << 30; nxt = "vend"
        elif r < 0.8 or (mode != "vend" and not last and rng.random() < 0.7):
            w |= 1 << 29; nxt = "first"
        else:
            nxt = "vend" if mode == "vend" else "cont"
        if not last:
            w |= 1 << 31
        words.append(w); modes.append(mode)
        mode = nxt
    hdr = b"".join(struct.pack("<I", w) for w in words)
    body = bytearray()
    cur = 4 + len(hdr)

    def pad(al):
        nonlocal cur
        while cur % al:
            body.append(rng.randrange(256)); cur += 1
    for w, m in zip(words, modes):
        if m == "first":
            for b in range(23):
                if w >> b & 1:
                    al, sz = AS[b]
                    pad(al)
                    v = bytearray(rng.randrange(256) for _ in range(sz))
                    if b == 3 and rng.random() < 0.8:
                        v[0:2] = struct.pack("<H", rng.choice([2412, 2437, 2484, 5180, 5885, 5955, 7115, 1000]))
                    body.extend(v); cur += sz
        if w >> 30 & 1:
            pad(2)
            skip = rng.choice([0, 0, 1, 3, 4, 9])
            body.extend(bytes([0x00, 0x11, 0x22, rng.randrange(256)]) + struct.pack("<H", skip) + bytes(rng.randrange(256) for _ in range(skip)))
            cur += 6 + skip
    slack = rng.choice([0, 0, 1, 4])
    L = cur + slack
    if L > 255:
        return None
    return bytes([0, rng.randrange(256)]) + struct.pack("<H", L) + hdr + bytes(body) + bytes(rng.randrange(256) for _ in range(slack))


def rtap_antennas(rng, n, first=(1, 2, 3, 5)):
    """word 0 with the given fields, then n per-antenna words (signal + antenna number) each in a fresh radiotap namespace;
    None when it does not fit 255 bytes"""
    w0 = sum(1 << b for b in first) | ((1 << 29) | (1 << 31) if n else 0)
    words = [w0] + [((1 << 5) | (1 << 11) | (((1 << 29) | (1 << 31)) if i < n - 1 else 0)) for i in range(n)]
    hdr = b"".join(struct.pack("<I", w) for w in words)
    body = bytearray(); cur = 4 + len(hdr)
    for b in first:
        al, sz = AS[b]
        while cur % al:
            body.append(0); cur += 1
        body.extend(bytes(rng.randrange(256) for _ in range(sz))); cur += sz
    for i in range(n):
        body.extend(bytes([rng.randrange(256), rng.randrange(256)])); cur += 2
    if cur > 255:
        return None
    return bytes([0, 0]) + struct.pack("<H", cur) + hdr + bytes(body)
