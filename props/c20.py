"""C20 - timestamps never run backwards."""
import random

ID = "C20"
PROP_FILE = "Properties/Properties_C20.v"
RULE = ("pairs of clock readings (s1,n1) <= (s2,n2) over a grid of second boundaries x sub-second extremes "
        "(all ordered pairs) plus random pairs, injected through --wrap=clock_gettime; a case is non-trivial "
        "when the two readings differ; distinct = distinct (reading, reading) pairs")
TRUSTED = ["Coq 8.16.1 kernel (coqc, vm_compute not used here)",
           "tools/translate.py + clang AST: return expression of libwifi_get_epoch -> Gen/Arith.v",
           "harness/ops_misc.c with --wrap=clock_gettime; ocaml/driver.ml over the extracted model (ExtrOcamlBasic only)",
           "C arithmetic modelled in unbounded Z under reading_ok (sec < 2^40 keeps every product inside a signed 64-bit long)"]
ASSUMPTIONS = ["clock_gettime delivers 0 <= tv_nsec < 10^9 and 0 <= tv_sec < 2^40",
               "x86-64 little-endian host; the timestamp field of a generated frame is the 8 bytes at offset 24"]

SECS = [0, 1, 2, 999, 1000, 1001, 999999, 1000000, 1699999999, 1700000000, 1700000001, 2**31 - 1, 2**31,
        2**32 - 1, 2**32, 2**40 - 2, 2**40 - 1]
NSECS = [0, 1, 999, 1000, 1001, 999999, 1000000, 1000001, 499999999, 500000000, 999998999, 999999000, 999999999]


def gen_cases(tier, seed):
    rng = random.Random(seed)
    pts = [(s, n) for s in SECS for n in NSECS]
    cases = []
    if tier == "quick":
        # every adjacent pair in lexicographic order plus each point against the extremes, then a sample of all pairs
        for i in range(len(pts) - 1):
            cases.append("epoch2 %d %d %d %d" % (pts[i] + pts[i + 1]))
        for s in SECS:   # second boundary: end of second s -> start of s+1
            cases.append("epoch2 %d %d %d %d" % (s, 999999999, s + 1, 0))
        allp = [(a, b) for a in pts for b in pts if a <= b]
        for a, b in rng.sample(allp, 4000):
            cases.append("epoch2 %d %d %d %d" % (a + b))
        nr = 2000
    else:
        for a in pts:
            for b in pts:
                if a <= b:
                    cases.append("epoch2 %d %d %d %d" % (a + b))
        for s in SECS:
            cases.append("epoch2 %d %d %d %d" % (s, 999999999, s + 1, 0))
        nr = 200000
    for _ in range(nr):
        s1 = rng.choice([rng.randrange(0, 2**40), rng.randrange(0, 2**31), rng.choice(SECS)])
        n1 = rng.choice([rng.randrange(0, 10**9), rng.choice(NSECS)])
        d = rng.choice([0, 0, 1, 1, rng.randrange(0, 5), rng.randrange(0, 10**6)])
        s2 = min(s1 + d, 2**40 - 1)
        n2 = rng.choice([rng.randrange(0, 10**9), rng.choice(NSECS)])
        if (s2, n2) < (s1, n1):
            s1, n1, s2, n2 = s2, n2, s1, n1
        cases.append("epoch2 %d %d %d %d" % (s1, n1, s2, n2))
    for s, n in pts[:: 7 if tier == "quick" else 1]:
        cases.append("epoch_frames %d %d" % (s, n))
    # frames generated in succession under a clock that advances with every reading, started just below every kind of
    # boundary: a second, 2^32 microseconds (one 32-bit half of the timestamp), 2^32 seconds
    B32 = (1 << 32)                                  # microseconds
    for k in (1, 2, 7, 395000):                      # k * 2^32 us since the epoch (395000: the year 2023)
        us = k * B32
        for back in (1, 2, 3, 5, 8):
            for step in (1000, 1500, 999, 2000, 1000000):
                st = us - back
                cases.append("epoch_ticks %d %d %d 4" % (st // 1000000, (st % 1000000) * 1000 + rng.choice([0, 1, 999]), step))
    for s0 in (0, 1, 1699999999, (1 << 32) - 1):
        for step in (1, 999, 1000, 400000000, 999999999):
            cases.append("epoch_ticks %d %d %d 4" % (s0, 999999000 + rng.randrange(1000), step))
    return cases, {"grid_points": len(pts), "random_pairs": nr, "total": len(cases)}


def judge(case, impl, model, spec=None):
    t = case.split()
    if impl.startswith("CRASH") or impl.startswith("HANG") or impl == "MISSING":
        return ("crash:" + impl.split()[-1], "the library crashed or hung on " + case)
    if t[0] == "epoch2":
        o = impl.split()
        v1, v2 = int(o[1]), int(o[2])
        if v1 > v2:
            return ("non-monotone", "reading (%s,%s) gives %d but the later reading (%s,%s) gives %d" %
                    (t[1], t[2], v1, t[3], t[4], v2))
    elif t[0] == "epoch_ticks":
        o = impl.split()[1:]
        if "err" in o:
            return ("frame-generation-failed", impl)
        vals = [int(x.split("/")[0]) for x in o]
        for i in range(len(vals) - 1):
            if vals[i] > vals[i + 1]:
                return ("frames-run-backwards", "clock advancing by %s ns per reading from (%s,%s): frame %d carries %d, the next frame %d"
                        % (t[3], t[1], t[2], i, vals[i], vals[i + 1]))
    elif t[0] == "epoch_frames":
        o = impl.split()
        if len(set(o[1:])) != 1 or "err" in o[1:]:
            return ("frame-timestamps-differ", "beacon/probe response/timing advertisement carry different timestamps: " + impl)
    return None


def nontrivial(case, impl):
    t = case.split()
    if t[0] == "epoch2" and (t[1], t[2]) != (t[3], t[4]):
        return case
    if t[0] in ("epoch_frames", "epoch_ticks"):
        return case
    return None
