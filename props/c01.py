"""C01 - parsing arbitrary bytes is memory-safe and always returns."""
import random, struct
from .common import hx, crashed, crash_sig
from . import frames as F, rtgen, c04, c08, c12

ID = "C01"
PROP_FILE = "Properties/Properties_C01.v"
RULE = ("every parsing entry point (classify in both radiotap modes followed by data extraction, all nine management parsers, the "
        "four EAPOL routines, radiotap decode, tag iteration, FCS verification) on: all byte strings of length 0..1 and a 4096-value "
        "grid of length 2 (quick) / all of length 0..2 and 2^20 of length 3 (thorough); every truncation and every length/count-"
        "octet perturbation {0,1,max-1,max,255} of structured frames of every subtype, bare / radiotap / radiotap+FCS; random "
        "mutation; inputs are exactly sized heap blocks under ASan+UBSan; non-trivial = distinct (entry point, input)")
TRUSTED = ["Coq 8.16.1 kernel", "all hand-written models, tied by the correspondences of C02/C04/C06/C08/C09/C11/C12 and this one",
           "AddressSanitizer/UBSan (gcc 12) for detection on the implementation side; machine-level undefined behaviour (misaligned "
           "typed loads, strict aliasing, what the optimiser makes of them) is observed by the sanitizers only, not proved"]
ASSUMPTIONS = ["libwifi_parse_radiotap_rssi takes no length (F34, open): it is applied only to buffers that hold a complete header",
               "frame_len < 2^31"]

OPS = ["classify 0", "classify 1", "mgmt 0", "mgmt 1", "eapol 0", "eapol 1", "rtap", "iter", "verify", "ie rsn", "ie wpa", "ie msft"]


def all_ops(buf, ops=OPS):
    h = hx(buf)
    return [o + " " + h for o in ops]


def perturb(rng, fr, positions):
    out = []
    for p in positions:
        if p < len(fr):
            for v in (0, 1, 0x3f, 0x40, 0x7f, 0x80, 0xc0, 254, 255, (fr[p] + 1) & 255, (fr[p] - 1) & 255, len(fr) & 255, max(0, len(fr) - p - 1) & 255):
                b = bytearray(fr); b[p] = v
                out.append(bytes(b))
    return out


def gen_cases(tier, seed):
    rng = random.Random(seed)
    q = tier == "quick"
    cases = []
    bufs = [b""] + [bytes([a]) for a in range(256)]
    if q:
        bufs += [bytes([a, b]) for a in range(0, 256, 4) for b in range(0, 256, 4)]
    else:
        bufs += [bytes([a, b]) for a in range(256) for b in range(256)]
    for b in bufs:
        cases += all_ops(b)
    n_small = len(cases)
    if not q:
        for _ in range(1 << 17):
            cases += all_ops(bytes(rng.randrange(256) for _ in range(3)), ops=["classify 0", "classify 1", "mgmt 0", "rtap", "iter"])
    # structured frames: truncation at every byte, length/count octet perturbation
    structured = []
    for st in F.PARSABLE:
        els = [F.el(0, b"abc"), F.el(3, [6]), F.el(48, F.rsn_body(rng, pairwise=F.rand_suites(rng, "rsn", 2), akms=F.rand_suites(rng, "rsn", 2))),
               F.el(221, F.wpa_body(rng, uc=F.rand_suites(rng, "wpa", 2), akms=F.rand_suites(rng, "wpa", 1))), F.el(221, F.MSFT + bytes([4, 1, 2])), F.el(61, bytes(22))]
        structured.append(F.mgmt(rng, st, els, ordered=(st % 2 == 1)))
    eap = bytes.fromhex(c12.frame(rng, 1, 0x008a, 20, 20).split()[2])
    structured.append(eap)
    structured.append(bytes([0xb4, 0]) + bytes(14))       # RTS
    # hostile Key Data Length fields: declared lengths around and far above the 1024 cap against every amount actually present,
    # plain and QoS, bare / behind radiotap / with FCS (a clamp skipped for ONE range of the declared value shows here)
    n_hostile = 0
    for declared in (1, 22, 1023, 1024, 1025, 1026, 2000, 0x7fff, 0x8000, 0xfffe, 0xffff):
        for avail in (0, 1, 2, 21, 22, 23, 100, 1022, 1023, 1024, 1025, 1100):
            for qos in (0, 1):
                if q and (declared, avail, qos) != (declared, avail, (declared + avail) % 2) and declared < 1024:
                    continue
                fr = bytes.fromhex(c12.frame(rng, qos, rng.choice([0x008a, 0x010a, 0x13ca, 0x030a]), declared, avail).split()[2])
                for mode in ((0, 1, 2) if not q else (rng.choice((0, 1, 2)),)):
                    rt, buf = F.wrap(rng, fr, mode)
                    cases += ["eapol %d %s" % (rt, hx(buf)), "classify %d %s" % (rt, hx(buf))]; n_hostile += 1
    for fr in structured:
        for mode in (0, 1, 2):
            rt, buf = F.wrap(rng, fr, mode)
            ops = ["classify %d" % rt, "mgmt %d" % rt, "eapol %d" % rt]
            step = 1 if (not q or len(buf) < 80) else 3
            for k in range(0, len(buf) + 1, step):
                cases += all_ops(buf[:k], ops=ops)
            # perturb every octet that can be a length or count: radiotap it_len/present, element lengths, suite counts
            pos = list(range(0, min(len(buf), 12))) if rt else []
            base = len(buf) - len(fr) if rt else 0
            hl = 28 if (fr[1] & 0x80 and fr[0] & 0x0c == 0) else 24
            pos += [base + hl + k for k in range(0, max(0, len(fr) - hl), 1 if not q else 2)]
            for pb in perturb(rng, buf, pos)[:: (1 if not q else 3)]:
                cases += all_ops(pb, ops=ops)
    # every element whose body a parser looks inside, cut at every byte (the length octet follows the cut), as the
    # last element of the frame (anything read past it is past the parser's own copy) and followed by another
    n_elcut = 0
    for rep in range(2 if q else 20):
        inner = [(48, F.rsn_body(rng, pairwise=F.rand_suites(rng, "rsn", 2), akms=F.rand_suites(rng, "rsn", 2))),
                 (221, F.wpa_body(rng, uc=F.rand_suites(rng, "wpa", 2), akms=F.rand_suites(rng, "wpa", 2))),
                 (221, F.MSFT + bytes([4, 1, 2, 3])), (221, F.MSFT + bytes([2, 1, 2, 3])), (221, bytes([0, 15, 172, 1, 2])),
                 (3, bytes([6, 1])), (61, bytes(range(24))), (0, b"abcd"), (1, bytes([2, 4, 11, 22])), (7, b"DE \x01\x0d\x14")]
        for st in F.PARSABLE:
            for num, full in inner:
                for k in range(len(full) + 1):
                    for els in ([F.el(num, full[:k])], [F.el(0, b"x"), F.el(num, full[:k])], [F.el(num, full[:k]), F.el(0, b"x")]):
                        fr = F.mgmt(rng, st, els, ordered=False)
                        cases.append("mgmt 0 " + hx(fr)); n_elcut += 1
    # suite counts against suites present, incl. counts whose byte length wraps 16 bits
    cases += c08.count_cases(rng)
    cases += c08.ie_cases(rng, q)
    # radiotap headers with 13..41 per-antenna words (the result holds 16), whole and cut
    for n in list(range(13, 21)) + [31, 32, 41]:
        h = rtgen.rtap_antennas(rng, n)
        if h is not None:
            for k in (len(h), len(h) - 1, len(h) - 2):
                cases += ["rtap " + hx(h[:k]), "classify 1 " + hx(h[:k] + (bytes([0x80, 0]) + bytes(30) if k == len(h) else b""))]
    # radiotap headers and tag buffers
    for _ in range(300 if q else 6000):
        h = rtgen.rtap_single(rng.getrandbits(23), rng) if rng.random() < 0.5 else rtgen.rtap_multi(rng)
        k = rng.randrange(0, len(h) + 1)
        cases += ["rtap " + hx(h[:k]), "classify 1 " + hx(h[:k])]
        b = bytearray(h); b[rng.randrange(len(b))] = rng.randrange(256)
        cases += ["rtap " + hx(bytes(b)), "classify 1 " + hx(bytes(b) + bytes(rng.randrange(256) for _ in range(rng.randrange(0, 40))))]
        cases.append("rssi " + hx(h))
    # F34 (open): the rssi routine on a buffer shorter than its own it_len
    h = rtgen.rtap_single(0x2E, rng)
    cases.append("rssi_trunc " + hx(h[:9]))
    for _ in range(2000 if q else 60000):
        L = rng.choice([3, 4, 5, 8, 16, 24, 26, 28, 30, 40, 80, 200])
        b = bytearray(rng.randrange(256) for _ in range(L))
        if rng.random() < 0.7:
            b[0] = rng.choice([0x80, 0x50, 0x40, 0x00, 0x10, 0x20, 0x30, 0xa0, 0xc0, 0x08, 0x88, 0xb4]); b[1] = rng.choice([0, 0x80])
        cases += all_ops(bytes(b), ops=rng.sample(OPS, 3))
    wide = F.wide(rng, q)
    cases += ["iter " + hx(b) for b in wide["iter"]]
    for rt, buf in wide["mgmt"] + wide["classify"]:
        cases += ["classify %d %s" % (rt, hx(buf)), "mgmt %d %s" % (rt, hx(buf)), "eapol %d %s" % (rt, hx(buf))]
    return cases, {"inputs_over_65535_bytes": len(wide["iter"]) + 3 * len(wide["mgmt"] + wide["classify"]), "small_exhaustive_cases": n_small, "structured_frames": len(structured), "hostile_key_data_length_frames": n_hostile, "element_cut_frames": n_elcut, "total": len(cases)}


def judge(case, impl, model, spec=None):
    if crashed(impl):
        return (crash_sig(impl) + ":" + case.split()[0], "memory error / crash / hang on " + case[:300])
    if "INPUT-MODIFIED" in impl or "LEAK" in impl:
        return ("side-effect:" + case.split()[0], impl[-60:])
    return None


def canon(line):
    # an out-of-bounds read is the same observation on both sides: ASan's report / the model's Fault
    if line and ("FAULT@" in line or line.startswith("CRASH asan:heap-buffer-overflow:read")):
        return "oob-read"
    return line


def nontrivial(case, impl):
    return case
