"""C07 - serialisation never writes outside the caller's buffer."""
import random
from .common import hx, crashed, crash_sig
from . import c03

ID = "C07"
PROP_FILE = "Properties/Properties_C07.v"
RULE = ("every dump routine (12 frame kinds and single tags) x every buffer size 0..encoding+2 (each size an exactly sized heap "
        "block, pre-filled, compared before/after) x varied objects; radiotap generation for 2^14 (quick) / 2^20 (thorough) "
        "selections of the 23 fields x antenna counts {0,1,16} into an exactly 128-byte block; random-address generation with "
        "and without a prefix into an exactly 6-byte block; non-trivial = distinct (object, size sweep) or selection")
TRUSTED = ["Coq 8.16.1 kernel incl. vm_compute (worst-case staging bound)", "translator: sizes, limits, alignment table as compiled",
           "hand-written write sequences of Model/Gen.v / Model/RadiotapGen.v tied by this correspondence",
           "harness/ops_gen.c, ops_tags.c, ops_rtap.c under ASan/UBSan (red zones around every caller buffer); ocaml/driver.ml + extraction"]
ASSUMPTIONS = ["getrandom delivers the requested number of bytes", "antenna_count <= LIBWIFI_MAX_RADIOTAP_ANTENNAS (documented limit)"]

DUMPERS = [k for k in c03.ALL if k not in ("atim", "rts", "cts")]


def gen_cases(tier, seed):
    rng = random.Random(seed)
    q = tier == "quick"
    cases = []
    for k in DUMPERS:
        for _ in range(25 if q else 600):
            cases.append(" ".join(c03.one(rng, k, B="B*").split()))
    # action frames whose accumulated detail reaches the one-octet limit (253, 254, 255 bytes, in one piece and in several)
    for kind in ("action", "action_noack"):
        for total in (253, 254, 255):
            for pieces in ((total,), (100, 100, total - 200), (1,) * 3 + (total - 3,)):
                a = "%s %s %s" % (c03.rmac(rng), c03.rmac(rng), c03.rmac(rng))
                ds = " ".join("D:" + hx([rng.randrange(256) for _ in range(L)]) for L in pieces)
                cases.append("gen %s %s %d - - - - - - %s B*" % (kind, a, rng.randrange(256), ds))
    # objects stripped of every element (create, then remove tag after tag), and stripped then given elements again: the parameter
    # block is NULL / freshly allocated, the encoding is header + fixed parameters only; every buffer size 0..len+2
    for k in DUMPERS:
        if k in ("action", "action_noack"):
            continue
        for tail in ("X", "X A:5:0102", "A:7:%s X" % hx([1] * 200), "X X A:0:"):
            base = c03.one(rng, k, B="@B@").split()
            base = [t for t in base if not t.startswith("A:")]
            cases.append(" ".join(base[:-1] + tail.split() + ["B*"]))
            cases.append(" ".join(base[:-1] + tail.split() + ["B4096"]))
    n_sweeps = len(cases)
    # encodings of 65536 bytes and more (a length that no longer fits 16 bits): 256..258 maximal elements appended;
    # every buffer below is shorter than the encoding, so each dump must refuse and write nothing
    n_huge = 0
    for k in DUMPERS:
        if k in ("action", "action_noack"):
            continue
        for ntags in ((256,) if q else (256, 257, 515)):
            base = c03.one(rng, k, B="@B@").split()
            base = [t for t in base if not t.startswith("A:")]
            big = ["A:%d:%s" % (rng.randrange(256), hx([rng.randrange(256) for _ in range(255)])) for _ in range(ntags)]
            for bl in ((65535,) if q else (0, 700, 65535, 65536)):
                if bl < ntags * 257:
                    cases.append(" ".join(base[:-1] + big + ["B%d" % bl])); n_huge += 1
    for _ in range(150 if q else 3000):
        L = rng.choice([0, 1, 2, 5, 32, 255])
        body = hx([rng.randrange(256) for _ in range(L)])
        for bl in range(0, L + 5):
            cases.append("dumptag %d %d %s %d" % (rng.randrange(256), L, body, bl))
    n_sel = (1 << 14) if q else (1 << 20)
    for _ in range(n_sel):
        p = rng.getrandbits(23)
        v = [rng.randrange(65536), rng.randrange(65536), rng.randrange(256), rng.randrange(256), rng.randrange(256),
             rng.randrange(65536), rng.randrange(65536), rng.randrange(256), rng.randrange(256), rng.randrange(256),
             rng.randrange(256), rng.getrandbits(64), rng.randrange(65536), rng.randrange(256), rng.randrange(256),
             rng.randrange(256), rng.randrange(256)]
        cases.append("rtgen %d %s %d %d %d" % (p, " ".join(map(str, v)), rng.choice([0, 1, 16]), rng.randrange(256), rng.randrange(256)))
    # the worst case: every field selected, 16 antennas
    cases.append("rtgen %d %s 16 1 2" % ((1 << 23) - 1, " ".join(["1"] * 17)))
    cases.append("rtgen %d %s 16 1 2" % ((1 << 32) - 1, " ".join(["1"] * 17)))
    for pfx in ("-", "aabbcc", "000000", "ffffff", "0102030405"):
        cases.append("randmac 0 %s" % pfx)
        if pfx != "-":
            cases.append("randmac 1 %s" % pfx)
    return cases, {"dump_size_sweeps": n_sweeps, "huge_encodings": n_huge, "radiotap_selections": n_sel, "total": len(cases)}


def judge(case, impl, model, spec=None):
    if crashed(impl):
        return (crash_sig(impl), "write outside the caller's buffer (sanitizer report) on " + case[:200])
    if any(x in impl for x in ("TOUCHED", "BEYOND", "LEN-MISMATCH", "SWEEP-BAD", "TOO-LONG")):
        return ("dump-contract:" + case.split()[0], impl[:200])
    t = case.split()
    if t[0] == "dumptag":
        fits = int(t[4]) >= int(t[2]) + 2
        if fits != impl.startswith("dumptag ok"):
            return ("dumptag-size", "tag of %s body bytes into %s-byte buffer: %s" % (t[2], t[4], impl[:80]))
    if t[0] == "randmac":
        got = impl.split()[1]
        if t[1] == "1" and got[:6] != t[2][:6]:
            return ("randmac-prefix", "prefix %s not kept: %s" % (t[2], got))
        if got[6:] != ("c0c1c2" if t[1] == "1" else "c3c4c5") and not (t[1] == "0" and got == "c0c1c2c3c4c5"):
            return ("randmac-bytes", "unexpected random bytes: " + got)
    return None


def nontrivial(case, impl):
    return case
