"""builders for management frames with crafted information elements (C04, C08, C01, C13, C14)"""
import random, struct, zlib
from . import rtgen

IEEE = bytes([0x00, 0x0f, 0xac])
MSFT = bytes([0x00, 0x50, 0xf2])
FIXED = {0: 4, 1: 6, 2: 10, 3: 6, 4: 0, 5: 12, 8: 12, 10: 2, 12: 2}      # subtype -> fixed parameter bytes
CAP_OFF = {1: 0, 3: 0, 5: 10, 8: 10}
PARSABLE = [0, 1, 2, 3, 4, 5, 8, 10, 12]


def el(num, body):
    body = bytes(body)
    return bytes([num & 255, len(body) & 255]) + body


def suite(oui, t):
    return bytes(oui) + bytes([t & 255])


def rsn_body(rng, group=None, pairwise=None, akms=None, caps=True, version=1, pw_count=None, ak_count=None):
    g = group if group is not None else suite(IEEE, rng.choice([2, 4, 8]))
    pw = pairwise if pairwise is not None else [suite(IEEE, rng.choice([2, 4, 8, 9, 10]))]
    ak = akms if akms is not None else [suite(IEEE, rng.choice([1, 2, 8, 18]))]
    b = struct.pack("<H", version) + g + struct.pack("<H", len(pw) if pw_count is None else pw_count) + b"".join(pw) + \
        struct.pack("<H", len(ak) if ak_count is None else ak_count) + b"".join(ak)
    if caps:
        b += struct.pack("<H", rng.randrange(65536))
    return b


def wpa_body(rng, mc=None, uc=None, akms=None, version=1, uc_count=None, ak_count=None, typ=1):
    m = mc if mc is not None else suite(MSFT, rng.choice([1, 2, 5]))
    u = uc if uc is not None else [suite(MSFT, rng.choice([0, 2, 1, 5]))]
    a = akms if akms is not None else [suite(MSFT, rng.choice([1, 2]))]
    return MSFT + bytes([typ]) + struct.pack("<H", version) + m + struct.pack("<H", len(u) if uc_count is None else uc_count) + \
        b"".join(u) + struct.pack("<H", len(a) if ak_count is None else ak_count) + b"".join(a)


def rand_suites(rng, kind, n):
    out = []
    for _ in range(n):
        r = rng.random()
        oui = (IEEE if kind == "rsn" else MSFT) if r < 0.75 else (MSFT if kind == "rsn" else IEEE) if r < 0.9 else bytes(rng.randrange(256) for _ in range(3))
        out.append(suite(oui, rng.choice([rng.randrange(0, 22), rng.randrange(256)])))
    return out


def sec_elements(rng):
    """a list of security-related elements (possibly none)"""
    els = []
    r = rng.random()
    if r < 0.55:
        els.append(el(48, rsn_body(rng, group=rand_suites(rng, "rsn", 1)[0], pairwise=rand_suites(rng, "rsn", rng.randrange(0, 8)),
                                    akms=rand_suites(rng, "rsn", rng.randrange(0, 8)), caps=rng.random() < 0.7)))
    if rng.random() < 0.45:
        els.append(el(221, wpa_body(rng, mc=rand_suites(rng, "wpa", 1)[0], uc=rand_suites(rng, "wpa", rng.randrange(0, 8)),
                                     akms=rand_suites(rng, "wpa", rng.randrange(0, 8)))))
    if rng.random() < 0.25:
        els.append(el(221, MSFT + bytes([4]) + bytes(rng.randrange(256) for _ in range(rng.randrange(0, 12)))))     # WPS
    if rng.random() < 0.25:
        els.append(el(221, MSFT + bytes([2]) + bytes(rng.randrange(256) for _ in range(rng.randrange(0, 8)))))      # WMM
    if rng.random() < 0.2:
        els.append(el(221, bytes(rng.randrange(256) for _ in range(rng.randrange(0, 9)))))                           # other vendor / short
    return els


def elements(rng, ssid=True):
    els = []
    if ssid and rng.random() < 0.9:
        L = rng.choice([0, 1, 5, 8, 31, 32, 32, 33, 40, 255]) if rng.random() < 0.5 else rng.randrange(0, 33)
        body = bytes(L) if rng.random() < 0.15 else bytes(rng.randrange(256) for _ in range(L))
        els.append(el(0, body))
    if rng.random() < 0.8:
        els.append(el(3, bytes([rng.randrange(256)]) if rng.random() < 0.9 else b""))
    if rng.random() < 0.3:
        els.append(el(61, bytes(rng.randrange(256) for _ in range(rng.choice([0, 1, 22])))))
    els += sec_elements(rng)
    for _ in range(rng.randrange(0, 5)):
        L = rng.choice([0, 1, 2, 8, 30, rng.randrange(256)])
        els.append(el(rng.choice([1, 5, 7, 42, 45, 50, 127, 255, rng.randrange(256)]), bytes(rng.randrange(256) for _ in range(L))))
    if rng.random() < 0.5:
        rng.shuffle(els)
    return els


def mgmt(rng, subtype, els, ordered=False, privacy=None, fixed=None):
    nfix = FIXED.get(subtype, 0)
    fx = bytearray(rng.randrange(256) for _ in range(nfix)) if fixed is None else bytearray(fixed)
    if subtype in CAP_OFF and nfix >= CAP_OFF[subtype] + 2 and privacy is not None:
        o = CAP_OFF[subtype]
        fx[o] = (fx[o] & ~0x10) | (0x10 if privacy else 0)
    return rtgen.mgmt_frame(subtype, rng, ordered=ordered, body=bytes(fx) + b"".join(els))


def wrap(rng, frame, mode):
    """mode 0: bare; 1: radiotap; 2: radiotap announcing an FCS + computed FCS"""
    if mode == 0:
        return 0, frame
    if mode == 1:
        return 1, rtgen.rtap_single(0x2E, rng, flags=0x00) + frame
    return 1, rtgen.rtap_single(0x2E, rng, flags=0x10) + frame + struct.pack("<I", zlib.crc32(frame) & 0xFFFFFFFF)


def wide(rng, q=True):
    """inputs of 65536 bytes and more (a length, offset or count kept in 16 bits somewhere along the way wraps): returns
    {"iter": [tag buffers], "mgmt": [(rt, frame)], "classify": [(rt, frame)]}"""
    def chain(total):
        b = bytearray()
        while total - len(b) >= 2:
            L = min(255, total - len(b) - 2)
            b += bytes([rng.choice([1, 7, 45, 127, 221]), L]) + bytes(rng.randrange(256) for _ in range(L))
        return bytes(b)
    out = {"iter": [], "mgmt": [], "classify": []}
    for total in ((65535, 65536, 65538) if q else (65534, 65535, 65536, 65537, 65538, 65536 + 257, 131072, 131075)):
        c = chain(total)
        out["iter"] += [c, c + bytes([3]), c + bytes([3, 1]), c + bytes([3, 1, 6]), c + bytes([48, 200, 1, 0])]
    big = chain(65536 + 40)
    rsn = el(48, rsn_body(rng, pairwise=[suite(IEEE, 4)], akms=[suite(IEEE, 2)]))
    for st in ((8, 0, 5) if q else PARSABLE):
        # SSID and channel before, channel and RSN element after 64 KiB of other elements
        out["mgmt"].append((0, mgmt(rng, st, [el(0, b"wide"), el(3, [1]), big, el(3, [11]), rsn], privacy=True)))
        out["mgmt"].append((0, mgmt(rng, st, [big, el(0, b"late"), el(3, [36]), rsn], privacy=True)))
    fr = mgmt(rng, 8, [el(0, b"w"), big, el(3, [9])])
    for mode in (1, 2):
        out["mgmt"].append(wrap(rng, fr, mode))
    for fc0 in (0x08, 0x88, 0x80, 0xb4):
        body = bytes([fc0, rng.choice([0, 0x80])]) + bytes(rng.randrange(256) for _ in range(65536 + rng.choice([0, 22, 24, 30, 300])))
        out["classify"].append((0, body))
        out["classify"].append(wrap(rng, body, 1))
        out["classify"].append(wrap(rng, body, 2))
    return out
