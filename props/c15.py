"""C15 - allocation failure is reported as an error, never a crash or silent loss."""
import random, re
from .common import hx, crashed, crash_sig
from . import c14

ID = "C15"
PROP_FILE = "Properties/Properties_C15.v"
RULE = ("for each scenario (every tag-carrying generator with 0..6 tag edits, action objects with details, classify + all parsers + "
        "data/EAPOL extraction on accepted frames with and without radiotap) the number N of allocations of the fault-free run is "
        "measured first, then the scenario is re-run with allocation k failing, for EVERY k < N, both as a single failure and as "
        "failure of all allocations from k on; return values, crash class, stored bytes after a failed call and the ledger after "
        "release are checked and the trace compared with the skeleton; non-trivial = distinct (scenario, k, mode)")
TRUSTED = ["Coq 8.16.1 kernel", "hand-written allocation skeletons Model/Alloc.v, Model/AllocScen.v tied by this correspondence",
           "failure injection through --wrap=malloc,realloc,calloc (the k-th attempt made by library code returns NULL)",
           "harness/ops_life.c under ASan/UBSan; ocaml/driver.ml + extraction"]
ASSUMPTIONS = ["F37 (open): libwifi_set_*_ssid/_channel remove the old element before adding the new one, so a failed allocation for the new "
               "one loses the old one; reported as KNOWN-FINDING, not fixed"]


def count_allocs(line, exe):
    from lib import vcore as V
    out = V.run_cases(exe, [line])[0]
    return len(re.findall(r"\b[mrc]\(", out)), out


def gen_cases(tier, seed):
    from lib import vcore as V
    import os
    rng = random.Random(seed)
    q = tier == "quick"
    exe = os.path.join(V.BUILD, "impl", "san", "harness")
    base = []
    for kind in range(8):
        for _ in range(6 if q else 120):
            base.append(c14.gen_line(rng, kind=kind, nops=rng.randrange(0, 7)))
    for _ in range(15 if q else 300):
        base.append(c14.act_line(rng))
    for rt, buf in c14.parse_frames(rng, 60 if q else 1500):
        base.append("allocparse -1 -1 %d %s" % (rt, hx(buf)))
    cases = []
    outs = V.run_cases(exe, base) if os.path.exists(exe) else [""] * len(base)
    n_scen = 0
    for line, out in zip(base, outs):
        n = len(re.findall(r"\b[mrc]\(", out))
        if n == 0:
            continue
        n_scen += 1
        t = line.split()
        for k in range(n):
            cases.append(" ".join([t[0], str(k), "-1"] + t[3:]))
            cases.append(" ".join([t[0], "-1", str(k)] + t[3:]))
    return cases, {"scenarios": n_scen, "total": len(cases)}


def judge(case, impl, model, spec=None):
    if crashed(impl):
        return (crash_sig(impl), "crash under injected allocation failure (NULL dereference?) on " + case[:200])
    m = re.search(r"live=(\d+)", impl)
    if m and int(m.group(1)) != 0:
        return ("leak:" + case.split()[0], "%s block(s) still allocated after release under failure: %s" % (m.group(1), impl[-300:]))
    if "LEDGER-ERR" in impl:
        return ("bad-free:" + case.split()[0], impl[-300:])
    lost = re.search(r"\(LOST(:\w)?\)", impl)
    if lost:
        which = lost.group(1) or ""
        return ("lost-data" + which, "a call that reported failure had already changed the stored bytes: " + impl[:300])
    # calls that all reported success must have stored what the reference list says (the model's bytes are the encoding of
    # the reference list: c05_step_refines), whatever allocation failed along the way
    mt_i = re.search(r" tags=(\S+)", impl)
    mt_m = re.search(r" tags=(\S+)", model or "")
    r_i = re.search(r" r=([-\d,()A-Z:a-z]+)", impl)
    if mt_i and mt_m and r_i and "-" not in r_i.group(1) and mt_i.group(1) != mt_m.group(1):
        return ("wrong-tags-after-success", "every call reported success but the stored bytes are %s, the reference list gives %s: %s"
                % (mt_i.group(1)[:80], mt_m.group(1)[:80], case[:160]))
    # an allocation failed (=F in the trace): some call must have reported an error, unless the failed one was a
    # shrinking realloc whose failure is harmless
    t = case.split()
    if "=F" in impl:
        fails = re.findall(r"(\w)\(([^)]*)\)=F", impl)
        rets = re.search(r" r=([-\d,()A-Z:a-z]+)", impl)
        anyerr = rets and "-" in rets.group(1)
        harmless = all(f[0] == "r" for f in fails) and not anyerr and t[0] == "allocgen"
        if not anyerr and not harmless:
            return ("false-success:" + t[0], "an allocation failed but every call reported success: " + impl[:300])
    return None


def canon(line):
    # the LOST markers are the harness's own data-loss observation, not part of the model's line
    return re.sub(r"\(LOST(:\w)?\)", "", line) if line else line


def nontrivial(case, impl):
    return case if "=F" in impl else None
