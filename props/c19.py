"""C19 - published protocol numbers and tag names follow the IEEE assignments."""
import random, re

ID = "C19"
PROP_FILE = "Properties/Properties_C19.v"
RULE = ("enumerators: all published enumerators of ten enumerations as compiled (translator probe) against the "
        "independently transcribed IEEE table, decided inside Coq (one 'enumcheck' case prints the decision "
        "procedure's witnesses); lookup: libwifi_get_tag_name on -1024..1024, boundary integers and random "
        "32-bit integers (quick) / all 2^32 integers by ranges (thorough); non-trivial = distinct integer argument")
TRUSTED = ["Coq 8.16.1 kernel incl. vm_compute (finite sweeps: 256 tag numbers, ~420 enumerators)",
           "tools/translate.py: enumerator values printed by a probe compiled with the repo's headers; "
           "clang AST walk of libwifi_get_tag_name's switch -> Gen/Tables.v",
           "Spec/IEEE.v: transcription of IEEE 802.11-2016/2020 tables by an independent pass that saw only the names; "
           "TAG_BSS_PARAMETERS is not vouched for and excluded",
           "harness/ops_misc.c (ASan/UBSan build), ocaml/driver.ml over the extracted model (ExtrOcamlBasic only)"]
ASSUMPTIONS = ["int is 32 bits; strings returned by the lookup are compared by content after a bounded strnlen",
               "an error in the IEEE transcription is an error in the claim"]

INT_MIN, INT_MAX = -2**31, 2**31 - 1


def gen_cases(tier, seed):
    rng = random.Random(seed)
    cases = ["enumcheck"]
    vals = list(range(-1024, 1025)) + [INT_MIN, INT_MIN + 1, INT_MAX, INT_MAX - 1, 65535, 65536, 65536 + 48,
                                        -256, -255, 256 + 221, 2**24, 2**31 - 256, -2**31 + 221]
    vals += [rng.randrange(INT_MIN, INT_MAX + 1) for _ in range(2000)]
    vals += [(rng.randrange(-2**23, 2**23) << 8) | rng.randrange(256) for _ in range(2000)]   # low octet = a tag number
    # order matters only if the lookup keeps state between calls: every number 0..255 asked right AFTER a number with the same
    # low octet outside 0..255, and right after its neighbours (a lookup must not remember the previous question)
    for k in range(256):
        for other in (k + 256, k - 256, k + (1 << 20), (k + 1) & 255, k ^ 0x80):
            vals += [other, k]
    for v in vals:
        cases.append("tagname %d" % v)
    if tier == "thorough":
        step = 2**24
        for lo in range(INT_MIN + 1, INT_MAX, step):
            cases.append("tagname_range %d %d" % (lo, min(lo + step - 1, INT_MAX)))
    else:
        cases.append("tagname_range -70000 70000")
    return cases, {"lookup_points": len(vals), "ranges": len(cases) - len(vals) - 1, "total": len(cases)}


def judge(case, impl, model, spec=None):
    t = case.split()
    if impl.startswith(("CRASH", "HANG", "MISSING")):
        return ("crash:" + impl.split()[-1], "the library crashed or hung on " + case)
    if t[0] == "enumcheck":
        if model is None:
            return None
        m = re.search(r"mismatches=\[(.*?)\] dups=\[(.*?)\]", model)
        if m and m.group(1):
            first = m.group(1).split(";")[0]
            return ("enumerator:" + first.split("=")[0], "published enumerator differs from the IEEE assignment: " + m.group(1))
        if m and m.group(2):
            return ("duplicate:" + m.group(2).split(";")[0], "two names of one kind share a number: " + m.group(2))
        return None
    if spec is not None and impl != spec:
        return ("tagname:" + t[1], "lookup returned '%s', expected '%s'" % (impl, spec))
    return None


def canon(line):
    # the enumerator decision is a pure Coq computation; the implementation side has nothing to print
    return "enumcheck" if line and line.startswith("enumcheck") else line


def nontrivial(case, impl):
    t = case.split()
    return case if t[0] in ("tagname", "tagname_range") else None
